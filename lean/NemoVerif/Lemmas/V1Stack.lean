import NemoVerif.Lemmas.V1Sub
namespace NemoVerif.V1Stack
open NemoVerif.V1Interp NemoVerif.V1Struct NemoVerif.V1Follow NemoVerif.V1Sub

/-! ### quiet elements of the resume pass -/

/-- a flow state the resume pass leaves alone -/
def QuietFS (flows : List FS) (fs : FS) : Prop :=
  fs.status ≠ .interrupted ∨
  ∃ u g, fs.interruptedBy = some u ∧ flows.find? (fun g => g.uid == u) = some g ∧ g.status ≠ .completed ∧ g.status ≠ .aborted

theorem resumePass_quiet_step (cfgs : Cfgs) (f : Nat) (ns : State) (i : Nat) (ch : Bool) (fs : FS)
    (hi : ns.flows[i]? = some fs) (hq : QuietFS ns.flows fs) :
    resumePass true (f + 1) cfgs ns i ch = resumePass true f cfgs ns (i + 1) ch := by
  simp only [resumePass, hi]
  rcases hq with hq | ⟨u, g, hby, hfind, hc, ha⟩
  · have : (fs.status == Status.interrupted) = false := by simpa using hq
    simp [this]
  · by_cases hs : (fs.status == Status.interrupted) = true
    · have h1 : (g.status == Status.completed) = false := by simpa using hc
      have h2 : (g.status == Status.aborted) = false := by simpa using ha
      simp [hs, hby, hfind, h1, h2]
    · simp [hs]

theorem resumePass_skip (cfgs : Cfgs) : ∀ (n F : Nat) (ns : State) (i : Nat) (ch : Bool),
    (∀ j fs, i ≤ j → j < i + n → ns.flows[j]? = some fs → QuietFS ns.flows fs) → i + n ≤ ns.flows.length →
    resumePass true F cfgs ns i ch = .error .oof ∨ ∃ f, resumePass true F cfgs ns i ch = resumePass true f cfgs ns (i + n) ch := by
  intro n
  induction n with
  | zero => intro F ns i ch _ _; exact .inr ⟨F, rfl⟩
  | succ n ih =>
    intro F ns i ch hq hlen
    cases F with
    | zero => left; rfl
    | succ f =>
      have hlt : i < ns.flows.length := by omega
      have hi : ns.flows[i]? = some ns.flows[i] := List.getElem?_eq_getElem hlt
      rw [resumePass_quiet_step cfgs f ns i ch _ hi (hq i _ (Nat.le_refl _) (by omega) hi)]
      have := ih f ns (i + 1) ch (fun j fs h1 h2 h3 => hq j fs (by omega) (by omega) h3) (by omega)
      rcases this with h | ⟨f', h⟩
      · exact .inl h
      · exact .inr ⟨f', by rw [h]; congr 1; omega⟩

theorem resumePass_end (cfgs : Cfgs) (F : Nat) (ns : State) (i : Nat) (ch : Bool) (h : ns.flows.length ≤ i) :
    resumePass true F cfgs ns i ch = .error .oof ∨ resumePass true F cfgs ns i ch = .ok (ns, ch) := by
  cases F with
  | zero => left; rfl
  | succ f =>
    right
    have : ns.flows[i]? = none := List.getElem?_eq_none h
    simp [resumePass, this]

/-- a pass over a list whose elements from `i` on are all quiet changes nothing -/
theorem resumePass_quiet_all (cfgs : Cfgs) (F : Nat) (ns : State) (i : Nat) (ch : Bool)
    (hq : ∀ j fs, i ≤ j → ns.flows[j]? = some fs → QuietFS ns.flows fs) :
    resumePass true F cfgs ns i ch = .error .oof ∨ resumePass true F cfgs ns i ch = .ok (ns, ch) := by
  by_cases hle : ns.flows.length ≤ i
  · exact resumePass_end cfgs F ns i ch hle
  · have hlt : i < ns.flows.length := by omega
    rcases resumePass_skip cfgs (ns.flows.length - i) F ns i ch (fun j fs h1 _ h3 => hq j fs h1 h3) (by omega) with h | ⟨f, h⟩
    · exact .inl h
    · rw [h]
      exact resumePass_end cfgs f ns _ ch (by omega)


/-! ### facts about the structured run with calls -/

/-- "who waits for whom" along a stack piece (innermost first): the first frame waits for `c`, every next one for its predecessor -/
def ChainFrom : Option Nat → List SFrame → Prop
  | _, [] => True
  | c, x :: r => x.callee = c ∧ ChainFrom (some x.uid) r

/-- the uid the frame above the piece has to wait for -/
def lastUid : Option Nat → List SFrame → Option Nat
  | c, [] => c
  | _, x :: r => lastUid (some x.uid) r

theorem chain_append : ∀ (l1 l2 : List SFrame) (c : Option Nat),
    ChainFrom c (l1 ++ l2) ↔ ChainFrom c l1 ∧ ChainFrom (lastUid c l1) l2 := by
  intro l1
  induction l1 with
  | nil => intro l2 c; simp [ChainFrom, lastUid]
  | cons x r ih => intro l2 c; simp only [List.cons_append, ChainFrom, lastUid, ih]; exact and_assoc.symm

theorem lastUid_append : ∀ (l1 l2 : List SFrame) (c : Option Nat), lastUid c (l1 ++ l2) = lastUid (lastUid c l1) l2 := by
  intro l1
  induction l1 with
  | nil => intro l2 c; rfl
  | cons x r ih => intro l2 c; simp only [List.cons_append, lastUid, ih]

/-- the innermost frame of a stack piece is the one that decides -/
def InnerOK (who : Nat × String × Step) (piece : List SFrame) : Prop :=
  ∀ hd, piece.head? = some hd → stepAt hd.body hd.addr = some who.2.2 ∧ who.2.1 = hd.name ∧ who.1 = hd.uid ∧ hd.callee = none

def RunOK (lib : Lib) (uid : Nat) (name : String) (ctr : Nat) (p : Prog) : OutS → Prop
  | .wait _ ctr' a callee frames who =>
    ctr ≤ ctr' ∧ (∀ fr ∈ frames, ctr ≤ fr.uid ∧ fr.uid < ctr' ∧ lib.lookup fr.name = some fr.body) ∧
    (frames.map (·.uid)).Nodup ∧ ChainFrom none frames ∧ callee = lastUid none frames ∧
    InnerOK who (frames ++ [{ uid := uid, name := name, body := p, addr := a, callee := callee }])
  | .fell _ ctr' => ctr ≤ ctr'
  | _ => True

theorem runS_ok (lib : Lib) (f : Nat) : ∀ (g uid : Nat) (name : String) (st : SSt) (ctr : Nat) (p : Prog) (start : Option Addr),
    RunOK lib uid name ctr p (runS lib f g uid name st ctr p start) := by
  intro g
  induction g with
  | zero => intro uid name st ctr p start; simp [runS, RunOK]
  | succ g ih =>
    intro uid name st ctr p start
    simp only [runS]
    cases ho : startOut f st p start with
    | fell s1 => simp [RunOK]
    | err => simp [RunOK]
    | oof => simp [RunOK]
    | bad => simp [RunOK]
    | brk s1 => simp [RunOK]
    | cnt s1 => simp [RunOK]
    | atStep s1 a1 =>
      simp only []
      cases hst : stepAt p a1 with
      | none => simp [RunOK]
      | some s =>
        have nondo : (∀ n, s ≠ .doFlow n) → RunOK lib uid name ctr p (OutS.wait s1 ctr a1 none [] (uid, name, s)) := by
          intro _
          refine ⟨Nat.le_refl _, by simp, by simp, trivial, rfl, ?_⟩
          intro hd hhd
          simp only [List.nil_append, List.head?_cons, Option.some.injEq] at hhd
          subst hhd
          exact ⟨hst, rfl, rfl, rfl⟩
        cases s with
        | user i => exact nondo (by simp)
        | bot i => exact nondo (by simp)
        | exec n ps rk => exact nondo (by simp)
        | doFlow n =>
          simp only []
          cases hl : lib.lookup n with
          | none => simp [RunOK]
          | some q =>
            simp only []
            have ih1 := ih ctr n s1 (ctr + 1) q none
            cases hq : runS lib f g ctr n s1 (ctr + 1) q none with
            | err => simp [RunOK]
            | oof => simp [RunOK]
            | bad => simp [RunOK]
            | fell s2 c2 =>
              rw [hq] at ih1
              simp only [RunOK] at ih1
              simp only []
              have ih2 := ih uid name s2 c2 p (some a1)
              cases hr : runS lib f g uid name s2 c2 p (some a1) with
              | err => simp [RunOK]
              | oof => simp [RunOK]
              | bad => simp [RunOK]
              | fell s3 c3 =>
                rw [hr] at ih2
                simp only [RunOK] at ih2 ⊢
                omega
              | wait s3 c3 a3 callee3 frames3 who3 =>
                rw [hr] at ih2
                obtain ⟨h1, h2, h3, h4, h5, h6⟩ := ih2
                refine ⟨by omega, ?_, h3, h4, h5, h6⟩
                intro fr hfr
                obtain ⟨x1, x2, x3⟩ := h2 fr hfr
                exact ⟨by omega, x2, x3⟩
            | wait s2 c2 a2 callee2 frames2 who2 =>
              rw [hq] at ih1
              obtain ⟨h1, h2, h3, h4, h5, h6⟩ := ih1
              simp only []
              refine ⟨by omega, ?_, ?_, ?_, ?_, ?_⟩
              · intro fr hfr
                rcases List.mem_append.1 hfr with hfr | hfr
                · obtain ⟨x1, x2, x3⟩ := h2 fr hfr
                  exact ⟨by omega, x2, x3⟩
                · simp only [List.mem_singleton] at hfr
                  subst hfr
                  exact ⟨Nat.le_refl _, by show ctr < c2; omega, hl⟩
              · rw [List.map_append, List.nodup_append]
                refine ⟨h3, by simp, ?_⟩
                intro a ha b hb
                simp only [List.map_cons, List.map_nil, List.mem_singleton] at hb
                subst hb
                obtain ⟨fr, hfr, rfl⟩ := List.mem_map.1 ha
                have := (h2 fr hfr).1
                omega
              · rw [chain_append]
                exact ⟨h4, by simp [ChainFrom, h5]⟩
              · rw [lastUid_append]; simp [lastUid]
              · intro hd hhd
                apply h6 hd
                rw [List.append_assoc] at hhd
                cases frames2 with
                | nil => simpa using hhd
                | cons x r => simpa using hhd


/-! ### flow-state lists with pairwise distinct uids -/

theorem uid_inj : ∀ {l : List FS}, (l.map (·.uid)).Nodup → ∀ {i j : Nat} {x y : FS},
    l[i]? = some x → l[j]? = some y → x.uid = y.uid → i = j := by
  intro l
  induction l with
  | nil => intro _ i j x y hi; simp at hi
  | cons a r ih =>
    intro hnd i j x y hi hj hxy
    simp only [List.map_cons, List.nodup_cons] at hnd
    cases i with
    | zero =>
      cases j with
      | zero => rfl
      | succ j =>
        simp only [List.getElem?_cons_zero, Option.some.injEq] at hi
        simp only [List.getElem?_cons_succ] at hj
        subst hi
        exact absurd (List.mem_map.2 ⟨y, List.mem_of_getElem? hj, hxy.symm⟩) hnd.1
    | succ i =>
      cases j with
      | zero =>
        simp only [List.getElem?_cons_zero, Option.some.injEq] at hj
        simp only [List.getElem?_cons_succ] at hi
        subst hj
        exact absurd (List.mem_map.2 ⟨x, List.mem_of_getElem? hi, hxy⟩) hnd.1
      | succ j =>
        simp only [List.getElem?_cons_succ] at hi hj
        exact congrArg _ (ih hnd.2 hi hj hxy)

theorem find_uid : ∀ {l : List FS}, (l.map (·.uid)).Nodup → ∀ {i : Nat} {x : FS}, l[i]? = some x →
    l.find? (fun g => g.uid == x.uid) = some x := by
  intro l
  induction l with
  | nil => intro _ i x hi; simp at hi
  | cons a r ih =>
    intro hnd i x hi
    cases i with
    | zero =>
      simp only [List.getElem?_cons_zero, Option.some.injEq] at hi
      subst hi
      simp [List.find?]
    | succ i =>
      simp only [List.getElem?_cons_succ] at hi
      simp only [List.map_cons, List.nodup_cons] at hnd
      have hne : (a.uid == x.uid) = false := by
        have : a.uid ≠ x.uid := fun h => hnd.1 (List.mem_map.2 ⟨x, List.mem_of_getElem? hi, h.symm⟩)
        simpa using this
      simp only [List.find?, hne]
      exact ih hnd.2 hi

theorem map_uid_set : ∀ (l : List FS) (i : Nat) (x z : FS), l[i]? = some z → x.uid = z.uid →
    (l.set i x).map (·.uid) = l.map (·.uid) := by
  intro l
  induction l with
  | nil => intro i x z h; simp at h
  | cons a r ih =>
    intro i x z h hu
    cases i with
    | zero =>
      simp only [List.getElem?_cons_zero, Option.some.injEq] at h
      subst h
      simp [hu]
    | succ i =>
      simp only [List.getElem?_cons_succ] at h
      simp only [List.set_cons_succ, List.map_cons]
      exact congrArg _ (ih i x z h hu)

theorem get_set (l : List FS) (i j : Nat) (x : FS) (hi : i < l.length) :
    (l.set i x)[j]? = if j = i then some x else l[j]? := by
  by_cases h : j = i
  · subst h; simp [hi]
  · have : i ≠ j := fun e => h e.symm
    simp [h, List.getElem?_set_ne this]


/-! ### the shape of the interpreter state along a stack of frames -/

theorem toFS_uid (fr : SFrame) : fr.toFS.uid = fr.uid := by
  cases h : fr.callee <;> simp [SFrame.toFS, h]

theorem toFS_live (fr : SFrame) : fr.toFS.status ≠ .completed ∧ fr.toFS.status ≠ .aborted := by
  cases h : fr.callee <;> simp [SFrame.toFS, h]

structure Shape (cfgs : Cfgs) (ns : State) (stk : List SFrame) : Prop where
  mem : ∀ fr ∈ stk, ∃ j : Nat, ns.flows[j]? = some fr.toFS
  others : ∀ (j : Nat) (x : FS), ns.flows[j]? = some x → x.status = .completed ∨ ∃ fr ∈ stk, x = fr.toFS
  nodup : (ns.flows.map (·.uid)).Nodup
  bound : ∀ (j : Nat) (x : FS), ns.flows[j]? = some x → x.uid < ns.ctr
  snodup : (stk.map (·.uid)).Nodup
  known : ∀ fr ∈ stk, size fr.body ≠ 0 ∧ ∃ c, cfgs.find fr.name = some c ∧ c.elems = compile fr.body
  findable : ∀ (j : Nat) (x : FS), ns.flows[j]? = some x → ∃ c, cfgs.find x.flowId = some c

theorem toFS_flowId (fr : SFrame) : fr.toFS.flowId = fr.name := by
  cases h : fr.callee <;> simp [SFrame.toFS, h]

theorem quiet_completed (l : List FS) (x : FS) (h : x.status = .completed) : QuietFS l x := by
  left; rw [h]; decide

theorem quiet_frame_none (l : List FS) (fr : SFrame) (h : fr.callee = none) : QuietFS l fr.toFS := by
  left; simp [SFrame.toFS, h]

theorem quiet_frame_some (l : List FS) (hnd : (l.map (·.uid)).Nodup) (fr : SFrame) (u : Nat) (h : fr.callee = some u)
    (j : Nat) (g : FS) (hj : l[j]? = some g) (hu : g.uid = u) (hc : g.status ≠ .completed) (ha : g.status ≠ .aborted) :
    QuietFS l fr.toFS := by
  right
  refine ⟨u, g, by simp [SFrame.toFS, h], ?_, hc, ha⟩
  have := find_uid hnd hj
  rw [hu] at this
  exact this

theorem chain_callee : ∀ (stk : List SFrame) (c : Option Nat), ChainFrom c stk → ∀ fr ∈ stk,
    fr.callee = c ∨ ∃ fr' ∈ stk, fr.callee = some fr'.uid := by
  intro stk
  induction stk with
  | nil => intro c _ fr h; cases h
  | cons x r ih =>
    intro c hc fr hfr
    rcases List.mem_cons.1 hfr with rfl | hfr
    · exact .inl hc.1
    · rcases ih (some x.uid) hc.2 fr hfr with h | ⟨fr', hf', h⟩
      · exact .inr ⟨x, List.mem_cons_self .., h⟩
      · exact .inr ⟨fr', List.mem_cons_of_mem _ hf', h⟩

/-- settled: the innermost frame is active — the resume pass has nothing to do -/
theorem settled_quiet {cfgs : Cfgs} {ns : State} {stk : List SFrame} (hS : Shape cfgs ns stk) (hc : ChainFrom none stk) :
    ∀ (j : Nat) (x : FS), ns.flows[j]? = some x → QuietFS ns.flows x := by
  intro j x hj
  rcases hS.others j x hj with h | ⟨fr, hfr, rfl⟩
  · exact quiet_completed _ _ h
  · rcases chain_callee stk none hc fr hfr with h | ⟨fr', hf', h⟩
    · exact quiet_frame_none _ _ h
    · obtain ⟨j', hj'⟩ := hS.mem fr' hf'
      exact quiet_frame_some _ hS.nodup fr _ h j' _ hj' (toFS_uid fr') (toFS_live fr').1 (toFS_live fr').2

/-- returning: everything but the top caller is quiet -/
theorem returning_quiet {cfgs : Cfgs} {ns : State} {top : SFrame} {rest : List SFrame} {uX : Nat}
    (hS : Shape cfgs ns (top :: rest)) (hc : ChainFrom (some uX) (top :: rest)) :
    ∀ (j : Nat) (x : FS), ns.flows[j]? = some x → x ≠ top.toFS → QuietFS ns.flows x := by
  intro j x hj hne
  rcases hS.others j x hj with h | ⟨fr, hfr, rfl⟩
  · exact quiet_completed _ _ h
  · rcases List.mem_cons.1 hfr with rfl | hfr
    · exact absurd rfl hne
    · rcases chain_callee rest (some top.uid) hc.2 fr hfr with h | ⟨fr', hf', h⟩
      · obtain ⟨j', hj'⟩ := hS.mem top (List.mem_cons_self ..)
        exact quiet_frame_some _ hS.nodup fr _ h j' _ hj' (toFS_uid top) (toFS_live top).1 (toFS_live top).2
      · obtain ⟨j', hj'⟩ := hS.mem fr' (List.mem_cons_of_mem _ hf')
        exact quiet_frame_some _ hS.nodup fr _ h j' _ hj' (toFS_uid fr') (toFS_live fr').1 (toFS_live fr').2


/-! ### the shape is preserved by resuming the top caller -/

theorem idx_lt {l : List FS} {i : Nat} {x : FS} (h : l[i]? = some x) : i < l.length := by
  rcases Nat.lt_or_ge i l.length with h' | h'
  · exact h'
  · rw [List.getElem?_eq_none h'] at h; cases h

theorem shape_fell {cfgs : Cfgs} {ns : State} {top : SFrame} {rest : List SFrame} (hS : Shape cfgs ns (top :: rest))
    (idx : Nat) (hi : ns.flows[idx]? = some top.toFS) (c u : Ctx) (k : Nat) (hk : ns.ctr ≤ k) (h : Int) :
    Shape cfgs { ns with ctx := c, upd := u, ctr := k,
                         flows := setAt ns.flows idx { uid := top.uid, flowId := top.name, head := h, status := .completed, interruptedBy := none } } rest := by
  have hlt := idx_lt hi
  have hsn := hS.snodup
  simp only [List.map_cons, List.nodup_cons] at hsn
  have hne : ∀ fr ∈ rest, ∀ j : Nat, ns.flows[j]? = some fr.toFS → j ≠ idx := by
    intro fr hfr j hj hji
    subst hji
    rw [hi] at hj
    have : top.toFS.uid = fr.toFS.uid := by rw [Option.some.inj hj]
    rw [toFS_uid, toFS_uid] at this
    exact hsn.1 (List.mem_map.2 ⟨fr, hfr, this.symm⟩)
  refine ⟨?_, ?_, ?_, ?_, hsn.2, fun fr hfr => hS.known fr (List.mem_cons_of_mem _ hfr), ?_⟩
  rotate_right
  · intro j x hj
    simp only [setAt] at hj
    rw [get_set _ _ _ _ hlt] at hj
    by_cases hji : j = idx
    · rw [if_pos hji] at hj
      rw [← Option.some.inj hj]
      obtain ⟨_, c, hc, _⟩ := hS.known top (List.mem_cons_self ..)
      exact ⟨c, hc⟩
    · rw [if_neg hji] at hj
      exact hS.findable j x hj
  · intro fr hfr
    obtain ⟨j, hj⟩ := hS.mem fr (List.mem_cons_of_mem _ hfr)
    refine ⟨j, ?_⟩
    simp only [setAt]
    rw [get_set _ _ _ _ hlt, if_neg (hne fr hfr j hj)]
    exact hj
  · intro j x hj
    simp only [setAt] at hj
    rw [get_set _ _ _ _ hlt] at hj
    by_cases hji : j = idx
    · rw [if_pos hji] at hj
      left
      rw [← Option.some.inj hj]
    · rw [if_neg hji] at hj
      rcases hS.others j x hj with hc | ⟨fr, hfr, rfl⟩
      · exact .inl hc
      · rcases List.mem_cons.1 hfr with rfl | hfr
        · exact absurd (uid_inj hS.nodup hj hi rfl) hji
        · exact .inr ⟨fr, hfr, rfl⟩
  · show ((ns.flows.set idx _).map (·.uid)).Nodup
    rw [map_uid_set _ _ _ _ hi (by rw [toFS_uid])]
    exact hS.nodup
  · intro j x hj
    simp only [setAt] at hj
    rw [get_set _ _ _ _ hlt] at hj
    by_cases hji : j = idx
    · rw [if_pos hji] at hj
      have := hS.bound idx _ hi
      rw [toFS_uid] at this
      rw [← Option.some.inj hj]
      show top.uid < k
      omega
    · rw [if_neg hji] at hj
      have := hS.bound j x hj
      show x.uid < k
      omega

theorem shape_wait {cfgs : Cfgs} {lib : Lib} (hlib : LibOK cfgs lib) {ns : State} {top : SFrame} {rest : List SFrame}
    (hS : Shape cfgs ns (top :: rest)) (idx : Nat) (hi : ns.flows[idx]? = some top.toFS) (c u : Ctx) (nx : Option NextStep) (k : Nat)
    (a : Addr) (callee : Option Nat) (frames : List SFrame) (hk : ns.ctr ≤ k)
    (hfr : ∀ fr ∈ frames, ns.ctr ≤ fr.uid ∧ fr.uid < k ∧ lib.lookup fr.name = some fr.body) (hnd : (frames.map (·.uid)).Nodup) :
    Shape cfgs { ns with ctx := c, upd := u, ctr := k, next := nx,
                         flows := setAt (ns.flows ++ frames.map SFrame.toFS) idx (SFrame.toFS { top with addr := a, callee := callee }) }
      (frames ++ { top with addr := a, callee := callee } :: rest) := by
  have hlt := idx_lt hi
  have hlt' : idx < (ns.flows ++ frames.map SFrame.toFS).length := by simp; omega
  have hi' : (ns.flows ++ frames.map SFrame.toFS)[idx]? = some top.toFS := by
    rw [List.getElem?_append_left hlt]; exact hi
  have hsn := hS.snodup
  simp only [List.map_cons, List.nodup_cons] at hsn
  have hne : ∀ fr ∈ rest, ∀ j : Nat, ns.flows[j]? = some fr.toFS → j ≠ idx := by
    intro fr hfr' j hj hji
    subst hji
    rw [hi] at hj
    have : top.toFS.uid = fr.toFS.uid := by rw [Option.some.inj hj]
    rw [toFS_uid, toFS_uid] at this
    exact hsn.1 (List.mem_map.2 ⟨fr, hfr', this.symm⟩)
  have hstk_lt : ∀ fr ∈ top :: rest, fr.uid < ns.ctr := by
    intro fr hfr'
    obtain ⟨j, hj⟩ := hS.mem fr hfr'
    have := hS.bound j _ hj
    rwa [toFS_uid] at this
  refine ⟨?_, ?_, ?_, ?_, ?_, ?_, ?_⟩
  rotate_right
  · intro j x hj
    simp only [setAt] at hj
    rw [get_set _ _ _ _ hlt'] at hj
    by_cases hji : j = idx
    · rw [if_pos hji] at hj
      rw [← Option.some.inj hj, toFS_flowId]
      obtain ⟨_, c, hc, _⟩ := hS.known top (List.mem_cons_self ..)
      exact ⟨c, hc⟩
    · rw [if_neg hji] at hj
      by_cases hjl : j < ns.flows.length
      · rw [List.getElem?_append_left hjl] at hj
        exact hS.findable j x hj
      · rw [List.getElem?_append_right (by omega)] at hj
        obtain ⟨fr, hfr', rfl⟩ := List.mem_map.1 (List.mem_of_getElem? hj)
        rw [toFS_flowId]
        obtain ⟨_, c, hc, _⟩ := hlib fr.name fr.body (hfr fr hfr').2.2
        exact ⟨c, hc⟩
  · intro fr hfr'
    simp only [setAt]
    rcases List.mem_append.1 hfr' with hf | hf
    · obtain ⟨k', hk'⟩ := List.getElem?_of_mem hf
      refine ⟨ns.flows.length + k', ?_⟩
      rw [get_set _ _ _ _ hlt', if_neg (by omega), List.getElem?_append_right (by omega)]
      simp [hk']
    · rcases List.mem_cons.1 hf with rfl | hf
      · exact ⟨idx, by rw [get_set _ _ _ _ hlt', if_pos rfl]⟩
      · obtain ⟨j, hj⟩ := hS.mem fr (List.mem_cons_of_mem _ hf)
        refine ⟨j, ?_⟩
        rw [get_set _ _ _ _ hlt', if_neg (hne fr hf j hj), List.getElem?_append_left (idx_lt hj)]
        exact hj
  · intro j x hj
    simp only [setAt] at hj
    rw [get_set _ _ _ _ hlt'] at hj
    by_cases hji : j = idx
    · rw [if_pos hji] at hj
      right
      exact ⟨_, List.mem_append_right _ (List.mem_cons_self ..), (Option.some.inj hj).symm⟩
    · rw [if_neg hji] at hj
      by_cases hjl : j < ns.flows.length
      · rw [List.getElem?_append_left hjl] at hj
        rcases hS.others j x hj with hc | ⟨fr, hfr', rfl⟩
        · exact .inl hc
        · rcases List.mem_cons.1 hfr' with rfl | hfr'
          · exact absurd (uid_inj hS.nodup hj hi rfl) hji
          · exact .inr ⟨fr, List.mem_append_right _ (List.mem_cons_of_mem _ hfr'), rfl⟩
      · rw [List.getElem?_append_right (by omega)] at hj
        have hm := List.mem_of_getElem? hj
        obtain ⟨fr, hfr', rfl⟩ := List.mem_map.1 hm
        exact .inr ⟨fr, List.mem_append_left _ hfr', rfl⟩
  · show (((ns.flows ++ frames.map SFrame.toFS).set idx _).map (·.uid)).Nodup
    rw [map_uid_set _ _ _ _ hi' (by rw [toFS_uid, toFS_uid])]
    rw [List.map_append, List.nodup_append]
    refine ⟨hS.nodup, ?_, ?_⟩
    · rw [List.map_map]
      have : ((fun x : FS => x.uid) ∘ SFrame.toFS) = fun fr : SFrame => fr.uid := by funext fr; exact toFS_uid fr
      rw [this]; exact hnd
    · intro x hx y hy hxy
      obtain ⟨g, hg, rfl⟩ := List.mem_map.1 hx
      obtain ⟨j, hj⟩ := List.getElem?_of_mem hg
      have h1 := hS.bound j g hj
      rw [List.map_map] at hy
      obtain ⟨fr, hfr', rfl⟩ := List.mem_map.1 hy
      have h2 := (hfr fr hfr').1
      simp only [Function.comp, toFS_uid] at hxy
      omega
  · intro j x hj
    simp only [setAt] at hj
    rw [get_set _ _ _ _ hlt'] at hj
    show x.uid < k
    by_cases hji : j = idx
    · rw [if_pos hji] at hj
      rw [← Option.some.inj hj, toFS_uid]
      have := hstk_lt top (List.mem_cons_self ..)
      show top.uid < k
      omega
    · rw [if_neg hji] at hj
      by_cases hjl : j < ns.flows.length
      · rw [List.getElem?_append_left hjl] at hj
        have := hS.bound j x hj
        omega
      · rw [List.getElem?_append_right (by omega)] at hj
        obtain ⟨fr, hfr', rfl⟩ := List.mem_map.1 (List.mem_of_getElem? hj)
        rw [toFS_uid]
        exact (hfr fr hfr').2.1
  · rw [List.map_append, List.nodup_append]
    refine ⟨hnd, ?_, ?_⟩
    · simp only [List.map_cons, List.nodup_cons]
      exact hsn
    · intro x hx y hy hxy
      obtain ⟨fr, hfr', rfl⟩ := List.mem_map.1 hx
      have h1 := (hfr fr hfr').1
      simp only [List.map_cons, List.mem_cons] at hy
      rcases hy with rfl | hy
      · have := hstk_lt top (List.mem_cons_self ..)
        have hxy' : fr.uid = top.uid := hxy
        omega
      · obtain ⟨fr2, hfr2, rfl⟩ := List.mem_map.1 hy
        have := hstk_lt fr2 (List.mem_cons_of_mem _ hfr2)
        omega
  · intro fr hfr'
    rcases List.mem_append.1 hfr' with hf | hf
    · exact hlib fr.name fr.body (hfr fr hf).2.2
    · rcases List.mem_cons.1 hf with rfl | hf
      · exact hS.known top (List.mem_cons_self ..)
      · exact hS.known fr (List.mem_cons_of_mem _ hf)


/-! ### the resume fix-point unwinds the stack -/

theorem resume_top (cfgs : Cfgs) (k : Nat) (ns : State) (i : Nat) (fr : SFrame) (u : Nat) (tgt : FS) (ch : Bool)
    (hi : ns.flows[i]? = some fr.toFS) (hc : fr.callee = some u)
    (ht : ns.flows.find? (fun g => g.uid == u) = some tgt) (hcomp : tgt.status = .completed) :
    resumePass true (k + 1) cfgs ns i ch =
      (match slideWithSubflows true SUB_FUEL cfgs ns
          { uid := fr.uid, flowId := fr.name, head := startPos fr.body (some fr.addr), status := .active, interruptedBy := none } with
       | .error e => .error e
       | .ok (ns', fs') =>
         resumePass true k cfgs { ns' with flows := setAt ns'.flows i (if fs'.head < 0 then { fs' with status := .completed } else fs') } (i + 1) true) := by
  have hfs : fr.toFS = { uid := fr.uid, flowId := fr.name, head := ((off fr.body fr.addr : Nat) : Int) + 1, status := .interrupted, interruptedBy := some u } := by
    simp [SFrame.toFS, hc]
  rw [hfs] at hi
  simp only [resumePass, hi, ht, hcomp, startPos]
  simp
  rfl

def resumeFrom (cfgs : Cfgs) (K F : Nat) (ns : State) (i : Nat) (ch : Bool) : Except Err State :=
  match resumePass true F cfgs ns i ch with
  | .error e => .error e
  | .ok (ns', ch') => if ch' then resumeLoop true K cfgs ns' else .ok ns'

theorem resumeLoop_eq (cfgs : Cfgs) (K : Nat) (ns : State) : resumeLoop true (K + 1) cfgs ns = resumeFrom cfgs K 1000 ns 0 false := by
  simp only [resumeLoop, resumeFrom]
  cases resumePass true 1000 cfgs ns 0 false with
  | error e => rfl
  | ok x => obtain ⟨a, b⟩ := x; rfl

def Unwound (cfgs : Cfgs) (next0 : Option NextStep) (res : Except Err State) : OutU → Prop
  | .done st' ctr' stk who => ∃ ns', res = .ok ns' ∧ ns'.ctx = st'.ctx ∧ ns'.upd = st'.upd ∧ ns'.ctr = ctr' ∧ Shape cfgs ns' stk ∧ ChainFrom none stk ∧
      ns'.next = (match who with | some w => nextOf cfgs next0 w | none => next0) ∧ (∀ w, who = some w → InnerOK w stk)
  | .stuck => True

/-- nothing to resume: the fix-point ends (or the model's pass / loop fuel ran out) -/
theorem settle {cfgs : Cfgs} {ns : State} {stk : List SFrame} (hS : Shape cfgs ns stk) (hc : ChainFrom none stk) (K F i : Nat) (ch : Bool) :
    resumeFrom cfgs K F ns i ch = .error .oof ∨ resumeFrom cfgs K F ns i ch = .ok ns := by
  have hq := settled_quiet hS hc
  simp only [resumeFrom]
  rcases resumePass_quiet_all cfgs F ns i ch (fun j fs _ h => hq j fs h) with h | h
  · left; rw [h]
  · rw [h]
    cases ch with
    | false => right; rfl
    | true =>
      simp only [if_true]
      cases K with
      | zero => left; rfl
      | succ K =>
        rw [resumeLoop_eq]
        simp only [resumeFrom]
        rcases resumePass_quiet_all cfgs 1000 ns 0 false (fun j fs _ h => hq j fs h) with h | h
        · left; rw [h]
        · right; rw [h]; rfl

theorem innerOK_extend (w : Nat × String × Step) (frames : List SFrame) (x : SFrame) (rest : List SFrame)
    (h : InnerOK w (frames ++ [x])) : InnerOK w (frames ++ x :: rest) := by
  intro hd hhd
  apply h hd
  cases frames with
  | nil => simpa using hhd
  | cons y r => simpa using hhd

theorem resume_chain (cfgs : Cfgs) (lib : Lib) (hlib : LibOK cfgs lib) (f : Nat) :
    ∀ (stk : List SFrame) (K F : Nat) (ns : State) (i : Nat) (ch : Bool) (uX jx : Nat) (X : FS),
      Shape cfgs ns stk → ChainFrom (some uX) stk → ns.flows[jx]? = some X → X.uid = uX → X.status = .completed →
      (ch = true ∨ ∀ top, stk.head? = some top → ∀ idx : Nat, ns.flows[idx]? = some top.toFS → i ≤ idx) →
      resumeFrom cfgs K F ns i ch = .error .oof ∨
      Unwound cfgs ns.next (resumeFrom cfgs K F ns i ch) (unwindS lib f ⟨ns.ctx, ns.upd⟩ ns.ctr stk) := by
  intro stk
  induction stk with
  | nil =>
    intro K F ns i ch uX jx X hS _ _ _ _ _
    rcases settle hS trivial K F i ch with h | h
    · exact .inl h
    · right
      rw [h]
      exact ⟨ns, rfl, rfl, rfl, rfl, hS, trivial, rfl, by intro w hw; cases hw⟩
  | cons top rest ih =>
    intro K F ns i ch uX jx X hS hc hjx hXu hXc hpos
    obtain ⟨idx, hidx⟩ := hS.mem top (List.mem_cons_self ..)
    have hq := returning_quiet hS hc
    have hqj : ∀ (j : Nat) (x : FS), ns.flows[j]? = some x → j ≠ idx → QuietFS ns.flows x := by
      intro j x hj hne
      apply hq j x hj
      intro hx
      subst hx
      exact hne (uid_inj hS.nodup hj hidx rfl)
    have htgt : ns.flows.find? (fun g => g.uid == uX) = some X := by
      have := find_uid hS.nodup hjx
      rwa [hXu] at this
    obtain ⟨hp, c, hfc, hce⟩ := hS.known top (List.mem_cons_self ..)
    -- case A: the pass is at or before the top caller
    have caseA : ∀ (K F i : Nat) (ch : Bool), i ≤ idx →
        resumeFrom cfgs K F ns i ch = .error .oof ∨
        Unwound cfgs ns.next (resumeFrom cfgs K F ns i ch) (unwindS lib f ⟨ns.ctx, ns.upd⟩ ns.ctr (top :: rest)) := by
      intro K F i ch hle
      have hskip := resumePass_skip cfgs (idx - i) F ns i ch
        (fun j fs h1 h2 h3 => hqj j fs h3 (by omega)) (by have := idx_lt hidx; omega)
      rcases hskip with h | ⟨f', h⟩
      · left; simp only [resumeFrom, h]
      · have hidx' : i + (idx - i) = idx := by omega
        rw [hidx'] at h
        cases f' with
        | zero => left; simp only [resumeFrom, h]; rfl
        | succ f' =>
          rw [resume_top cfgs f' ns idx top uX X ch hidx hc.1 htgt hXc] at h
          have hsim := slideWS_sim cfgs lib hlib f SUB_FUEL ns
            { uid := top.uid, flowId := top.name, head := startPos top.body (some top.addr), status := .active, interruptedBy := none }
            c top.body (some top.addr) hfc hce hp rfl
          rcases hsim with hoof | hag
          · left
            rw [hoof] at h
            simp only [resumeFrom, h]
          · have hok := runS_ok lib f SUB_FUEL top.uid top.name ⟨ns.ctx, ns.upd⟩ ns.ctr top.body (some top.addr)
            simp only [unwindS]
            cases hrun : runS lib f SUB_FUEL top.uid top.name ⟨ns.ctx, ns.upd⟩ ns.ctr top.body (some top.addr) with
            | err => right; trivial
            | oof => right; trivial
            | bad => right; trivial
            | fell st' ctr' =>
              rw [hrun] at hag hok
              obtain ⟨hd, hneg, hres⟩ := hag
              simp only [RunOK] at hok
              rw [hres] at h
              simp only [hneg, if_true] at h
              have hS2 := shape_fell hS idx hidx st'.ctx st'.upd ctr' hok hd
              have hidx2 : (setAt ns.flows idx { uid := top.uid, flowId := top.name, head := hd, status := .completed, interruptedBy := none })[idx]?
                  = some { uid := top.uid, flowId := top.name, head := hd, status := .completed, interruptedBy := none } := by
                simp only [setAt]; rw [get_set _ _ _ _ (idx_lt hidx), if_pos rfl]
              have := ih K f' _ (idx + 1) true top.uid idx _ hS2 hc.2 hidx2 rfl rfl (.inl rfl)
              simp only [] at this
              have hrf : resumeFrom cfgs K F ns i ch = resumeFrom cfgs K f' ({ ns with flows := setAt ns.flows idx { uid := top.uid, flowId := top.name, head := hd, status := .completed, interruptedBy := none }, ctx := st'.ctx, upd := st'.upd, ctr := ctr' }) (idx + 1) true := by
                simp only [resumeFrom, h]
              rw [hrf]
              exact this
            | wait st' ctr' a callee frames who =>
              rw [hrun] at hag hok
              obtain ⟨hres, _, _⟩ := hag
              obtain ⟨hk, hfr, hnd, hch, hcal, hin⟩ := hok
              rw [hres] at h
              have hnn : ¬ (callerFS { uid := top.uid, flowId := top.name, head := startPos top.body (some top.addr), status := .active, interruptedBy := none } top.body a callee).head < 0 := by
                cases callee <;> simp [callerFS] <;> omega
              have hfs : callerFS { uid := top.uid, flowId := top.name, head := startPos top.body (some top.addr), status := .active, interruptedBy := none } top.body a callee
                  = SFrame.toFS { top with addr := a, callee := callee } := by
                cases callee <;> rfl
              have hnn' : ¬ (SFrame.toFS { top with addr := a, callee := callee }).head < 0 := by rw [← hfs]; exact hnn
              simp only [hfs, hnn', if_false] at h
              have hS2 := shape_wait hlib hS idx hidx st'.ctx st'.upd (nextOf cfgs ns.next who) ctr' a callee frames hk hfr hnd
              have hc2 : ChainFrom none (frames ++ { top with addr := a, callee := callee } :: rest) := by
                rw [chain_append]
                exact ⟨hch, hcal, hc.2⟩
              have hrf : resumeFrom cfgs K F ns i ch = resumeFrom cfgs K f' ({ ns with flows := setAt (ns.flows ++ frames.map SFrame.toFS) idx (SFrame.toFS { top with addr := a, callee := callee }), ctx := st'.ctx, upd := st'.upd, next := nextOf cfgs ns.next who, ctr := ctr' }) (idx + 1) true := by
                simp only [resumeFrom, h]
              rw [hrf]
              rcases settle hS2 hc2 K f' (idx + 1) true with hs | hs
              · exact .inl hs
              · right
                rw [hs]
                exact ⟨_, rfl, rfl, rfl, rfl, hS2, hc2, rfl, by intro w hw; cases hw; exact innerOK_extend _ _ _ _ hin⟩
    by_cases hle : i ≤ idx
    · exact caseA K F i ch hle
    · have hch : ch = true := by
        rcases hpos with h | h
        · exact h
        · exact absurd (h top rfl idx hidx) hle
      subst hch
      rcases resumePass_quiet_all cfgs F ns i true (fun j fs h1 h2 => hqj j fs h2 (by omega)) with h | h
      · left; simp only [resumeFrom, h]
      · have hrf : resumeFrom cfgs K F ns i true = resumeLoop true K cfgs ns := by
          simp only [resumeFrom, h, if_true]
        rw [hrf]
        cases K with
        | zero => left; rfl
        | succ K =>
          rw [resumeLoop_eq]
          exact caseA K 1000 0 false (Nat.zero_le _)

end NemoVerif.V1Stack
