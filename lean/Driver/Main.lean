/-
  Line-protocol driver: one JSON object per line in (`{"m": "C04.score", ...}`), one per line out.
  Imports model/driver modules only (never Mathlib) so it links as a `lean_exe`.
-/
import NemoVerif.Drive.Common
import NemoVerif.Drive.C04

open Lean NemoVerif.Drive

def dispatch (m : String) (j : Json) : Except String Json :=
  match m.splitOn "." with
  | ["C04", op] => NemoVerif.Drive.C04.handle op j
  | _ => throw s!"unknown method {m}"

def handleLine (line : String) : String :=
  match Json.parse line with
  | .error e => (errJson s!"parse: {e}").compress
  | .ok j =>
    match j.getObjVal? "m" with
    | .ok (.str m) =>
      match dispatch m j with
      | .ok r => r.compress
      | .error e => (errJson e).compress
    | _ => (errJson "no method").compress

partial def loop (h : IO.FS.Stream) (out : IO.FS.Stream) : IO Unit := do
  let line ← h.getLine
  if line.isEmpty then return ()
  let t := line.trimAscii.toString
  if !t.isEmpty then
    out.putStrLn (handleLine t)
  loop h out

def main : IO Unit := do
  let out ← IO.getStdout
  loop (← IO.getStdin) out
  out.flush
