-- Root of the `NemoVerif` library: models, lemmas, theorems (Generated/* is rewritten by the translator).
import NemoVerif.Py.Val
import NemoVerif.Theorems.C04
import NemoVerif.Drive.C04
import NemoVerif.Models.Dispatch
import NemoVerif.Models.FlowShape
import NemoVerif.Models.Pipeline
import NemoVerif.Lemmas.Pipeline
import NemoVerif.Lemmas.PipelineV2
import NemoVerif.Lemmas.PipelineTie
import NemoVerif.Theorems.C01
import NemoVerif.Drive.C01
import NemoVerif.Drive.C02
import NemoVerif.Drive.C03
import NemoVerif.Theorems.C02
import NemoVerif.Theorems.C03
