-- Root of the `NemoVerif` library: models, lemmas, theorems (Generated/* is rewritten by the translator).
import NemoVerif.Py.Val
