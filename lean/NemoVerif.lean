-- Root of the `NemoVerif` library: models, lemmas, theorems (Generated/* is rewritten by the translator).
import NemoVerif.Py.Val
import NemoVerif.Theorems.C04
import NemoVerif.Drive.C04
import NemoVerif.Theorems.C09
import NemoVerif.Drive.C09
import NemoVerif.Lemmas.CoreVM
import NemoVerif.Drive.CoreVMJson
