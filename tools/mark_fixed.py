#!/usr/bin/env python3
"""tools/mark_fixed.py Cxx <commit> [signature ...]  -> flips open findings of Cxx (all, or the given signatures) to fixed."""
import json, sys, os
here = os.path.dirname(os.path.dirname(os.path.abspath(__file__)))
prop, commit, sigs = sys.argv[1], sys.argv[2], set(sys.argv[3:])
p = os.path.join(here, "known_findings.d", prop + ".json")
k = json.load(open(p))
for e in k:
    if e.get("status") == "open" and (not sigs or e["signature"] in sigs):
        e["status"] = "fixed"
        e["commit"] = commit
        e["line"] = f"fixed: property={prop} {commit} {e.get('what', e['signature'])[:300]}"
json.dump(k, open(p, "w"), indent=1)
print([ (e["signature"], e["status"]) for e in k])
