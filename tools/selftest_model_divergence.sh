#!/bin/bash
# Self-test of the correspondence harness (trusted base, DESIGN §4): plant a known divergence in a scratch COPY of the
# Lean model (list size guard of Match.score: `>` becomes `≥`), build a scratch driver, run the C04 correspondence with
# it and expect the harness to flag the divergence (exit 1, corr_broken / violation). /verif/lean itself is untouched.
set -e
here=$(cd "$(dirname "$0")/.." && pwd)
tmp=$(mktemp -d /var/tmp/selftest.XXXXXX)
trap 'rm -rf $tmp' EXIT
rsync -a --exclude .lake/build/bin $here/lean/ $tmp/lean/
python3 - "$tmp/lean/NemoVerif/Models/Match.lean" <<'PY'
import sys
p = sys.argv[1]; s = open(p).read()
old = "      if rs.length > as.length then .no\n      else match scoreList"
assert s.count(old) == 1
open(p, "w").write(s.replace(old, "      if rs.length ≥ as.length then .no\n      else match scoreList"))
PY
(cd $tmp/lean && lake build driver >/dev/null 2>&1)
set +e
VERIF_DRIVER=$tmp/lean/.lake/build/bin/driver VERIF_EVIDENCE_DIR=$tmp/evidence VERIF_TIMEOUT=900 $here/check C04 --tier quick > $tmp/out.txt 2>&1
rc=$?
set -e
grep -E "^VIOLATION|tier=quick" $tmp/out.txt | cut -c1-200
if [ $rc -eq 1 ] && grep -q "^VIOLATION property=C04" $tmp/out.txt; then echo "selftest OK: planted model divergence was flagged"; exit 0; fi
echo "selftest FAILED: planted divergence not flagged (rc=$rc)"; exit 1
