#!/bin/bash
# tools/intake_seed.sh <worktree> <seed-name>: copy patch/demo/meta from a seeder's worktree, verify the demo both ways, remove the worktree
set -e
wt=$1; name=$2; here=$(cd "$(dirname "$0")/.." && pwd); d=$here/seeded/$name
mkdir -p $d
(cd $wt && git diff -- nemoguardrails > $d/patch.diff && cp seed_demo.py $d/demo.py && cp seed_meta.json $d/meta.json)
echo "== $name: $(wc -l < $d/patch.diff) diff lines"
with=$(cd $wt && PYTHONPATH=$wt timeout 1200 /venv/bin/python seed_demo.py 2>&1 | grep -E "^(PASS|FAIL)" | head -1 | cut -c1-4)
(cd $wt && git apply -R $d/patch.diff)
without=$(cd $wt && PYTHONPATH=$wt timeout 1200 /venv/bin/python seed_demo.py 2>&1 | grep -E "^(PASS|FAIL)" | head -1 | cut -c1-4)
echo "   demo with change: $with ; without: $without"
python3 - "$d/meta.json" "$with" "$without" <<'PY'
import json, sys
p, w, wo = sys.argv[1:4]
m = json.load(open(p)); m["demo_verified_by_maintainer"] = {"with_change": w, "without_change": wo}
json.dump(m, open(p, "w"), indent=1)
PY
git -C /repo worktree remove --force $wt
[ "$with" = "FAIL" ] && [ "$without" = "PASS" ] || { echo "   DEMO DOES NOT SEPARATE"; exit 1; }
