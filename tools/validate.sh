#!/bin/bash
# validate MANIFEST.json and every evidence file against the schemas
cd "$(dirname "$0")/.."
python3-vt - <<'PY'
import json, jsonschema, glob
jsonschema.validate(json.load(open('MANIFEST.json')), json.load(open('/root/.vp/MANIFEST.schema.json')))
s = json.load(open('/root/.vp/EVIDENCE.schema.json'))
for f in sorted(glob.glob('evidence/*.json')):
    jsonschema.validate(json.load(open(f)), s)
print('manifest + evidence valid')
PY
