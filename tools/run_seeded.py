#!/usr/bin/env python3
"""Run the registered quick checks against every seeded change in seeded/<name>/ (patch.diff + meta.json).

For each seed: make a scratch worktree of /repo under /tmp, apply the patch, run `VERIF_REPO=<wt> ./check <prop> --tier quick`
for the seed's property (and optionally all properties), expect exit 1 with a VIOLATION line, remove the worktree.
usage: tools/run_seeded.py [--in-repo] [name ...]     (--in-repo: apply to /repo itself and undo afterwards, as the brief describes)
Writes seeded/RESULTS.md.
"""
import json, os, subprocess, sys, shutil, time

here = os.path.dirname(os.path.dirname(os.path.abspath(__file__)))
args = [a for a in sys.argv[1:] if not a.startswith("--")]
in_repo = "--in-repo" in sys.argv
rows = []
names = args or sorted(d for d in os.listdir(os.path.join(here, "seeded")) if os.path.isdir(os.path.join(here, "seeded", d)))
for name in names:
    d = os.path.join(here, "seeded", name)
    meta = json.load(open(os.path.join(d, "meta.json")))
    prop = meta["property"]
    if meta.get("neutralised_by") and not args:
        print(f"skipping {name}: no longer breaks the property since /repo {meta['neutralised_by']}", flush=True)
        continue
    patch = os.path.join(d, "patch.diff")
    t0 = time.time()
    if in_repo:
        wt = "/repo"
        subprocess.run(["git", "-C", "/repo", "apply", patch], check=True)
    else:
        wt = f"/tmp/seedrun-{name}"
        subprocess.run(["git", "-C", "/repo", "worktree", "remove", "--force", wt], stderr=subprocess.DEVNULL)
        subprocess.run(["git", "-C", "/repo", "worktree", "add", "-q", wt, "HEAD"], check=True)
        subprocess.run(["git", "-C", wt, "apply", patch], check=True)
    try:
        env = dict(os.environ, VERIF_EVIDENCE_DIR="/tmp/seedrun-evidence", VERIF_REPO=wt, VERIF_SEED=os.environ.get("VERIF_SEED", "1"))
        p = subprocess.run(["./check", prop, "--tier", "quick"], cwd=here, env=env, stdout=subprocess.PIPE, stderr=subprocess.STDOUT, text=True)
        vio = [l for l in p.stdout.splitlines() if l.startswith("VIOLATION")]
        detail = ""
        if vio and "replay=" in vio[0]:
            rp = vio[0].split("replay=")[1].split()[0]
            try:
                r = json.load(open(os.path.join(here, rp)))
                detail = (r.get("failure") or "; ".join(r.get("no_longer_checks", [])))[:160]
                shutil.copy(os.path.join(here, rp), os.path.join(d, "detected_replay.json"))
            except Exception:
                pass
        rows.append((name, prop, p.returncode, vio[0] if vio else "(no VIOLATION line)", detail, round(time.time() - t0)))
        print(rows[-1], flush=True)
    finally:
        if in_repo:
            subprocess.run(["git", "-C", "/repo", "checkout", "--", "."], check=True)
        else:
            subprocess.run(["git", "-C", "/repo", "worktree", "remove", "--force", wt])
store_path = os.path.join(here, "seeded", "results.json")
store = json.load(open(store_path)) if os.path.exists(store_path) else {}
head = subprocess.run(["git", "-C", "/repo", "log", "-1", "--format=%h"], stdout=subprocess.PIPE, text=True).stdout.strip()
vhead = subprocess.run(["git", "-C", here, "log", "-1", "--format=%h"], stdout=subprocess.PIPE, text=True).stdout.strip()
for r in rows:
    store[r[0]] = {"property": r[1], "exit": r[2], "verdict": r[3], "reported": r[4], "seconds": r[5], "repo_head": head, "verif_head": vhead}
json.dump(store, open(store_path, "w"), indent=1, sort_keys=True)
with open(os.path.join(here, "seeded", "RESULTS.md"), "w") as f:
    f.write("Seeded changes (independent sub-agents, property text only) run through the registered quick checks (tools/run_seeded.py).\n\n")
    f.write("| seed | property | exit | verdict line | what the check reported | s | /repo | /verif |\n|---|---|---|---|---|---|---|---|\n")
    for name in sorted(store):
        r = store[name]
        f.write("| " + " | ".join(str(x).replace("|", "/") for x in (name, r["property"], r["exit"], r["verdict"], r["reported"], r["seconds"], r["repo_head"], r["verif_head"])) + " |\n")
caught = sum(1 for r in rows if r[2] == 1)
print(f"{caught}/{len(rows)} seeded changes detected")
