#!/bin/bash
# run every registered quick (or $1=thorough) check once, print one line per property
cd "$(dirname "$0")/.."
tier=${1:-quick}
for p in $(python3 -c "import json; print(' '.join(c['property_id'] for c in json.load(open('MANIFEST.json'))['checks']))"); do
  out=$(./check $p --tier $tier 2>&1); rc=$?
  echo "rc=$rc $(echo "$out" | grep -c '^KNOWN-FINDING') known-lines | $(echo "$out" | grep "tier=$tier" | cut -c1-170) $(echo "$out" | grep '^VIOLATION' | head -1)"
done
