#!/usr/bin/env python3
"""Regenerate MANIFEST.json (from tools/manifest_base.json + tools/manifest/Cxx.json fragments + properties.jsonl)
and known_findings.json (concatenation of known_findings.d/*.json).  Run before committing; never at check time."""
import glob, json, os
here = os.path.dirname(os.path.dirname(os.path.abspath(__file__)))
base = json.load(open(os.path.join(here, "tools", "manifest_base.json")))
frags = [json.load(open(p)) for p in sorted(glob.glob(os.path.join(here, "tools", "manifest", "C*.json")))]
props = [json.loads(l)["id"] for l in open(os.path.join(here, "properties.jsonl"))]
claimed = {c["property_id"] for c in frags}
out_checks = []
for c in frags:
    pid = c["property_id"]
    out_checks.append({
        "property_id": pid,
        "quick_cmd": f"./check {pid} --tier quick",
        "thorough_cmd": f"./check {pid} --tier thorough",
        "evidence_file": f"evidence/{pid}.json",
        "replay_cmd_template": f"./check {pid} --replay {{path}}",
        "engine": c.get("engine", "lean-core"),
        "level_claimed": {"category": "proof", "text": c["text"], "design_ref": c.get("design_ref", f"DESIGN.md §7 {pid}")},
        "level_note": c["note"],
        "technique": c.get("technique", "Lean 4 machine-checked proof about an executable model + correspondence check against the implementation"),
    })
na = [{"property_id": p, "reason": base.get("not_applicable", {}).get(p, "check not built yet in this tree (planned: Lean model + theorems + correspondence, DESIGN.md §7); not claimed until its check runs clean")} for p in props if p not in claimed]
engines = base["engines"]
for e in engines:
    e["serves_properties"] = sorted(claimed)
m = {"version": 1, "setup_cmd": "./check --setup", "hooks": base["hooks"], "engines": engines, "checks": out_checks, "notes": base["notes"], "not_applicable": na}
json.dump(m, open(os.path.join(here, "MANIFEST.json"), "w"), indent=1)
kf = []
for p in sorted(glob.glob(os.path.join(here, "known_findings.d", "*.json"))):
    kf.extend(json.load(open(p)))
json.dump(kf, open(os.path.join(here, "known_findings.json"), "w"), indent=1)
print(f"MANIFEST.json: {len(out_checks)} checks, {len(na)} not_applicable; known_findings.json: {len(kf)} entries")
