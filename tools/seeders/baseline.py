#!/venv/bin/python
"""Run /repo's pinned baseline (command from /root/.vp/BASELINE.json) and compare with its stable_pass list.
usage: tools/baseline.py [repo_dir]   -> exit 0 iff every stable_pass test passed."""
import json, os, subprocess, sys, tempfile
import xml.etree.ElementTree as ET

repo = sys.argv[1] if len(sys.argv) > 1 else "/repo"
b = json.load(open("/root/.vp/BASELINE.json"))
out = tempfile.mktemp(suffix=".xml", dir="/var/tmp")
env = dict(os.environ)
env.pop("NEMO_GUARDRAILS_VERIF", None)
cmd = f"cd {repo} && /venv/bin/python -m pytest -ra -q -p no:cacheprovider --timeout=900 --continue-on-collection-errors -n 4 --junitxml={out}"
p = subprocess.run(cmd, shell=True, env=env, stdout=subprocess.PIPE, stderr=subprocess.STDOUT, text=True)
if "unrecognized arguments: -n" in p.stdout or "no such option" in p.stdout:
    cmd = cmd.replace(" -n 4", "")
    p = subprocess.run(cmd, shell=True, env=env, stdout=subprocess.PIPE, stderr=subprocess.STDOUT, text=True)
passed = set()
for tc in ET.parse(out).getroot().iter("testcase"):
    if not any(ch.tag in ("failure", "error", "skipped") for ch in tc):
        passed.add(tc.get("classname") + "::" + tc.get("name"))
os.remove(out)
missing = [t for t in b["stable_pass"] if t not in passed]
print(f"baseline: {len(b['stable_pass']) - len(missing)}/{len(b['stable_pass'])} stable tests pass")
for t in missing[:20]:
    print("  NOT PASSING:", t)
sys.exit(1 if missing else 0)
