#!/usr/bin/env python3
"""mkseeder.py <prop> <letter>: create worktree /tmp/seed-<prop>-<letter>, print the seeder prompt."""
import json, os, subprocess, sys
prop, letter = sys.argv[1], sys.argv[2]
wt = f"/tmp/seed-{prop}-{letter}"
subprocess.run(["git", "-C", "/repo", "worktree", "remove", "--force", wt], stderr=subprocess.DEVNULL)
subprocess.run(["git", "-C", "/repo", "worktree", "add", "-q", wt, "HEAD"], check=True)
p = [json.loads(l) for l in open("/verif/properties.jsonl") if json.loads(l)["id"] == prop][0]
prev = []
for d in sorted(os.listdir("/verif/seeded")):
    if d.startswith(prop + "-"):
        try:
            m = json.load(open(f"/verif/seeded/{d}/meta.json"))
            prev.append("- " + m["summary"][:300].replace("\n", " "))
        except Exception:
            pass
text = f"""You are testing how well a semantic property of the Python project NVIDIA/NeMo-Guardrails is protected against realistic regressions. You have your own scratch git worktree of the repository at `{wt}` (a detached checkout of the current HEAD). Work ONLY inside that directory. Do not read or touch `/verif`, `/work`, or `/repo` (other than through your worktree); do not commit anything; do not remove the worktree.

## The property

**{p['id']} — {p['title']}**

Statement: {p['statement']}

Quantifier: {p['quantifier']['text']} (over: {', '.join(p['quantifier']['over'])})

Why the existing tests cannot settle it: {p['why_tests_cant']}

Anchors in the code: {json.dumps(p['anchors'], indent=1)}

## Your task

Write ONE change to the library source under `{wt}/nemoguardrails/` that **breaks this property** while the code still imports and **every test of the existing suite that passes on the unchanged tree still passes**. The change must look like something a developer could plausibly commit (an optimisation, a refactoring, a "fix", a clean-up with a plausible comment) — not sabotage, no dead giveaways, no test-detection, no environment checks, no randomness added.

It must be a change that needs **something specific to manifest**: a particular interleaving, a fault at a particular point, a multi-step sequence of operations, an unusual (but legal) input, or two cooperating sites that each look fine alone. A change that ordinary use or the first obvious probe would expose at once is NOT wanted. Read the anchored code carefully first and think about which rarely exercised path, history or input combination the property also quantifies over.

Earlier changes already tried for this property (do something DIFFERENT in mechanism and location):
{chr(10).join(prev) if prev else '- (none)'}

## Deliverables (all inside `{wt}`)

1. The change itself, left applied in the worktree (only files under `nemoguardrails/`; `git diff -- nemoguardrails` must show exactly your change; keep it small).
2. `seed_demo.py` (in the worktree root): a self-contained program run as `cd {wt} && PYTHONPATH={wt} /venv/bin/python seed_demo.py` that exercises the public/semi-public API deterministically (no network: use `tests/utils.py`'s `FakeLLM`, `TestChat`, or drive the Colang 2.x state machine directly as the tests under `tests/v2_x` do), checks the property on a concrete scenario, and prints a line starting with `PASS` (exit 0) when the property holds and a line starting with `FAIL` (exit 1) when it is violated. It must print FAIL with your change and PASS without it (verify both: `git stash` / `git stash pop`, or `git diff -- nemoguardrails > /tmp/x.patch; git apply -R /tmp/x.patch; …; git apply /tmp/x.patch`). The demo must judge by the *property* (what a user relies on), not by implementation details your change happens to alter.
3. `seed_meta.json`: {{"property": "{p['id']}", "summary": "<what the change does and why it breaks the property>", "needs": "<exactly what is needed for the violation to manifest, and what is unaffected>", "files": [...], "tests_run": "<the commands you ran and their results>"}}.
4. Run the existing suite with the change: `/work/seedtools/baseline.py {wt}` (uses pytest -n 4, takes a few minutes; it compares with the list of 389 tests known to pass offline and must report 389/389). Many other tests fail offline for network reasons on the unchanged tree as well — only the 389 stable ones count.

Python: `/venv/bin/python` (3.12) has all dependencies; always set `PYTHONPATH={wt}` so that your worktree (not the editable install of /repo) is imported — check with `python -c "import nemoguardrails; print(nemoguardrails.__file__)"`. No network is available. Every shell command prints a harmless conda WARNING line first.

Your final message: the summary, the "needs", the demo's output with and without the change, and the baseline result.
"""
print(text)
