#!/bin/bash
# merge a builder clone: tools/merge_builder.sh C19
set -e
cd "$(dirname "$0")/.."
id=$1
branch=$(git -C /work/$id rev-parse --abbrev-ref HEAD)
git fetch -q /work/$id $branch
git merge --no-commit --no-ff FETCH_HEAD || true
# generated / merged-by-tool files: always ours / regenerated
for f in lean/NemoVerif.lean lean/Driver/Main.lean; do git rm -q --cached $f 2>/dev/null || true; done
git checkout HEAD -- evidence/C04.json 2>/dev/null || true
# evidence of properties this builder does not own: keep ours
for f in $(git diff --name-only --diff-filter=U | grep "^evidence/" | grep -v "evidence/$id.json"); do git checkout HEAD -- $f; done
git checkout FETCH_HEAD -- evidence/$id.json 2>/dev/null || true
git checkout HEAD -- harness/runner.py harness/obligations.py tools/mkmanifest.py tools/run_seeded.py 2>/dev/null || true
python3 tools/mkmanifest.py
git add -A
git status --short | grep -E "^(UU|AA|DU|UD)" && { echo "UNRESOLVED CONFLICTS"; exit 1; }
git commit -q -m "Merge builder $id"
echo merged $id
