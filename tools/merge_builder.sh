#!/bin/bash
# merge a builder clone: tools/merge_builder.sh C19
set -e
cd "$(dirname "$0")/.."
id=$1
if [ -n "$(git status --porcelain)" ]; then echo "working tree not clean: commit first"; exit 1; fi
branch=$(git -C /work/$id rev-parse --abbrev-ref HEAD)
git fetch -q /work/$id $branch
git merge --no-commit --no-ff FETCH_HEAD || echo "(merge reported conflicts; resolving generated files)"
git rev-parse -q --verify MERGE_HEAD >/dev/null || git merge-base --is-ancestor FETCH_HEAD HEAD || { echo "MERGE DID NOT START"; exit 1; }
# generated / merged-by-tool files: always ours / regenerated
for f in lean/NemoVerif.lean lean/Driver/Main.lean; do git rm -q --cached $f 2>/dev/null || true; done
git checkout HEAD -- evidence/C04.json 2>/dev/null || true
# evidence of properties this builder does not own: keep ours
for f in $(git diff --name-only --diff-filter=U | grep "^evidence/" | grep -v "evidence/$id.json"); do git checkout HEAD -- $f; done
git checkout FETCH_HEAD -- evidence/$id.json 2>/dev/null || true
git checkout HEAD -- harness/runner.py harness/obligations.py tools/mkmanifest.py tools/run_seeded.py 2>/dev/null || true
python3 tools/mkmanifest.py
# notes files: keep both sides of a conflict (drop the marker lines); anything else with markers stops the merge
for f in $(git diff --name-only --diff-filter=U | grep "^design_notes/"); do sed -i -E "/^(<<<<<<< |>>>>>>> )/d; s/^=======$//" $f; done
if grep -rlE "^(<<<<<<< |>>>>>>> )" --include=*.py --include=*.lean --include=*.json --include=*.md harness lean/NemoVerif tools known_findings.d design_notes 2>/dev/null | grep -q .; then echo "UNRESOLVED CONFLICT MARKERS"; exit 1; fi
git add -A
git status --short | grep -E "^(UU|AA|DU|UD)" && { echo "UNRESOLVED CONFLICTS"; exit 1; }
git commit -q -m "Merge builder $id"
echo merged $id
