"""Proof obligations of one property: build its theorem module, token grep, axiom audit.

Everything here is re-done on every run, after the translators rewrote Generated/*.lean.
"""
import fcntl
import os
import re
import subprocess
import time

VERIF = os.path.dirname(os.path.dirname(os.path.abspath(__file__)))
LEAN = os.path.join(VERIF, "lean")
ALLOWED_AXIOMS = {"propext", "Classical.choice", "Quot.sound"}
FORBIDDEN = re.compile(r"\bsorry\b|\badmit\b|^\s*axiom\s|\bnative_decide\b|\bbv_decide\b|\bimplemented_by\b|\bunsafe\s|maxHeartbeats\s+0\b", re.M)
DECL = re.compile(r"^\s*(?:@\[[^\]]*\]\s*)*(?:private\s+|protected\s+)?(theorem|lemma)\s+([^\s:({\[]+)", re.M)


class LakeLock:
    """Serialise lake invocations on the shared workspace (checks may run concurrently)."""

    def __enter__(self):
        os.makedirs(os.path.join(LEAN, ".lake"), exist_ok=True)
        self.f = open(os.path.join(LEAN, ".lake", "verif.lock"), "w")
        fcntl.flock(self.f, fcntl.LOCK_EX)
        return self

    def __exit__(self, *a):
        fcntl.flock(self.f, fcntl.LOCK_UN)
        self.f.close()


def run(cmd, timeout=3000, cwd=LEAN):
    p = subprocess.run(cmd, cwd=cwd, stdout=subprocess.PIPE, stderr=subprocess.STDOUT, text=True, timeout=timeout)
    return p.returncode, p.stdout


def strip_comments(src):
    # block comments (nested) then line comments; string literals are left alone (good enough: a
    # forbidden token inside a string literal would be flagged, which errs on the safe side)
    out = []
    i, depth, n = 0, 0, len(src)
    while i < n:
        if src.startswith("/-", i):
            depth += 1
            i += 2
        elif depth and src.startswith("-/", i):
            depth -= 1
            i += 2
        elif depth:
            i += 1
        elif src.startswith("--", i):
            while i < n and src[i] != "\n":
                i += 1
        else:
            out.append(src[i])
            i += 1
    return "".join(out)


def module_path(mod):
    return os.path.join(LEAN, *mod.split(".")) + ".lean"


def closure(mod, seen=None):
    """Modules of this project transitively imported by `mod` (including itself)."""
    seen = seen if seen is not None else []
    if mod in seen:
        return seen
    path = module_path(mod)
    if not os.path.exists(path):
        return seen
    seen.append(mod)
    with open(path, encoding="utf-8") as f:
        for line in f:
            m = re.match(r"\s*import\s+(NemoVerif\.[\w.]+)", line)
            if m:
                closure(m.group(1), seen)
    return seen


def property_theorems(theorem_module):
    """Fully qualified names of the theorems stated in Theorems/Cxx.lean."""
    src = strip_comments(open(module_path(theorem_module), encoding="utf-8").read())
    names = []
    ns = []
    for line in src.splitlines():
        m = re.match(r"\s*namespace\s+(\S+)", line)
        if m:
            ns.append(m.group(1))
            continue
        m = re.match(r"\s*end\s+(\S+)", line)
        if m and ns and ns[-1] == m.group(1):
            ns.pop()
            continue
        m = DECL.match(line)
        if m:
            names.append(".".join(ns + [m.group(2)]))
    return names


def check(theorem_module, extra_targets=("driver",)):
    """Build + audit. Returns dict(ok, obligations, discharged, problems[], axioms{}, theorems[], build_s)."""
    t0 = time.time()
    res = {"ok": True, "problems": [], "axioms": {}, "theorems": [], "obligations": 0, "discharged": 0}
    mods = closure(theorem_module)
    n_decl = 0
    for m in mods:
        src = strip_comments(open(module_path(m), encoding="utf-8").read())
        n_decl += len(DECL.findall(src))
        bad = FORBIDDEN.search(src)
        if bad:
            res["ok"] = False
            res["problems"].append(f"forbidden token {bad.group(0).strip()!r} in {m}")
    res["obligations"] = n_decl
    res["modules"] = mods
    with LakeLock():
        from . import gen_driver

        gen_driver.generate()
        rc, out = run(["lake", "build", theorem_module, *extra_targets])
        if rc != 0:
            res["ok"] = False
            errs = [l for l in out.splitlines() if l.startswith("error:")]
            res["problems"].append("lake build failed: " + (errs[0] if errs else out[-400:]))
            res["build_log_tail"] = out[-3000:]
            res["build_s"] = round(time.time() - t0, 1)
            return res
        thms = property_theorems(theorem_module)
        res["theorems"] = thms
        if not thms:
            res["ok"] = False
            res["problems"].append("no property theorem found in " + theorem_module)
        audit_dir = os.path.join(LEAN, ".lake", "audit")
        os.makedirs(audit_dir, exist_ok=True)
        audit = os.path.join(audit_dir, theorem_module.split(".")[-1] + ".lean")
        with open(audit, "w") as f:
            f.write(f"import {theorem_module}\n" + "".join(f"#print axioms {t}\n" for t in thms))
        rc, out = run(["lake", "env", "lean", audit])
    if rc != 0:
        res["ok"] = False
        res["problems"].append("axiom audit failed: " + out[-400:])
    else:
        for m in re.finditer(r"'([^']+)' (does not depend on any axioms|depends on axioms: \[([^\]]*)\])", out.replace("\n ", " ").replace("\n", " ")):
            axs = [a.strip() for a in (m.group(3) or "").split(",") if a.strip()]
            res["axioms"][m.group(1)] = axs
            extra = [a for a in axs if a not in ALLOWED_AXIOMS]
            if extra:
                res["ok"] = False
                res["problems"].append(f"theorem {m.group(1)} depends on non-standard axioms {extra}")
        missing = [t for t in thms if t not in res["axioms"]]
        if missing:
            res["ok"] = False
            res["problems"].append(f"axiom audit did not report {missing[:3]}")
    res["discharged"] = n_decl if res["ok"] else 0
    res["build_s"] = round(time.time() - t0, 1)
    return res


def leanchecker(mods):
    with LakeLock():
        return run(["lake", "env", "leanchecker", *mods], timeout=3000)
