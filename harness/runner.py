"""Generic decision procedure of every check (DESIGN §3).

    ./check Cxx --tier quick|thorough [--replay file]

A property module `harness/props/Cxx.py` provides:

    PROPERTY, THEOREM_MODULE, TRUSTED_BASE (list[str]), ASSUMPTIONS (list[str]), RULE (str)
    translate()                -> info dict               (may raise TieBroken)      [optional]
    static_tie()               -> list[str] problems                                  [optional]
    gen_cases(rng, tier)       -> list of JSON-able case dicts
    run_impl(case)             -> JSON-able observation of the REAL code (exceptions captured inside)
    model_requests(case, obs)  -> list of driver requests (dicts with "m") or []
    compare(case, obs, mouts)  -> None | str   (model vs implementation)
    oracle(case, obs)          -> None | str   (the property, evaluated on the implementation)
    signature(case, obs, msg)  -> str | None   (structural signature matched against known_findings.json)
    nontrivial(case, obs)      -> bool
    tags(case, obs)            -> list[str]    (distribution counters)
    shrink(case)               -> iterable of smaller cases                            [optional]
    escalate(rng, case, tier)  -> list of cases for the focused search                 [optional]
    worker_init()              -> None                                                 [optional]
"""
import argparse
import collections
import hashlib
import importlib
import json
import multiprocessing
import os
import random
import signal
import subprocess
import sys
import time
import traceback

from . import obligations
from .translate.util import TieBroken

VERIF = os.path.dirname(os.path.dirname(os.path.abspath(__file__)))
DRIVER = os.environ.get("VERIF_DRIVER") or os.path.join(VERIF, "lean", ".lake", "build", "bin", "driver")  # VERIF_DRIVER: self-test only
_MOD = None


def canon(x):
    return json.dumps(x, sort_keys=True, ensure_ascii=False, default=str)


def load_known(prop):
    path = os.path.join(VERIF, "known_findings.json")
    if not os.path.exists(path):
        return []
    return [e for e in json.load(open(path)) if e.get("property") == prop]


# ------------------------------------------------------------------ model driver

def run_driver(requests):
    """Send all requests to the Lean driver (one process, batch), return parsed outputs."""
    if not requests:
        return []
    if os.path.exists(DRIVER):
        cmd = [DRIVER]
    else:  # fallback: interpreter
        cmd = ["lake", "env", "lean", "--run", "Driver/Main.lean"]
    data = "\n".join(json.dumps(r, ensure_ascii=False) for r in requests) + "\n"
    p = subprocess.run(cmd, cwd=os.path.join(VERIF, "lean"), input=data.encode("utf-8"), stdout=subprocess.PIPE, stderr=subprocess.PIPE, timeout=3000)
    lines = [l for l in p.stdout.decode("utf-8").split("\n") if l]  # not splitlines(): U+0085/U+2028 are data
    if len(lines) != len(requests):
        raise RuntimeError(f"driver returned {len(lines)} lines for {len(requests)} requests (rc={p.returncode}): {p.stderr.decode()[-500:]}")
    return [json.loads(l) for l in lines]


# ------------------------------------------------------------------ implementation side

def _worker_init(modname):
    global _MOD
    _MOD = importlib.import_module(modname)
    if hasattr(_MOD, "worker_init"):
        _MOD.worker_init()


_HANGS = 0


class _CaseTimeout(BaseException):
    pass


def _on_case_alarm(signum, frame):
    raise _CaseTimeout()


def _worker_run(case):
    # Opt-in per-case wall-clock watchdog (module attribute CASE_TIMEOUT, seconds): a change to the code under test that
    # makes ONE case spin forever must end as a verdict about that case (with the case as replay), not as a global
    # time-out of the whole check (exit 2). Only armed in pool workers (the main process owns SIGALRM for the run budget);
    # the timer repeats every 5 s in case an adapter swallows the first exception. Modules with their own SIGALRM use
    # (C07, C08, C09) do not opt in.
    global _HANGS
    limit = getattr(_MOD, "CASE_TIMEOUT", None)
    if limit and _HANGS >= 2:  # this worker has already seen two hangs: do not spend the full limit on every further one
        limit = min(limit, 3)
    armed = bool(limit) and multiprocessing.current_process().name != "MainProcess"
    if armed:
        signal.signal(signal.SIGALRM, _on_case_alarm)
        signal.setitimer(signal.ITIMER_REAL, float(limit), 5.0)
    try:
        try:
            return _MOD.run_impl(case)
        finally:
            if armed:
                signal.setitimer(signal.ITIMER_REAL, 0)
    except _CaseTimeout:
        _HANGS += 1
        return {"_hang": f"the implementation did not return within {limit} s of wall-clock time on this case"}
    except TieBroken as e:  # the source no longer has the shape the adapter relies on: a broken tie, not a crash
        return {"_tie_broken": str(e)}
    except BaseException as e:  # adapter bug or an exception class the adapter does not expect
        return {"_adapter_crash": f"{type(e).__name__}: {e}", "_tb": traceback.format_exc()[-1500:]}


def run_impl_all(mod, cases, procs):
    if not cases:
        return []
    serial = getattr(mod, "SERIAL", False)
    watchdog = bool(getattr(mod, "CASE_TIMEOUT", None)) and not serial
    if serial or ((procs <= 1 or len(cases) < 8) and not watchdog):
        _worker_init(mod.__name__)
        return [_worker_run(c) for c in cases]
    procs = max(1, min(procs, len(cases)))  # with a per-case watchdog even a handful of cases (shrinking, replay) runs in workers
    ctx = multiprocessing.get_context("fork")
    with ctx.Pool(procs, initializer=_worker_init, initargs=(mod.__name__,)) as pool:
        return pool.map(_worker_run, cases, chunksize=max(1, min(64, len(cases) // (procs * 4) or 1)))


def evaluate(mod, cases, procs, with_model=True):
    """Run impl (+ model) on cases. Returns list of records {case, obs, oracle, corr}."""
    obs = run_impl_all(mod, cases, procs)
    recs = []
    reqs, spans = [], []
    for c, o in zip(cases, obs):
        rs = []
        if with_model and "_adapter_crash" not in o and "_tie_broken" not in o and "_hang" not in o:
            try:
                rs = mod.model_requests(c, o) or []
            except Exception as e:  # noqa
                rs = []
                o = dict(o, _adapter_crash=f"model_requests: {type(e).__name__}: {e}")
        spans.append((len(reqs), len(rs)))
        reqs.extend(rs)
    mouts = run_driver(reqs) if reqs else []
    for (c, o), (start, n) in zip(zip(cases, obs), spans):
        rec = {"case": c, "obs": o, "oracle": None, "corr": None}
        if "_hang" in o:
            rec["oracle"] = "hang: " + o["_hang"]
        elif "_adapter_crash" in o:
            rec["oracle"] = "implementation raised through the adapter: " + o["_adapter_crash"]
        elif "_tie_broken" in o:
            rec["corr"] = "tie broken in the adapter: " + o["_tie_broken"]
        else:
            rec["oracle"] = mod.oracle(c, o)
            if with_model and n:
                mo = mouts[start:start + n]
                bad = [m for m in mo if isinstance(m, dict) and "bad-op" in m]
                rec["corr"] = ("model driver rejected request: " + str(bad[0])) if bad else mod.compare(c, o, mo)
                rec["mout"] = mo
        recs.append(rec)
    return recs


def shrink(mod, rec, kind, procs, budget=400):
    """Greedy delta-debugging driven by mod.shrink; keeps a case on which `kind` still fails."""
    if not hasattr(mod, "shrink"):
        return rec
    if str(rec.get(kind) or "").startswith("hang:"):  # candidates are evaluated in this process, without the per-case watchdog
        return rec
    best = rec
    tried = 0
    improved = True
    while improved and tried < budget:
        improved = False
        try:
            cands = list(mod.shrink(best["case"]))[:60]
        except Exception:  # noqa - a shrinker that does not know this case kind must not turn a verdict into a machinery error
            cands = []
        if not cands:
            break
        tried += len(cands)
        recs = evaluate(mod, cands, procs, with_model=(kind == "corr"))
        for r in recs:
            if r[kind]:
                if kind == "oracle" and sig_of(mod, r) != sig_of(mod, best):
                    continue
                best = r
                improved = True
                break
    return best


def sig_of(mod, rec):
    try:
        return mod.signature(rec["case"], rec["obs"], rec["oracle"] or rec["corr"] or "")
    except Exception:  # noqa
        return None


# ------------------------------------------------------------------ main

def write_replay(prop, seed, payload):
    os.makedirs(os.path.join(VERIF, "replays"), exist_ok=True)
    path = os.path.join("replays", f"{prop}-{seed}.json")
    with open(os.path.join(VERIF, path), "w") as f:
        json.dump(payload, f, indent=1, ensure_ascii=False, default=str)
    return path


def main(argv=None):
    ap = argparse.ArgumentParser()
    ap.add_argument("prop")
    ap.add_argument("--tier", default=os.environ.get("VERIF_TIER", "quick"), choices=["quick", "thorough"])
    ap.add_argument("--replay")
    ap.add_argument("--procs", type=int, default=int(os.environ.get("VERIF_PROCS", "0")) or min(16, os.cpu_count() or 4))
    args = ap.parse_args(argv)
    prop = args.prop
    seed = int(os.environ.get("VERIF_SEED", "1"))
    t0 = time.time()
    budget = int(os.environ.get("VERIF_TIMEOUT", "1500" if args.tier == "quick" else "7000"))

    def on_alarm(signum, frame):
        print(f"TIMEOUT property={prop} after {budget}s", flush=True)
        os._exit(2)

    signal.signal(signal.SIGALRM, on_alarm)
    signal.alarm(budget)

    os.environ.setdefault("NEMO_GUARDRAILS_VERIF", "1")
    sys.path.insert(0, VERIF)
    mod = importlib.import_module(f"harness.props.{prop}")
    known = load_known(prop)
    open_sigs = {e["signature"]: e for e in known if e.get("status") == "open"}

    if args.replay:
        return replay(mod, args.replay)

    broken = []  # (kind, text)
    tinfo = {}
    # 1. translate / static tie
    if hasattr(mod, "translate"):
        try:
            tinfo = mod.translate() or {}
        except TieBroken as e:
            broken.append(("tie_broken", f"translator: {e}"))
        except Exception as e:  # noqa
            broken.append(("tie_broken", f"translator crashed: {type(e).__name__}: {e}"))
    if hasattr(mod, "static_tie"):
        try:
            for p in mod.static_tie() or []:
                broken.append(("tie_broken", p))
        except Exception as e:  # noqa
            broken.append(("tie_broken", f"static tie crashed: {type(e).__name__}: {e}"))
    # 2. obligations
    ob = obligations.check(mod.THEOREM_MODULE)
    for p in ob["problems"]:
        broken.append(("proof_broken", p))
    lc = None
    if args.tier == "thorough" and ob["ok"] and os.environ.get("VERIF_LEANCHECKER", "1") == "1":
        rc, out = obligations.leanchecker(ob["modules"])
        lc = rc == 0
        if rc != 0:
            broken.append(("proof_broken", "leanchecker: " + out[-300:]))

    # 3. corpus + generated cases
    rng = random.Random(seed)
    corpus = []
    cdir = os.path.join(VERIF, "harness", "corpus", prop)
    if os.path.isdir(cdir):
        for fn in sorted(os.listdir(cdir)):
            if fn.endswith(".json"):
                d = json.load(open(os.path.join(cdir, fn)))
                for c in (d if isinstance(d, list) else [d]):
                    corpus.append(c.get("case", c))
    cases = corpus + list(mod.gen_cases(rng, args.tier))
    model_ok = os.path.exists(DRIVER) or ob["ok"]
    # evaluated in chunks so that multi-million-case tiers do not keep every record in memory:
    # only counters, a few samples and the failing records survive a chunk
    violations, known_hits, corr_diffs = [], collections.OrderedDict(), []
    tags = collections.Counter()
    distinct_nt = set()
    n_recs = n_agreed = 0
    sample_recs = []
    CHUNK = int(os.environ.get("VERIF_CHUNK", "20000"))
    for ci in range(0, len(cases), CHUNK):
        recs = evaluate(mod, cases[ci:ci + CHUNK], args.procs, with_model=model_ok)
        for idx, r in enumerate(recs):
            gi = ci + idx
            n_recs += 1
            if r.get("mout") is not None and not r["corr"]:
                n_agreed += 1
            if gi < 2 or (len(corpus) <= gi < len(corpus) + 3) or (len(sample_recs) < 8 and gi % max(1, len(cases) // 6) == 0):
                sample_recs.append(r)
            o = r["obs"]
            if "_adapter_crash" not in o and "_tie_broken" not in o and "_hang" not in o:
                try:
                    for t in mod.tags(r["case"], o):
                        tags[t] += 1
                    if mod.nontrivial(r["case"], o):
                        distinct_nt.add(hashlib.sha1(canon(r["case"]).encode()).digest()[:10])
                except Exception:  # noqa
                    tags["_tag_error"] += 1
            if r["oracle"]:
                s = sig_of(mod, r)
                if s is not None and s in open_sigs:
                    known_hits.setdefault(s, r)
                    continue
                if len(violations) < 200:
                    violations.append(r)
            elif r["corr"]:
                s = sig_of(mod, r)
                if s is not None and s in open_sigs:
                    continue  # inside the region of an open finding model and code need not agree
                if len(corr_diffs) < 200:
                    corr_diffs.append(r)
        del recs
    if corr_diffs:
        broken.append(("corr_broken", corr_diffs[0]["corr"]))

    # 4. verdict
    exit_code = 0
    lines = []
    for s, r in known_hits.items():
        lines.append(f"KNOWN-FINDING: property={prop} {open_sigs[s].get('what', s)}")
    for s, e in open_sigs.items():
        if s not in known_hits:
            # witness of an open finding is part of the corpus; if it no longer fails that is fine (fixed), say nothing
            pass
    replay_path = None
    searched = 0
    if violations:
        best = shrink(mod, violations[0], "oracle", args.procs)
        replay_path = write_replay(prop, seed, {"property": prop, "kind": "violation", "failure": best["oracle"], "case": best["case"], "obs": best["obs"], "signature": sig_of(mod, best), "others": len(violations) - 1})
        lines.append(f"VIOLATION property={prop} replay={replay_path}")
        exit_code = 1
    elif broken:
        # escalate: search model and implementation for a concrete failing input
        focus = corr_diffs[0]["case"] if corr_diffs else None
        rng2 = random.Random(seed * 7919 + 13)
        if hasattr(mod, "escalate"):
            extra = list(mod.escalate(rng2, focus, args.tier))
        else:
            extra = list(mod.gen_cases(rng2, "thorough"))
        searched = len(extra)
        found = None
        for i in range(0, len(extra), 4000):
            for r in evaluate(mod, extra[i:i + 4000], args.procs, with_model=False):
                if r["oracle"]:
                    s = sig_of(mod, r)
                    if s is not None and s in open_sigs:
                        continue
                    found = r
                    break
            if found or time.time() - t0 > budget * 0.6:
                break
        if found:
            best = shrink(mod, found, "oracle", args.procs)
            replay_path = write_replay(prop, seed, {"property": prop, "kind": "violation", "failure": best["oracle"], "case": best["case"], "obs": best["obs"], "signature": sig_of(mod, best), "after": [b[0] + ": " + b[1] for b in broken]})
            lines.append(f"VIOLATION property={prop} replay={replay_path}")
        else:
            first = shrink(mod, corr_diffs[0], "corr", args.procs) if corr_diffs else None
            replay_path = write_replay(prop, seed, {"property": prop, "kind": "no-failing-input-found", "no_longer_checks": [b[0] + ": " + b[1] for b in broken], "first_differing_case": first and {"case": first["case"], "impl": first["obs"], "model": first.get("mout"), "diff": first["corr"]}, "searched_cases": searched, "build_log_tail": ob.get("build_log_tail")})
            lines.append(f"VIOLATION property={prop} replay={replay_path} no-failing-input-found")
        exit_code = 1

    # 5. evidence
    def _clip(x):
        t = json.dumps(x, ensure_ascii=False, default=str)
        return x if len(t) < 6000 else {"_clipped": t[:6000]}

    samples = [{"case": _clip(r["case"]), "impl": _clip(r["obs"]), "model": _clip(r.get("mout"))} for r in sample_recs]
    cov = {
        "obligations": ob["obligations"],
        "discharged": ob["discharged"],
        "checker_cmd": f"cd lean && lake build {mod.THEOREM_MODULE} && lake env lean .lake/audit/{prop}.lean  # #print axioms of every property theorem" + ("; lake env leanchecker <modules>" if lc is not None else ""),
        "trusted_base": ["Lean 4.33.0 kernel; axioms allowed: propext, Classical.choice, Quot.sound (audited per theorem on every run)"] + list(mod.TRUSTED_BASE),
        "theorems": ob["theorems"],
        "axioms": ob["axioms"],
        "modules": ob.get("modules"),
        "leanchecker_ok": lc,
        "evaluations": n_recs + searched,
        "distinct_nontrivial": len(distinct_nt),
        "rule": mod.RULE,
        "traces_validated_against_impl": n_agreed,
        "corpus_cases": len(corpus),
        "samples": samples[:8],
        "distribution": dict(tags.most_common(400)),  # coverage tags of the newer generators (string forms, event kinds, positions) must stay visible
        "translator": tinfo,
        "broken": [b[0] + ": " + b[1] for b in broken],
        "known_findings_hit": list(known_hits.keys()),
        "exhaustive": bool(getattr(mod, "EXHAUSTIVE", {}).get(args.tier, False)),
    }
    ev = {
        "property_id": prop,
        "tier": args.tier,
        "seed": seed,
        "level": "proof",
        "coverage": cov,
        "assumptions": list(mod.ASSUMPTIONS),
        "wall_s": round(time.time() - t0, 2),
        "violations": 1 if exit_code else 0,
    }
    evdir = os.environ.get("VERIF_EVIDENCE_DIR") or os.path.join(VERIF, "evidence")  # seeded-change runs write elsewhere
    os.makedirs(evdir, exist_ok=True)
    with open(os.path.join(evdir, f"{prop}.json"), "w") as f:
        json.dump(ev, f, indent=1, ensure_ascii=False, default=str)
    for l in lines:
        print(l, flush=True)
    print(f"{prop} tier={args.tier} seed={seed}: obligations {ob['discharged']}/{ob['obligations']}, cases {n_recs} (+{searched} searched), nontrivial {len(distinct_nt)}, model-agreed {cov['traces_validated_against_impl']}, known {len(known_hits)}, {'FAIL' if exit_code else 'ok'} in {ev['wall_s']}s", flush=True)
    return exit_code


def replay(mod, path):
    d = json.load(open(path if os.path.isabs(path) else os.path.join(VERIF, path)))
    if isinstance(d, list):  # a corpus file: list of {"case": .., "note": ..}
        d = d[0] if d else {}
    case = d.get("case") or (d.get("first_differing_case") or {}).get("case")
    if case is None:
        print("replay file names no concrete case:", json.dumps(d.get("no_longer_checks")))
        return 1
    r = evaluate(mod, [case], 1, with_model=os.path.exists(DRIVER))[0]
    print(json.dumps({"case": r["case"], "impl": r["obs"], "model": r.get("mout"), "oracle": r["oracle"], "corr": r["corr"]}, indent=1, ensure_ascii=False, default=str))
    if r["oracle"]:
        print(f"VIOLATION property={mod.PROPERTY} replay={path}")
        return 1
    return 0


if __name__ == "__main__":
    try:
        sys.exit(main())
    except SystemExit:
        raise
    except BaseException:  # internal error of the machinery: never exit 1 (that means violation)
        traceback.print_exc()
        sys.exit(2)
