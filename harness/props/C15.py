"""C15 — conversations served by one LLMRails instance do not influence each other.

Case kinds (all run against the real code in-process):

  keypair  two message lists -> real `get_history_cache_key` (and the key function LLMRails really uses)
           vs the Lean `cacheKeyAsIs` / `cacheKeyLP`; oracle: different histories must not share a key.
  events   real `LLMRails._get_events_for_messages` on a stub `self` with a prepared cache vs `eventsFor`;
           oracle: reference lookup keyed by the genuine message lists.
  serve    real `LLMRails.generate_async` (Colang 1.0) with the runtime replaced by a pure stub turn
           function: several conversations interleaved sequentially on ONE instance vs each replayed
           alone on a fresh instance; model `runT` with the observed turn function as a table.
  e2e      the same with the real runtime, a FakeLLM that answers as a pure function of the prompt and
           deterministic embeddings; replies and recorded prompts must equal the isolated replay.
  params   generated enter/call/exit schedules replayed step by step on the real `LLMParams` with a dummy
           LLM object vs `Params.enter/exit` (and the abstract system `Params.runSched`).
  conc     concurrent `generate_async` tasks on a virtual-time event loop with scripted start delays,
           pre-LLM pauses and LLM latencies; the LLM records its attribute values at call time; the
           section boundaries are recorded through the public `register_param_manager` API.

  ctx      single-turn requests with and without `options` (llm_params / output_vars / log) run as the program of
           ONE asyncio task: awaited directly one after the other and in tasks spawned in between (they copy the
           possibly polluted context); what `generation_options_var` holds at every LLM call is compared with the
           model of generate_async's prologue (`Ctx.runProg prologueSet`), call-time temperature / max_tokens,
           replies and prompts with the isolated replay (fresh instance, fresh task).  `serve` / `e2e` turns may
           carry options too and the shared schedule runs inside one driver task, each request awaited inline or in
           a task spawned from it (`inline` flags).  Static tie: every per-request context variable is set
           unconditionally before the first await of generate_async (AST).

Oracle (written from the property statement, not from the model): replies, prompts / events and call-time
parameters equal the isolated replay; parameters equal the configured ones when idle.
"""
import ast
import asyncio
import collections
import contextlib
import contextvars
import copy
import hashlib
import io
import json
import logging
import os
import types

from ..translate.util import TieBroken, find_def, fingerprint, parse

PROPERTY = "C15"
CASE_TIMEOUT = 300  # s of wall clock per case in pool workers (runner watchdog): a case that spins forever is a verdict, not exit 2
THEOREM_MODULE = "NemoVerif.Theorems.C15"
RULE = ("keypair: a random history and an adversarial variant (adjacent messages merged with ':', a content split at ':', "
        "roles swapped, a message of a non-keyed role inserted) or an independent one; events: random history + cache holding "
        "genuine prefixes and colliding look-alikes; serve/e2e: 2-4 conversations of 1-3 turns (turn-by-turn, or explicit "
        "transcripts that mimic another conversation's replies / contain the separator), random sequential interleaving on one "
        "instance vs isolated replays; params: 1-4 managers over 5 parameter names, schedules sequential / nested / randomly "
        "interleaved; conc: 2-4 concurrent single-turn requests with per-request temperature, start delay, pause and LLM latency "
        "(some LLM calls fail); ctx: 2-5 single-turn requests, some with options, as a random program of one task (sequential awaits and nested spawn groups); "
        "serve/e2e turns carry options with probability 0.15/0.3 and run inline in one driver task / in tasks spawned from it; thorough additionally enumerates every interleaving of 3 managers x (enter, call, exit) (1680) and of "
        "the turns of two conversations for six adversarial conversation shapes. events cases carry an explicit state object with probability 0.25 (the implicit cache must not be consulted); "
        "params managers are parameterless with probability 0.12 and belong to tasks (interleaved: one task each; nested/sequential: one task or one each) - on a tree with the repaired LLMParams "
        "(llm_for_call) every task runs in its own context, an LLM call is an in-flight marker section + llm_for_call + a read deferred past the next steps of other tasks; conc: the provider re-reads the "
        "temperature at the end of the call and the observed label sequence (sections, reads) is replayed on the Lean transition system. non-trivial = at least two conversations/managers/requests and (for serve/e2e) at least one "
        "multi-message request, (keypair) the two histories differ; distinct = distinct case JSON.")
TRUSTED_BASE = [
    "correspondence harness harness/props/C15.py + Lean driver Drive/C15.lean (JSON codecs; the turn function travels as a table observed from the stub runtime)",
    "json.dumps (its result is shipped as the message text), Python dict semantics of the cache (modelled as an association list, newest first)",
    "asyncio modelled as interleaving of atomic sections between await points; the virtual-time loop of the harness (SelectorEventLoop subclass)",
    "fresh uuids / timestamps inside events are ignored when comparing events (type + main payload are compared)",
]
ASSUMPTIONS = [
    "Colang 1.0, state=None (the implicit cache is only used then); user/assistant contents are strings; requests are non-empty",
    "the runtime + LLM is a deterministic function of the events it is handed (FakeLLM = pure function of the prompt, deterministic embeddings)",
    "each concurrent request runs in its own asyncio task (context copy)",
    "modelled by hand: get_history_cache_key, _get_events_for_messages, the cache read/write of generate_async, LLMParams.__enter__/__exit__",
]

CONFIGURED_TEMP = 0.7
CONFIGURED_MAX_TOKENS = 100
PNAMES = ["temperature", "max_tokens", "top_p", "n", "presence_penalty"]

UTILS = "nemoguardrails/rails/llm/utils.py"
RAILS = "nemoguardrails/rails/llm/llmrails.py"
PARAMS = "nemoguardrails/llm/params.py"


# ----------------------------------------------------------------------------- static tie

def translate():
    """No generated Lean data (the model has no tables); fingerprints of the hand-modelled functions."""
    info = {}
    t = parse(UTILS)
    info["fp_get_history_cache_key"] = fingerprint(find_def(t, "get_history_cache_key"))
    r = parse(RAILS)
    info["fp_get_events_for_messages"] = fingerprint(find_def(r, "_get_events_for_messages", "LLMRails"))
    info["fp_generate_async"] = fingerprint(find_def(r, "generate_async", "LLMRails"))
    p = parse(PARAMS)
    info["fp_LLMParams_enter"] = fingerprint(find_def(p, "__enter__", "LLMParams"))
    info["fp_LLMParams_exit"] = fingerprint(find_def(p, "__exit__", "LLMParams"))
    return info


def static_tie():
    """Shape facts the model hard-codes: the separator, the four keyed roles, where the cache is read and written."""
    problems = []
    fn = find_def(parse(UTILS), "get_history_cache_key")
    seps = [n.func.value.value for n in ast.walk(fn) if isinstance(n, ast.Call) and isinstance(n.func, ast.Attribute) and n.func.attr == "join" and isinstance(n.func.value, ast.Constant)]
    if seps != [":"]:
        problems.append(f"get_history_cache_key: separator literals {seps!r}, model has ':'")
    roles = sorted({c.value for n in ast.walk(fn) if isinstance(n, ast.Compare) for c in n.comparators if isinstance(c, ast.Constant) and isinstance(c.value, str)})
    if roles != ["assistant", "context", "event", "user"]:
        problems.append(f"get_history_cache_key: keyed roles {roles}, model has user/assistant/context/event")
    src = ast.unparse(find_def(parse(RAILS), "generate_async", "LLMRails"))
    if "self.events_history_cache[cache_key] = events" not in src or "messages + [new_message]" not in src:
        problems.append("generate_async no longer writes events_history_cache[key(messages + [new_message])] = events")
    problems += prologue_problems(find_def(parse(RAILS), "generate_async", "LLMRails"))
    src = ast.unparse(find_def(parse(RAILS), "_get_events_for_messages", "LLMRails"))
    if "self.events_history_cache[cache_key].copy()" not in src or "messages[0:p]" not in src:
        problems.append("_get_events_for_messages no longer looks up key(messages[0:p]) in events_history_cache")
    return problems


def state_lookup_guarded():
    """Does the Colang 1.0 branch of _get_events_for_messages take `state` into account (no implicit-cache lookup with a state object)?"""
    fn = find_def(parse(RAILS), "_get_events_for_messages", "LLMRails")
    first_if = next((n for n in fn.body if isinstance(n, ast.If)), None)
    if first_if is None:
        return False
    return any(isinstance(n, ast.Name) and n.id == "state" for st in first_if.body for n in ast.walk(st))


PER_REQUEST_VARS = ["generation_options_var", "llm_stats_var", "raw_llm_request"]


def _is_set_of(node, var):
    return (isinstance(node, ast.Expr) and isinstance(node.value, ast.Call) and isinstance(node.value.func, ast.Attribute)
            and node.value.func.attr == "set" and isinstance(node.value.func.value, ast.Name) and node.value.func.value.id == var)


def _definitely_sets(stmts, var):
    """some statement of the block sets `var` on every path: a plain `var.set(..)` or an if/else whose both arms do"""
    for st in stmts:
        if _is_set_of(st, var):
            return True
        if isinstance(st, ast.If) and st.orelse and _definitely_sets(st.body, var) and _definitely_sets(st.orelse, var):
            return True
    return False


def prologue_problems(fn):
    """Model `Ctx.prologueSet` (theorem request_sets_its_own_options): generate_async stores the request's own value in
    each per-request context variable UNCONDITIONALLY, before the first await (the actions that read the variables are
    only reached through awaits) and before any read of the variable inside generate_async itself."""
    problems = []
    prologue = []
    for st in fn.body:
        if any(isinstance(n, ast.Await) for n in ast.walk(st)):
            break
        prologue.append(st)
    for var in PER_REQUEST_VARS:
        if not _definitely_sets(prologue, var):
            problems.append(f"generate_async: `{var}.set(...)` is not executed unconditionally before the first await (a request can inherit the value left by an earlier request of the same asyncio context)")
            continue
        for st in prologue:
            if _definitely_sets([st], var):
                break
            if any(isinstance(n, ast.Attribute) and n.attr == "get" and isinstance(n.value, ast.Name) and n.value.id == var for n in ast.walk(st)):
                problems.append(f"generate_async reads `{var}` before setting it")
                break
    return problems


# ----------------------------------------------------------------------------- shared helpers

def msg_text(msg):
    """The string a key function sees for a message (twin of the proposed key function)."""
    role = msg["role"]
    if role in ("user", "assistant"):
        return msg["content"]
    if role == "event":
        return json.dumps(msg["event"])
    return json.dumps(msg.get("content"))


def pairs(msgs):
    return [[m["role"], msg_text(m)] for m in msgs]


def proposed_key(msgs):
    """fixes/C15-injective-history-key.diff :: get_events_history_cache_key"""
    out = []
    for m in msgs:
        role, text = m["role"], msg_text(m)
        out.append(f"{len(role)}:{role}{len(text)}:{text}")
    return "".join(out)


_ENV = {}


def worker_init():
    import sys

    logging.disable(logging.CRITICAL)
    sys.path.insert(0, os.path.join(os.environ.get("VERIF_REPO", "/repo"), "tests"))
    from langchain_core.language_models.llms import LLM
    from nemoguardrails import LLMRails, RailsConfig
    from nemoguardrails.embeddings.providers import register_embedding_provider
    from nemoguardrails.embeddings.providers.base import EmbeddingModel
    from nemoguardrails import context as context_mod
    from nemoguardrails.llm import params as params_mod
    from nemoguardrails.rails.llm.options import GenerationOptions
    from nemoguardrails.rails.llm import llmrails as rails_mod
    from nemoguardrails.rails.llm import utils as utils_mod

    class FakeEmb(EmbeddingModel):
        engine_name = "fakeemb"

        def __init__(self, embedding_model=None, **kw):
            self.model = embedding_model
            self.embedding_size = 8

        def encode(self, documents):
            return [[b / 255.0 for b in hashlib.md5(d.encode()).digest()[:8]] for d in documents]

        async def encode_async(self, documents):
            return self.encode(documents)

    with contextlib.suppress(Exception):
        register_embedding_provider(FakeEmb, "fakeemb")

    req_var = contextvars.ContextVar("verif_req", default=None)

    class PureLLM(LLM):
        """answers as a pure function of the prompt; records prompt and parameter values at call time"""
        temperature: float = CONFIGURED_TEMP
        max_tokens: int = 100
        calls: list = []
        lat: dict = {}
        fail: dict = {}

        @property
        def _llm_type(self):
            return "verif-pure"

        def _answer(self, prompt):
            return "r" + hashlib.md5(prompt.encode()).hexdigest()[:4]

        def _call(self, prompt, stop=None, run_manager=None, **kw):
            self.calls.append({"req": req_var.get(), "prompt": prompt, "temperature": self.temperature, "max_tokens": self.max_tokens, "opts": canon_options(context_mod.generation_options_var.get())})
            return self._answer(prompt)

        async def _acall(self, prompt, stop=None, run_manager=None, **kw):
            r = req_var.get()
            rec = {"req": r, "prompt": prompt, "temperature": self.temperature, "max_tokens": self.max_tokens, "opts": canon_options(context_mod.generation_options_var.get())}
            self.calls.append(rec)
            ptrace.append(["call", r, {"temperature": self.temperature, "max_tokens": self.max_tokens}])
            d = self.lat.get(r, 0)
            if d:
                await asyncio.sleep(d)
            # a provider may read its attributes at any time while the call is in flight (retries, streaming): read again at the end
            rec["temperature_end"] = self.temperature
            if self.fail.get(r):
                raise RuntimeError("scripted LLM failure")
            return self._answer(prompt)

    sections = []
    ptrace = []  # the observed label sequence of the LLMParams transition system: enter (with altered_params) / call / exit

    class RecordingParams(params_mod.LLMParams):
        def __enter__(self):
            sections.append(("enter", req_var.get()))
            ptrace.append(["enter", req_var.get(), dict(self.altered_params)])
            return super().__enter__()

        def __exit__(self, *a):
            r = super().__exit__(*a)
            sections.append(("exit", req_var.get()))
            ptrace.append(["exit", req_var.get(), None])
            return r

    params_mod.register_param_manager(PureLLM, RecordingParams)

    class VirtualLoop(asyncio.SelectorEventLoop):
        """deterministic virtual time: when nothing is ready the clock jumps to the earliest timer"""

        def __init__(self):
            super().__init__()
            self._vt = 0.0

        def time(self):
            return self._vt

        def _run_once(self):
            if not self._ready and self._scheduled:
                self._vt = max(self._vt, self._scheduled[0]._when)
            super()._run_once()

    # speed: LLMRails.__init__ re-parses llm_flows.co and ~80 library .co files for every instance; memoise the
    # (pure) parser per worker and hand out deep copies (the parsed flows are mutated by __init__)
    real_parse = rails_mod.parse_colang_file
    memo = {}

    def parse_memo(filename, content, *a, **kw):
        k = (filename, content, repr(a), repr(sorted(kw.items())))
        if k not in memo:
            memo[k] = real_parse(filename, content, *a, **kw)
        return copy.deepcopy(memo[k])

    if os.environ.get("VERIF_C15_NO_MEMO") != "1":
        rails_mod.parse_colang_file = parse_memo

    key_used = getattr(rails_mod, "get_events_history_cache_key", None)
    _ENV.update(
        LLMRails=LLMRails, RailsConfig=RailsConfig, PureLLM=PureLLM, req_var=req_var, sections=sections, ptrace=ptrace,
        VirtualLoop=VirtualLoop, GenerationOptions=GenerationOptions, rails_mod=rails_mod, utils_mod=utils_mod, params_mod=params_mod,
        key_asis=utils_mod.get_history_cache_key,
        key_used=key_used or rails_mod.get_history_cache_key,
        which="lp" if key_used is not None else "asis",
        # "repaired" = fixes/C15-llm-params-overlap.diff is in the tree (per-LLM registry of open sections + llm_for_call)
        pmode="repaired" if hasattr(params_mod, "llm_for_call") else "asis",
        # fixes/C15-no-cache-lookup-with-state.diff in the tree: the Colang 1.0 branch of _get_events_for_messages looks at `state`
        statefix=state_lookup_guarded(),
    )


YAML_BASE = """
models:
  - type: main
    engine: openai
    model: gpt-3.5-turbo-instruct
  - type: embeddings
    engine: fakeemb
    model: fake
"""
YAML_PAUSE = YAML_BASE + """
rails:
  input:
    flows:
      - pause rail
"""
CO_PAUSE = """
define flow pause rail
  execute verif_pause
"""
CO_DIALOG = """
define user express greeting
  "hello"
  "hi"

define user ask thing
  "what is a thing"
  "tell me about things"

define bot express greeting
  "Hello there!"

define flow greeting
  user express greeting
  bot express greeting
"""


def new_rails(cfg="general"):
    E = _ENV
    with contextlib.redirect_stdout(io.StringIO()):
        if cfg == "general":
            config = E["RailsConfig"].from_content(colang_content="", yaml_content=YAML_BASE)
        elif cfg == "dialog":
            config = E["RailsConfig"].from_content(colang_content=CO_DIALOG, yaml_content=YAML_BASE)
        else:
            config = E["RailsConfig"].from_content(colang_content=CO_PAUSE, yaml_content=YAML_PAUSE)
        llm = E["PureLLM"]()
        llm.calls, llm.lat, llm.fail = [], {}, {}
        rails = E["LLMRails"](config, llm=llm)
    return rails, llm


def run_coro(coro, virtual=False):
    loop = _ENV["VirtualLoop"]() if virtual else asyncio.new_event_loop()
    try:
        asyncio.set_event_loop(loop)
        return loop.run_until_complete(coro)
    finally:
        with contextlib.suppress(Exception):
            loop.run_until_complete(loop.shutdown_asyncgens())
        loop.close()
        asyncio.set_event_loop(None)


def canon_options(o):
    """What of the generation options a request can observe: llm_params, output_vars, log flags (None = no options)."""
    if o is None:
        return None
    if not isinstance(o, dict):
        o = o.dict()
    return json.dumps({"llm_params": o.get("llm_params") or {}, "output_vars": o.get("output_vars"), "log": o.get("log")}, sort_keys=True)


def own_options(opts):
    return None if not opts else canon_options(_ENV["GenerationOptions"](**opts))


def eff_msgs(msgs, opts):
    """The messages generate_async works with: the options travel as a leading context message."""
    if not opts:
        return msgs
    return [{"role": "context", "content": {"generation_options": _ENV["GenerationOptions"](**opts).dict()}}] + msgs


def expected_params(opts):
    lp = (opts or {}).get("llm_params") or {}
    return {"temperature": lp.get("temperature", CONFIGURED_TEMP), "max_tokens": lp.get("max_tokens", CONFIGURED_MAX_TOKENS)}


OPTIONS = [
    {"llm_params": {"temperature": 0.9}},
    {"llm_params": {"temperature": 0.2}},
    {"llm_params": {"max_tokens": 50}},
    {"llm_params": {"temperature": 0.3, "max_tokens": 60}},
    {"output_vars": True},
    {"log": {"activated_rails": True}},
    {"log": {"llm_calls": True}, "llm_params": {"temperature": 1.0}},
]


def canon_event(ev):
    t = ev.get("type")
    if t == "UtteranceUserActionFinished":
        return ["UF", ev.get("final_transcript")]
    if t == "UserMessage":
        return ["UM", ev.get("text")]
    if t == "StartUtteranceBotAction":
        return ["SB", ev.get("script")]
    if t == "UtteranceBotActionFinished":
        return ["BF", ev.get("final_script")]
    if t == "ContextUpdate":
        return ["CU", json.dumps(ev.get("data"))]
    if t == "Opaque":
        return ["OP", ev.get("n")]
    return ["RAW", json.dumps(ev)]


def canon_events(evs):
    return [canon_event(e) for e in evs]


def conv_tail(tail):
    """Conversion of the messages after the cached prefix to canonical events: harness twin of the Lean model
    `Isolation.convTailC` (new-turn index, loop, deferred new-turn event), on (role, text) pairs. The new turn is the
    last user message that is only followed by messages that are neither user nor assistant messages; its
    UtteranceUserActionFinished comes last and it gets no UserMessage."""
    nt = None
    for i in range(len(tail) - 1, -1, -1):
        if tail[i][0] == "assistant":
            break
        if tail[i][0] == "user":
            nt = i
            break
    out = []
    for i, (role, text) in enumerate(tail):
        if role == "user":
            if i != nt:
                out += [["UF", text], ["UM", text]]
        elif role == "assistant":
            out += [["SB", text], ["BF", text]]
        elif role == "context":
            out.append(["CU", text])
        elif role == "event":
            out.append(["RAW", text])
    if nt is not None:
        out.append(["UF", tail[nt][1]])
    return out


# ----------------------------------------------------------------------------- generators

TEXTS = ["a", "b", "c", "a:b", "b:c", "a:b:c", ":", "", "a:", ":b", "hi", "é:ü", "x y", "r0", '"a"', "{}", '{"k": 1}']
DROPPED_ROLES = ["system", "tool", "exception", "User"]


def g_text(rng):
    return rng.choice(TEXTS)


def g_msg(rng, allow_special=True):
    r = rng.random()
    if r < 0.45 or not allow_special:
        return {"role": "user", "content": g_text(rng)}
    if r < 0.75:
        return {"role": "assistant", "content": g_text(rng)}
    if r < 0.85:
        return {"role": "context", "content": rng.choice([{"k": 1}, {"user_name": "a:b"}, {}, {"k": "a"}])}
    if r < 0.93:
        return {"role": "event", "event": rng.choice([{"type": "UserSilent"}, {"type": "Custom", "v": "a:b"}, {"type": "Custom", "v": 1}])}
    return {"role": rng.choice(DROPPED_ROLES), "content": g_text(rng)}


def g_history(rng, n=None):
    n = n if n is not None else rng.choice([1, 1, 2, 2, 3, 3, 4, 5])
    return [g_msg(rng) for _ in range(n)]


def adversarial_variant(rng, h):
    """A different message list that the lossy key may confuse with h."""
    h = copy.deepcopy(h)
    op = rng.choice(["merge", "split", "role", "insert", "drop", "ctx"])
    idx = [i for i, m in enumerate(h) if m["role"] in ("user", "assistant")]
    if op == "merge" and len(idx) >= 2:
        i = rng.randrange(len(idx) - 1)
        a, b = idx[i], idx[i + 1]
        if b == a + 1:
            h[a] = {"role": h[a]["role"], "content": h[a]["content"] + ":" + h[b]["content"]}
            del h[b]
            return h
    if op == "split":
        cand = [i for i in idx if ":" in h[i]["content"]]
        if cand:
            i = rng.choice(cand)
            left, right = h[i]["content"].split(":", 1)
            h[i:i + 1] = [{"role": h[i]["role"], "content": left}, {"role": rng.choice(["user", "assistant"]), "content": right}]
            return h
    if op == "role" and idx:
        i = rng.choice(idx)
        h[i] = {"role": "assistant" if h[i]["role"] == "user" else "user", "content": h[i]["content"]}
        return h
    if op == "insert":
        h.insert(rng.randrange(len(h) + 1), {"role": rng.choice(DROPPED_ROLES), "content": g_text(rng)})
        return h
    if op == "ctx" and idx:
        i = rng.choice(idx)
        try:
            val = json.loads(h[i]["content"])
            if isinstance(val, (dict, list, str)) and json.dumps(val) == h[i]["content"]:
                h[i] = {"role": "context", "content": val}
                return h
        except Exception:  # noqa
            pass
    if len(h) > 1:
        del h[rng.randrange(len(h))]
        return h
    h.append(g_msg(rng))
    return h


def g_keypair(rng):
    a = g_history(rng)
    r = rng.random()
    if r < 0.6:
        b, how = adversarial_variant(rng, a), "adversarial"
    elif r < 0.7:
        b, how = copy.deepcopy(a), "same"
    else:
        b, how = g_history(rng), "independent"
    return {"kind": "keypair", "a": a, "b": b, "how": how}


def g_events_case(rng):
    msgs = g_history(rng, rng.choice([1, 2, 3, 3, 4, 5]))
    cache = []
    n = 0
    for p in range(1, len(msgs)):
        if rng.random() < 0.4:
            n += 1
            cache.append({"hist": copy.deepcopy(msgs[:p]), "ev": [["OP", n]]})
        if rng.random() < 0.35:
            n += 1
            cache.append({"hist": adversarial_variant(rng, msgs[:p]), "ev": [["OP", n]]})
    if rng.random() < 0.3:
        n += 1
        cache.append({"hist": g_history(rng), "ev": [["OP", n], ["OP", n + 100]]})
    if rng.random() < 0.15:
        n += 1
        cache.append({"hist": copy.deepcopy(msgs), "ev": [["OP", n]]})  # the full request is never looked up
    rng.shuffle(cache)
    case = {"kind": "events", "msgs": msgs, "cache": cache}
    if rng.random() < 0.25:
        case["state"] = True  # the request carries an explicit state object: the implicit cache must not be consulted
    return case


def T(*parts):
    return list(parts)


def g_convs(rng, e2e=False):
    """Conversations: list of turns. A turn is {"new": [msgs]} (previous request + previous reply + new messages) or
    {"full": [msgs]} (explicit transcript). A content may be a template: list of str | {"reply": [conv, turn]} (the reply
    conversation `conv` got at `turn` in ITS isolated replay; only lower-numbered conversations are referenced)."""
    n = rng.choice([2, 2, 3, 3, 4])
    convs = []
    for c in range(n):
        kind = rng.random()
        turns = []
        first = {"role": "user", "content": rng.choice(["a", "b", "a:b", "hi", "hello", "c:", "what is a thing"])}
        if c > 0 and kind < 0.5:
            # mimic an earlier conversation through the lossy key
            o = rng.randrange(c)
            otext = first_user_text(convs[o])
            style = rng.choice(["merged", "roles", "split3", "dropped", "twin-transcript", "twin"])
            ref = {"reply": [o, 0]}
            tail = {"role": "user", "content": rng.choice(["x", "y", "a"])}
            if otext is None:
                style = "twin"
            if style == "merged":
                turns.append({"full": [{"role": "user", "content": T(otext, ":", ref)}, tail]})
            elif style == "roles":
                turns.append({"full": [{"role": "user", "content": otext}, {"role": "user", "content": T(ref)}, tail]})
            elif style == "split3":
                turns.append({"full": [{"role": "assistant", "content": otext}, {"role": "assistant", "content": T(ref)}, tail]})
            elif style == "dropped":
                turns.append({"full": [{"role": "user", "content": otext}, {"role": "system", "content": "zz"}, {"role": "assistant", "content": T(ref)}, tail]})
            elif style == "twin-transcript":
                turns.append({"full": [{"role": "user", "content": otext}, {"role": "assistant", "content": T(ref)}, tail]})
            else:
                turns = copy.deepcopy(convs[o])[: rng.choice([1, 2, 3])]
                if rng.random() < 0.5:
                    turns.append({"new": [{"role": "user", "content": rng.choice(["x", "y"])}]})
                convs.append(turns)
                continue
        else:
            if rng.random() < 0.25:
                turns.append({"full": [first, {"role": "assistant", "content": g_text(rng) or "z"}, {"role": "user", "content": g_text(rng) or "q"}]})
            else:
                turns.append({"new": [first]})
        for _ in range(rng.choice([0, 1, 1, 2])):
            new = [{"role": "user", "content": rng.choice(["x", "y", "a", "b:a", "hello"])}]
            if not e2e and rng.random() < 0.2:
                new.insert(0, g_msg(rng))
            turns.append({"new": new})
        convs.append(turns)
    return convs


def first_user_text(turns):
    t0 = turns[0]
    ms = t0.get("new") or t0.get("full")
    if len(ms) == 1 and ms[0]["role"] == "user" and isinstance(ms[0].get("content"), str) and "new" in t0:
        return ms[0]["content"]
    return None


def add_options(rng, convs, prob):
    """give some turns per-request generation options (llm_params / output_vars / log)"""
    for turns in convs:
        for turn in turns:
            if rng.random() < prob:
                turn["options"] = copy.deepcopy(rng.choice(OPTIONS))
    return convs


def g_inline(rng, order):
    """which requests of the shared schedule are awaited directly in the driver task (1) / in a task spawned from it (0)"""
    mode = rng.random()
    if mode < 0.35:
        return [0] * len(order)
    if mode < 0.65:
        return [1] * len(order)
    return [rng.choice([0, 1]) for _ in order]


def g_prog(rng, ids, depth=0):
    """program of one task over the request ids: awaited requests and spawn groups (recursively)"""
    items = []
    ids = list(ids)
    while ids:
        if depth < 2 and len(ids) >= 2 and rng.random() < 0.35:
            k = rng.randrange(1, min(3, len(ids)) + 1)
            group, ids = ids[:k], ids[k:]
            nchild = rng.choice([1, 2]) if len(group) > 1 else 1
            children = [group[i::nchild] for i in range(nchild)]
            items.append({"spawn": [g_prog(rng, ch, depth + 1) for ch in children if ch]})
        else:
            items.append({"req": ids.pop(0)})
    return items


def g_ctx_case(rng):
    n = rng.choice([2, 3, 3, 4, 5])
    reqs = []
    for i in range(n):
        r = rng.random()
        opts = None if r < 0.45 else copy.deepcopy(rng.choice(OPTIONS))
        reqs.append({"text": rng.choice(["a", "b", "hi", "a:b"]) + str(i), "options": opts})
    if all(r["options"] is None for r in reqs) or all(r["options"] for r in reqs):
        reqs[0]["options"] = copy.deepcopy(rng.choice(OPTIONS[:4]))
        reqs[-1]["options"] = None
    return {"kind": "ctx", "cfg": rng.choice(["general", "general", "dialog"]), "reqs": reqs, "prog": g_prog(rng, range(n))}


def g_order(rng, convs):
    order = [c for c, ts in enumerate(convs) for _ in ts]
    mode = rng.random()
    if mode < 0.6:
        rng.shuffle(order)
    elif mode < 0.8:
        order.sort()
    else:
        order.sort(reverse=True)
    return order


def g_params_case(rng):
    names = list(range(len(PNAMES)))
    attrs = {str(n): rng.choice([None, 0, 1, 7]) for n in names if rng.random() < 0.5}
    kw = None if rng.random() < 0.25 else {str(n): rng.choice([None, 3, 4]) for n in names if str(n) not in attrs and rng.random() < 0.5}
    strict = rng.random() < 0.6  # every altered parameter exists on the object
    nm = rng.choice([1, 2, 2, 3, 3, 4])
    managers = []
    known = [n for n in names if str(n) in attrs or (kw is not None and str(n) in kw)]
    for _ in range(nm):
        pool = known if (strict and known) else names
        ks = rng.sample(pool, rng.randrange(1, min(3, len(pool)) + 1))
        if rng.random() < 0.12:
            ks = []  # a section without parameters (a request without options: `llm_params(llm, **{})`)
        managers.append({str(k): rng.choice([None, 10, 11, 12, 13]) for k in ks})
    mode = rng.choice(["sequential", "nested", "random", "random"])
    sched = []
    if mode == "sequential":
        for m in rng.sample(range(nm), nm):
            sched += [[m, "enter"]] + [[m, "call"]] * rng.choice([1, 1, 2]) + [[m, "exit"]]
    elif mode == "nested":
        def nest(ms):
            if not ms:
                return []
            m, rest = ms[0], ms[1:]
            k = rng.randrange(len(rest) + 1)
            inner, after = rest[:k], rest[k:]
            body = nest(inner)
            pre = [[m, "call"]] if rng.random() < 0.5 else []
            return [[m, "enter"]] + pre + body + [[m, "call"], [m, "exit"]] + nest(after)
        sched = nest(rng.sample(range(nm), nm))
    else:
        progs = {m: [[m, "enter"], [m, "call"], [m, "exit"]] for m in range(nm)}
        while any(progs.values()):
            m = rng.choice([m for m, p in progs.items() if p])
            sched.append(progs[m].pop(0))
    # the task every manager belongs to (only meaningful for the repaired LLMParams, which knows the sections of the
    # current task): interleaved managers are different tasks; nested / sequential ones are one task or different tasks
    if mode == "random" or rng.random() < 0.5:
        owner = list(range(nm))
    else:
        owner = [0] * nm
    return {"kind": "params", "attrs": attrs, "kw": kw, "managers": managers, "sched": sched, "mode": mode, "owner": owner}


def g_conc_case(rng):
    n = rng.choice([2, 2, 3, 3, 4])
    reqs = []
    mode = rng.choice(["overlap", "overlap", "disjoint", "disjoint", "mixed"])
    t = 0
    for i in range(n):
        temp = rng.choice([None, 0.1, 0.2, 0.3, 0.9, 1.0])
        if mode == "disjoint":
            # sections never overlap, but requests do: long pause before the LLM call of the early starters
            lat = rng.choice([1, 2])
            reqs.append({"text": rng.choice(["a", "b", "hi", "a:b"]) + str(i), "temp": temp, "start": i, "pause": (n - i) * 10, "lat": lat, "fail": rng.random() < 0.15})
        else:
            reqs.append({"text": rng.choice(["a", "b", "hi", "a:b"]) + (str(i) if rng.random() < 0.8 else ""), "temp": temp, "start": rng.choice([0, 0, 1, 2, 5]), "pause": rng.choice([0, 0, 1, 3]), "lat": rng.choice([0, 1, 2, 4, 8]), "fail": rng.random() < 0.15})
    return {"kind": "conc", "reqs": reqs, "mode": mode}


def _interleavings(progs):
    """all interleavings of the given sequences (each keeps its own order)"""
    if not any(progs):
        yield []
        return
    for i, pr in enumerate(progs):
        if pr:
            rest = progs[:i] + [pr[1:]] + progs[i + 1:]
            for tail in _interleavings(rest):
                yield [pr[0]] + tail


def exhaustive_params(n):
    """every interleaving of n managers x (enter, call, exit) on one shared attribute and one shared model_kwargs key"""
    out = []
    for sched in _interleavings([[[m, "enter"], [m, "call"], [m, "exit"]] for m in range(n)]):
        out.append({"kind": "params", "attrs": {"0": 7}, "kw": {"1": 3}, "managers": [{"0": 10 + m, "1": 20 + m} for m in range(n)], "sched": sched, "mode": "exhaustive"})
    return out


def exhaustive_serve():
    """six adversarial shapes of a second conversation x every interleaving of the turns of the two conversations"""
    u = lambda t: {"role": "user", "content": t}  # noqa
    ref = {"reply": [0, 0]}
    first = [{"new": [u("a")]}, {"new": [u("x")]}]
    shapes = [
        [{"full": [{"role": "user", "content": ["a", ":", ref]}, u("x")]}],
        [{"full": [u("a"), {"role": "user", "content": [ref]}, u("x")]}],
        [{"full": [u("a"), {"role": "system", "content": "zz"}, {"role": "assistant", "content": [ref]}, u("x")]}],
        [{"full": [u("a"), {"role": "assistant", "content": [ref]}, u("x")]}],
        [{"new": [u("a")]}, {"new": [u("x")]}],
        [{"new": [u("b")]}, {"new": [u("a")]}],
    ]
    out = []
    for sh in shapes:
        for order in _interleavings([[0] * len(first), [1] * len(sh)]):
            out.append({"kind": "serve", "convs": [copy.deepcopy(first), copy.deepcopy(sh)], "order": order, "exh": True})
    return out


EXHAUSTIVE = {"quick": False, "thorough": True}


def gen_cases(rng, tier):
    n_key, n_ev, n_serve, n_e2e, n_par, n_conc = (6000, 3000, 200, 50, 4000, 50) if tier == "quick" else (150000, 60000, 1500, 400, 100000, 400)
    n_ctx = 60 if tier == "quick" else 500
    cases = []
    for _ in range(n_key):
        cases.append(g_keypair(rng))
    for _ in range(n_ev):
        cases.append(g_events_case(rng))
    for _ in range(n_par):
        cases.append(g_params_case(rng))
    for _ in range(n_serve):
        convs = add_options(rng, g_convs(rng), 0.15)
        order = g_order(rng, convs)
        cases.append({"kind": "serve", "convs": convs, "order": order, "inline": g_inline(rng, order)})
    for _ in range(n_e2e):
        convs = add_options(rng, g_convs(rng, e2e=True), 0.3)
        order = g_order(rng, convs)
        cases.append({"kind": "e2e", "cfg": rng.choice(["general", "general", "dialog"]), "convs": convs, "order": order, "inline": g_inline(rng, order)})
    for _ in range(n_ctx):
        cases.append(g_ctx_case(rng))
    for _ in range(n_conc):
        cases.append(g_conc_case(rng))
    cases += exhaustive_params(2)
    if tier == "thorough":
        cases += exhaustive_params(3) + exhaustive_serve()
    rng.shuffle(cases)  # spread the expensive end-to-end cases evenly over the worker chunks
    return cases


# ----------------------------------------------------------------------------- implementation side

def run_impl(case):
    k = case["kind"]
    if k == "keypair":
        return run_keypair(case)
    if k == "events":
        return run_events(case)
    if k in ("serve", "e2e"):
        return run_convs(case)
    if k == "params":
        return run_params(case)
    if k == "conc":
        return run_conc(case)
    if k == "ctx":
        return run_ctx(case)
    raise ValueError(k)


def _key(fn, msgs):
    try:
        return {"key": fn(msgs)}
    except Exception as e:  # noqa
        return {"exc": type(e).__name__}


def run_keypair(case):
    E = _ENV
    obs = {"which": E["which"]}
    for side in ("a", "b"):
        msgs = case[side]
        obs[side] = {"pairs": pairs(msgs), "asis": _key(E["key_asis"], msgs), "used": _key(E["key_used"], msgs), "proposed": proposed_key(msgs)}
    return obs


def run_events(case):
    E = _ENV
    cache = {}
    keys = []
    for ent in case["cache"]:
        kk = E["key_used"](ent["hist"])
        keys.append(kk)
        cache[kk] = [{"type": "Opaque", "n": e[1]} for e in ent["ev"]]
    stub = types.SimpleNamespace(config=types.SimpleNamespace(colang_version="1.0"), events_history_cache=cache)
    obs = {"which": E["which"], "keys": keys, "pairs": pairs(case["msgs"]), "statefix": E["statefix"]}
    obs["pkeys"] = [_key(E["key_used"], case["msgs"][:p]).get("key") for p in range(1, len(case["msgs"]))]
    try:
        evs = E["LLMRails"]._get_events_for_messages(stub, copy.deepcopy(case["msgs"]), {"events": []} if case.get("state") else None)
        obs["events"] = canon_events(evs)
    except Exception as e:  # noqa
        obs["exc"] = type(e).__name__
    obs["cache_after_len"] = len(stub.events_history_cache)
    return obs


def resolve(content, iso):
    if isinstance(content, list):
        out = []
        for p in content:
            if isinstance(p, dict):
                c, t = p["reply"]
                rep = iso[c][t].get("reply") if c < len(iso) and t < len(iso[c]) else None
                out.append(rep["content"] if rep and isinstance(rep.get("content"), str) else "?")
            else:
                out.append(p)
        return "".join(out)
    return content


def resolve_msgs(msgs, iso):
    out = []
    for m in msgs:
        m = dict(m)
        if "content" in m:
            m["content"] = resolve(m["content"], iso)
        out.append(m)
    return out


def stub_turn(log):
    """Pure turn function of the events: reply text and new events derive from a hash of the canonical events."""

    async def generate_events(events, processing_log=None):
        canon = canon_events(events)
        h = hashlib.md5(json.dumps(canon).encode()).hexdigest()
        mode = int(h[5], 16)
        if mode == 0:
            new = [{"type": "StubException", "message": h[:3]}]
        elif mode == 1:
            new = [{"type": "Opaque", "n": int(h[6:8], 16)}]
        else:
            new = [{"type": "StartUtteranceBotAction", "script": "r" + h[:3]}, {"type": "Opaque", "n": int(h[6:8], 16)}]
        log.append({"events": canon, "new": canon_events(new)})
        if processing_log is not None:  # what compute_generation_log needs when options are used
            processing_log.append({"type": "event", "timestamp": 1.0, "data": {"type": "Opaque", "n": 0}})
            processing_log.append({"type": "event", "timestamp": 2.0, "data": {"type": "Opaque", "n": 1}})
        return copy.deepcopy(new)

    return generate_events


async def aserve_on(rails, llm, log, msgs, e2e, opts=None, rid=None):
    """One generate_async call; returns the step observation."""
    if rid is not None:
        _ENV["req_var"].set(rid)
    n0 = len(llm.calls)
    l0 = len(log)
    eff = eff_msgs(msgs, opts)
    try:
        res = await rails.generate_async(messages=copy.deepcopy(msgs), options=copy.deepcopy(opts) if opts else None)
    except Exception as e:  # noqa
        return {"req": msgs, "eff": eff, "opts": opts, "exc": type(e).__name__ + ": " + str(e)[:120]}
    extra = None
    if opts:
        reply = res.response[0] if isinstance(res.response, list) else {"role": "assistant", "content": res.response}
        extra = {"output_keys": sorted(res.output_data) if isinstance(res.output_data, dict) else None,
                 "rails": [r.name for r in res.log.activated_rails] if res.log and res.log.activated_rails else None}
    else:
        reply = res
    st = {"req": msgs, "eff": eff, "opts": opts, "reply": reply, "extra": extra}
    mine = [c for c in llm.calls[n0:] if rid is None or c["req"] == rid]
    if e2e:
        st["prompts"] = [c["prompt"] for c in mine]
        st["temps"] = [c["temperature"] for c in mine]
        st["maxtoks"] = [c["max_tokens"] for c in mine]
        st["opts_seen"] = [c["opts"] for c in mine]
    else:
        if len(log) == l0 + 1:
            st["events"], st["new"] = log[-1]["events"], log[-1]["new"]
        else:
            st["events"], st["new"] = None, None
    return st


def serve_on(rails, llm, log, msgs, e2e, opts=None):
    return run_coro(aserve_on(rails, llm, log, msgs, e2e, opts))


def run_convs(case):
    E = _ENV
    e2e = case["kind"] == "e2e"
    cfg = case.get("cfg", "general")

    def fresh():
        rails, llm = new_rails(cfg)
        log = []
        if not e2e:
            rails.runtime.generate_events = stub_turn(log)
        return rails, llm, log

    convs = case["convs"]
    iso = []
    for c, turns in enumerate(convs):
        rails, llm, log = fresh()
        steps = []
        prev = None
        for t, turn in enumerate(turns):
            if "full" in turn or prev is None:
                msgs = resolve_msgs(turn.get("full") or turn.get("new"), iso + [steps])
            else:
                msgs = prev["req"] + [prev["reply"]] + resolve_msgs(turn["new"], iso + [steps])
            st = serve_on(rails, llm, log, msgs, e2e, turn.get("options"))  # every isolated request in its own fresh task
            steps.append(st)
            if "exc" in st:
                break
            prev = st
        iso.append(steps)
    # shared instance: ONE driver task; a request is awaited directly in it (inline) or in a task spawned from it
    rails, llm, log = fresh()
    inline = case.get("inline") or []

    async def shared_run():
        pos = [0] * len(convs)
        prevs = [None] * len(convs)
        dead = set()
        shared = []
        writers = {}  # ground truth: cache key -> (conversation, history) of the last writer
        for k, c in enumerate(case["order"]):
            if c in dead or pos[c] >= len(convs[c]):
                continue
            turn = convs[c][pos[c]]
            if "full" in turn or prevs[c] is None:
                msgs = resolve_msgs(turn.get("full") or turn.get("new"), iso)
            else:
                msgs = prevs[c]["req"] + [prevs[c]["reply"]] + resolve_msgs(turn["new"], iso)
            opts = turn.get("options")
            eff = eff_msgs(msgs, opts)
            # which entry will the lookup hit? (ground truth kept by the harness, independent of the code under test)
            hit = None
            for p in range(len(eff) - 1, 0, -1):
                kk = E["key_used"](eff[:p])
                if kk in rails.events_history_cache:
                    w = writers.get(kk)
                    hit = {"p": p, "writer": w[0] if w else None, "genuine": bool(w) and pairs(w[1]) == pairs(eff[:p])}
                    break
            if k < len(inline) and inline[k]:
                st = await aserve_on(rails, llm, log, msgs, e2e, opts)
            else:
                st = await asyncio.ensure_future(aserve_on(rails, llm, log, msgs, e2e, opts))
            st["conv"], st["turn"], st["hit"], st["inline"] = c, pos[c], hit, bool(k < len(inline) and inline[k])
            st["pkeys"] = [E["key_used"](eff[:p]) for p in range(1, len(eff))]
            shared.append(st)
            if "exc" in st:
                dead.add(c)
                continue
            st["hkey"] = E["key_used"](eff + [st["reply"]])
            writers[st["hkey"]] = (c, eff + [st["reply"]])
            prevs[c] = st
            pos[c] += 1
        return shared

    shared = run_coro(shared_run())
    return {"which": E["which"], "iso": iso, "shared": shared, "final_temp": llm.temperature, "final_maxtok": llm.max_tokens}


CONC_PARAMS = {"temperature": 0, "max_tokens": 1}


def _pint(name, v):
    return int(round(v * 10)) if name == "temperature" else int(v)


def conc_trace(obs):
    """The label sequence observed on the virtual-time loop (sections opened / closed by the real LLMParams of every request,
    the moments the provider read the parameters) as a schedule of the Lean transition system `ParamsR.runR`: one section id per
    `with llm_params(...)` instance (the sections of a request are sequential code: LIFO per request), owner = the request."""
    alts, owners, trace, stack, calls = [], [], [], collections.defaultdict(list), []
    for act, r, info in obs.get("ptrace") or []:
        if r is None:
            return None
        if act == "enter":
            if any(k not in CONC_PARAMS or v is None for k, v in info.items()):
                return None
            sid = len(alts)
            alts.append([[CONC_PARAMS[k], _pint(k, v)] for k, v in info.items()])
            owners.append(r)
            stack[r].append(sid)
            trace.append([sid, "enter"])
        elif act == "exit":
            if not stack[r]:
                return None
            trace.append([stack[r].pop(), "exit"])
        else:
            if not stack[r]:
                return None
            trace.append([stack[r][-1], "call"])
            calls.append([[0, _pint("temperature", info["temperature"])], [1, _pint("max_tokens", info["max_tokens"])]])
    if any(stack.values()):
        return None
    cfg = [[0, _pint("temperature", CONFIGURED_TEMP)], [1, CONFIGURED_MAX_TOKENS]]
    return {"req": {"cfg": cfg, "alts": alts, "owners": owners, "trace": trace, "universe": [0, 1]}, "calls": calls}


def params_owner(case):
    return case.get("owner") or list(range(len(case["managers"])))


def own_task_ok(case):
    """the sections of ONE task are sequential code: properly nested among themselves, calls made by the innermost one"""
    owner = params_owner(case)
    stk = collections.defaultdict(list)
    for m, act in case["sched"]:
        st = stk[owner[m]]
        if act == "enter":
            st.append(m)
        elif not st or st[-1] != m:
            return False
        elif act == "exit":
            st.pop()
    return True


def run_params(case):
    E = _ENV

    class Dummy:
        pass

    llm = Dummy()
    for n, v in case["attrs"].items():
        setattr(llm, PNAMES[int(n)], v)
    if case["kw"] is not None:
        llm.model_kwargs = {PNAMES[int(n)]: v for n, v in case["kw"].items()}
    mgrs = [E["params_mod"].llm_params(llm, **{PNAMES[int(n)]: v for n, v in m.items()}) for m in case["managers"]]

    def seen(name):
        if hasattr(llm, name):
            return getattr(llm, name)
        if hasattr(llm, "model_kwargs") and name in llm.model_kwargs:
            return llm.model_kwargs[name]
        return None  # the object does not know the parameter: a call runs without it

    calls = []
    obs = {"pmode": E["pmode"]}
    if E["pmode"] == "repaired":
        # every task has its own context (copied from a clean one, as asyncio tasks spawned by a server are); an LLM call
        # is made on the object `llm_for_call` returns in the context of the calling task (what `llm_call` does)
        owner = params_owner(case)
        ctxs = {t: contextvars.copy_context() for t in set(owner)}
        views = []

        def view_of(obj):
            out = []
            for i, name in enumerate(PNAMES):
                if hasattr(obj, name):
                    out.append([i, getattr(obj, name)])
                elif hasattr(obj, "model_kwargs") and name in obj.model_kwargs:
                    out.append([i, obj.model_kwargs[name]])
                else:
                    out.append([i, "absent"])
            return out

        # an LLM call = what `llm_call` does: a section without parameters marks the call as in flight, the call is made
        # on `llm_for_call(llm)`; the provider reads the parameters LATER (langchain awaits callbacks first): when every
        # manager is a task of its own the read is deferred until just before the next step of the same task, so that
        # steps of other tasks fall between the decision and the read (the call is in flight meanwhile)
        pm = E["params_mod"]
        defer = len(set(owner)) == len(owner)
        pending = {}
        # the label sequence really executed, for the model: section ids = managers, then one id per LLM call
        # (the parameterless section that marks it as in flight; its "call" label is the moment the parameters are read)
        trace, mark_owner = [], []
        nm = len(mgrs)

        def begin(m):
            mark = pm.llm_params(llm)
            mark.__enter__()
            cid = nm + len(mark_owner)
            mark_owner.append(owner[m])
            trace.append([cid, "enter"])
            return mark, pm.llm_for_call(llm), cid

        def finish(m):
            mark, obj, cid = pending.pop(m)
            v = view_of(obj)
            trace.append([cid, "call"])
            mark.__exit__(None, None, None)
            trace.append([cid, "exit"])
            views[[i for i, x in enumerate(views) if x[0] == m and x[1] is None][0]][1] = v

        try:
            for m, act in case["sched"]:
                ctx = ctxs[owner[m]]
                if m in pending:
                    ctx.run(finish, m)
                if act == "enter":
                    ctx.run(mgrs[m].__enter__)
                    trace.append([m, "enter"])
                elif act == "exit":
                    ctx.run(mgrs[m].__exit__, None, None, None)
                    trace.append([m, "exit"])
                else:
                    views.append([m, None])
                    pending[m] = ctx.run(begin, m)
                    if not defer:
                        ctx.run(finish, m)
            for m in list(pending):
                ctxs[owner[m]].run(finish, m)
        except Exception as e:  # noqa
            obs["exc"] = type(e).__name__ + ": " + str(e)[:100]
        for m, v in views:
            d = dict((i, x) for i, x in (v or []))
            calls.append([m, [[int(n), None if d.get(int(n), "absent") == "absent" else d[int(n)]] for n in case["managers"][m]]])
        obs["views"] = views
        obs["trace"] = trace
        obs["section_owner"] = list(owner) + mark_owner
        obs["registry_left"] = len(getattr(E["params_mod"], "_open_sections", {}))
        getattr(E["params_mod"], "_open_sections", {}).clear()
    else:
        try:
            for m, act in case["sched"]:
                if act == "enter":
                    mgrs[m].__enter__()
                elif act == "exit":
                    mgrs[m].__exit__(None, None, None)
                else:
                    calls.append([m, [[int(n), seen(PNAMES[int(n)])] for n in case["managers"][m]]])
        except Exception as e:  # noqa
            obs["exc"] = type(e).__name__ + ": " + str(e)[:100]
    obs["calls"] = calls
    obs["attr"] = [[i, getattr(llm, PNAMES[i]) if hasattr(llm, PNAMES[i]) else "absent"] for i in range(len(PNAMES))]
    obs["kw"] = None if not hasattr(llm, "model_kwargs") else [[i, llm.model_kwargs.get(PNAMES[i], "absent")] for i in range(len(PNAMES))]
    return obs


def run_conc(case):
    E = _ENV
    reqs = case["reqs"]

    def options(r):
        return {"llm_params": {"temperature": r["temp"]}} if r["temp"] is not None else None

    async def one(rails, i, r):
        E["req_var"].set(i)
        if r["start"]:
            await asyncio.sleep(r["start"])
        try:
            res = await rails.generate_async(messages=[{"role": "user", "content": r["text"]}], options=options(r))
            if hasattr(res, "response"):
                res = res.response
            return {"reply": res}
        except Exception as e:  # noqa
            return {"exc": type(e).__name__ + ": " + str(e)[:120]}

    def setup(which):
        rails, llm = new_rails("pause")
        pause = {i: reqs[i]["pause"] for i in which}

        async def verif_pause():
            d = pause.get(E["req_var"].get(), 0)
            if d:
                await asyncio.sleep(d)
            return True

        rails.register_action(verif_pause, "verif_pause")
        llm.lat = {i: reqs[i]["lat"] for i in which}
        llm.fail = {i: reqs[i]["fail"] for i in which}
        return rails, llm

    def calls_of(llm, i):
        return [{"prompt": c["prompt"], "temperature": c["temperature"], "temperature_end": c.get("temperature_end", c["temperature"])} for c in llm.calls if c["req"] == i]

    iso = []
    for i, r in enumerate(reqs):
        rails, llm = setup([i])
        del E["sections"][:]

        async def alone():
            return await asyncio.ensure_future(one(rails, i, r))

        out = run_coro(alone(), virtual=True)
        iso.append({"out": out, "calls": calls_of(llm, i), "final_temp": llm.temperature})
    rails, llm = setup(range(len(reqs)))
    del E["sections"][:]
    del E["ptrace"][:]

    async def together():
        tasks = [asyncio.ensure_future(one(rails, i, r)) for i, r in enumerate(reqs)]
        return await asyncio.gather(*tasks)

    outs = run_coro(together(), virtual=True)
    shared = [{"out": outs[i], "calls": calls_of(llm, i)} for i in range(len(reqs))]
    return {"iso": iso, "shared": shared, "final_temp": llm.temperature, "sections": [list(s) for s in E["sections"]], "pmode": E["pmode"], "ptrace": copy.deepcopy(E["ptrace"])}


def prog_ids(prog):
    for it in prog:
        if "spawn" in it:
            for ch in it["spawn"]:
                yield from prog_ids(ch)
        else:
            yield it["req"]


def run_ctx(case):
    """Single-turn requests with and without options, run as the program of ONE task (awaited directly / in spawn groups)."""
    reqs = case["reqs"]
    cfg = case.get("cfg", "general")
    iso = []
    for i, r in enumerate(reqs):
        rails, llm = new_rails(cfg)
        st = run_coro(aserve_on(rails, llm, [], [{"role": "user", "content": r["text"]}], True, r["options"], rid=i), virtual=True)
        st["final"] = [llm.temperature, llm.max_tokens]
        iso.append(st)
    rails, llm = new_rails(cfg)
    del _ENV["sections"][:]
    out = {}

    async def run_items(items, delay=0):
        if delay:
            await asyncio.sleep(delay)
        for it in items:
            if "spawn" in it:
                # children are staggered so that their LLM sections do not overlap (that would be another finding)
                tasks = [asyncio.ensure_future(run_items(ch, 10 * (j + 1))) for j, ch in enumerate(it["spawn"])]
                await asyncio.gather(*tasks)
            else:
                i = it["req"]
                out[i] = await aserve_on(rails, llm, [], [{"role": "user", "content": reqs[i]["text"]}], True, reqs[i]["options"], rid=i)

    run_coro(run_items(case["prog"]), virtual=True)
    return {"iso": iso, "shared": [out.get(i) for i in range(len(reqs))], "final": [llm.temperature, llm.max_tokens],
            "sections": [list(x) for x in _ENV["sections"]], "pmode": _ENV["pmode"], "own": [own_options(r["options"]) for r in reqs]}


# ----------------------------------------------------------------------------- model

def _opt_index(obs, canon):
    """index of an options value among the requests' own values (None = no options; -1 = foreign value)"""
    if canon is None:
        return None
    return obs["own"].index(canon) if canon in obs["own"] else 999


def _prog_json(prog, obs):
    out = []
    for it in prog:
        if "spawn" in it:
            out.append({"spawn": [_prog_json(ch, obs) for ch in it["spawn"]]})
        else:
            i = it["req"]
            st = obs["shared"][i]
            out.append({"req": i, "own": _opt_index(obs, obs["own"][i]), "reads": len(st.get("opts_seen") or []) if st else 0})
    return out


def _sched_pairs(steps):
    return [[st["conv"], pairs(st["eff"])] for st in steps]


def reply_pair(reply):
    return [reply["role"], msg_text(reply)]


def turn_table(obs):
    tbl, seen = [], set()
    for steps in obs["iso"] + [obs["shared"]]:
        for st in steps:
            if "exc" in st or st.get("events") is None:
                continue
            k = json.dumps(st["events"])
            if k in seen:
                continue
            seen.add(k)
            tbl.append([st["events"], reply_pair(st["reply"]), st["new"]])
    return tbl


def model_requests(case, obs):
    k = case["kind"]
    if k == "keypair":
        return [{"m": "C15.key", "msgs": obs["a"]["pairs"]}, {"m": "C15.key", "msgs": obs["b"]["pairs"]}]
    if k == "events":
        if "exc" in obs:
            return []
        # dict semantics: a later entry under the same key replaces the earlier one -> newest first for the model
        cache = [[kk, ent["ev"]] for kk, ent in zip(obs["keys"], case["cache"])][::-1]
        return [{"m": "C15.events", "which": obs["which"], "msgs": obs["pairs"], "cache": cache,
                 "state": bool(case.get("state")), "statefix": bool(obs.get("statefix"))},
                {"m": "C15.convert", "tails": [obs["pairs"][p:] for p in range(len(obs["pairs"]))]}]
    if k == "serve":
        if any("exc" in st for steps in obs["iso"] + [obs["shared"]] for st in steps):
            return []
        tbl = turn_table(obs)
        reqs = [{"m": "C15.serve", "which": obs["which"], "turn": tbl, "sched": _sched_pairs(obs["shared"])}]
        for c, steps in enumerate(obs["iso"]):
            reqs.append({"m": "C15.serve", "which": obs["which"], "turn": tbl, "sched": [[c, pairs(st["eff"])] for st in steps]})
        return reqs
    if k == "ctx":
        if any(st is None for st in obs["shared"]):
            return []
        return [{"m": "C15.ctxprog", "which": "set", "prog": _prog_json(case["prog"], obs)}]
    if k == "conc" and obs.get("pmode") == "repaired":
        tr = conc_trace(obs)
        return [] if tr is None else [dict(tr["req"], m="C15.paramsR")]
    if k == "conc":
        # the code as it is: the observed label sequence through the mirrored __enter__/__exit__ on one shared object
        tr = conc_trace(obs)
        if tr is None:
            return []
        r = tr["req"]
        return [{"m": "C15.params", "attrs": r["cfg"], "kw": None, "managers": r["alts"], "sched": r["trace"], "universe": r["universe"]}]
    if k == "params" and obs.get("pmode") == "repaired":
        # the abstract transition system of the repaired LLMParams (every parameter exists on the object)
        if "exc" in obs or not all_present(case):
            return []
        cfg = [[int(n), v] for n, v in case["attrs"].items()] + [[int(n), v] for n, v in (case["kw"] or {}).items()]
        alts = [[[int(n), v] for n, v in m.items()] for m in case["managers"]] + [[] for _ in obs["section_owner"][len(case["managers"]):]]
        return [{"m": "C15.paramsR", "cfg": cfg, "alts": alts, "owners": obs["section_owner"], "trace": obs["trace"],
                 "universe": sorted(int(n) for n in list(case["attrs"]) + list(case["kw"] or {}))}]
    if k == "params":
        if "exc" in obs:
            return []
        return [{
            "m": "C15.params",
            "attrs": [[int(n), v] for n, v in case["attrs"].items()],
            "kw": None if case["kw"] is None else [[int(n), v] for n, v in case["kw"].items()],
            "managers": [[[int(n), v] for n, v in m.items()] for m in case["managers"]],
            "sched": case["sched"],
            "universe": list(range(len(PNAMES))),
        }]
    return []


def _steps_diff(model_steps, impl_steps, what):
    if len(model_steps) != len(impl_steps):
        return f"{what}: model has {len(model_steps)} steps, implementation {len(impl_steps)}"
    for i, (m, s) in enumerate(zip(model_steps, impl_steps)):
        if m["events"] != s["events"]:
            return f"{what} step {i}: events handed to the runtime differ: model {m['events']} impl {s['events']}"
        if m["reply"] != reply_pair(s["reply"]):
            return f"{what} step {i}: reply differs: model {m['reply']} impl {reply_pair(s['reply'])}"
        if m["new"] != s["new"]:
            return f"{what} step {i}: new events differ"
    return None


def all_present(case):
    for m in case["managers"]:
        for n in m:
            if not (n in case["attrs"] or (case["kw"] is not None and n in case["kw"])):
                return False
    return True


def compare(case, obs, mouts):
    k = case["kind"]
    if k == "keypair":
        for side, m in zip(("a", "b"), mouts):
            o = obs[side]
            if "key" in o["asis"] and m["asis"] != o["asis"]["key"]:
                return f"get_history_cache_key({side}) = {o['asis']['key']!r}, model cacheKeyAsIs = {m['asis']!r}"
            if m["lp"] != o["proposed"]:
                return f"proposed key twin {o['proposed']!r} != model cacheKeyLP {m['lp']!r}"
            if "key" in o["used"] and m[obs["which"]] != o["used"]["key"]:
                return f"key function used by LLMRails gives {o['used']['key']!r}, model ({obs['which']}) {m[obs['which']]!r}"
        return None
    if k == "events":
        m = mouts[0]
        if m["events"] != obs["events"]:
            return f"_get_events_for_messages: impl {obs['events']} model {m['events']}"
        # the conversion the oracle uses is the model's: twin vs `convTailC` on every tail of the request
        for p, mt in enumerate(mouts[1]["tails"]):
            tw = conv_tail(obs["pairs"][p:])
            if mt != tw:
                return f"conversion of {obs['pairs'][p:]}: oracle twin {tw} model convTailC {mt}"
        return None
    if k == "serve":
        d = _steps_diff(mouts[0]["steps"], obs["shared"], "shared run")
        if d:
            return d
        for c, steps in enumerate(obs["iso"]):
            d = _steps_diff(mouts[1 + c]["steps"], steps, f"isolated replay of conversation {c}")
            if d:
                return d
        return None
    if k == "ctx":
        # what every LLM call of a request found in generation_options_var vs the model of the prologue
        exp = collections.defaultdict(list)
        for rid, own, read in mouts[0]["log"]:
            exp[rid].append(read)
        for i, st in enumerate(obs["shared"]):
            got = [_opt_index(obs, c) for c in (st.get("opts_seen") or [])]
            if got != exp.get(i, []):
                return f"request {i}: generation options seen by its LLM calls {got} (index of the owning request), model of the prologue says {exp.get(i, [])}"
        return None
    if k == "conc" and obs.get("pmode") == "repaired":
        if not mouts:
            return None
        tr, m = conc_trace(obs), mouts[0]
        mcalls = [v for _, v in m["calls"]]
        if mcalls != tr["calls"]:
            return f"observed schedule {tr['req']['trace']}: parameters read by the LLM calls {tr['calls']}, transition system {mcalls}"
        if m["open"] or m["store"] != tr["req"]["cfg"]:
            return f"observed schedule: transition system ends with open sections {m['open']} / object {m['store']}"
        return None
    if k == "conc":
        if not mouts:
            return None
        tr, m = conc_trace(obs), mouts[0]
        # every provider read, in order: the values of the parameters the reading section set (what `Params.cstep` logs)
        exp = []
        for (sid, act), vals in zip([x for x in tr["req"]["trace"] if x[1] == "call"], tr["calls"]):
            d = dict((i, v) for i, v in vals)
            exp.append([sid, [[n, d[n]] for n, _ in tr["req"]["alts"][sid]]])
        if m["calls"] != exp:
            return f"observed schedule {tr['req']['trace']}: parameters read by the LLM calls {exp}, model of LLMParams on the same schedule {m['calls']}"
        fin = [[0, _pint("temperature", obs["final_temp"])]]
        if [x for x in m["attr"] if x[0] == 0] != fin:
            return f"observed schedule: temperature left on the object {fin}, model {m['attr']}"
        return None
    if k == "params" and obs.get("pmode") == "repaired":
        if not mouts:
            return None
        m = mouts[0]
        uni = [i for i, _ in m["store"]]
        got_views = [[[i, x] for i, x in v if i in uni] for _, v in obs["views"]]
        mviews = [v for _, v in sorted(m["calls"], key=lambda c: c[0])]  # marker ids are numbered in the order the calls began
        if mviews != got_views:
            return f"parameter values the LLM calls ran with: impl {got_views} model (viewR) {mviews}"
        fin = {i: a for i, a in obs["attr"] if a != "absent"}
        fin.update({i: a for i, a in (obs["kw"] or []) if a != "absent"})
        if [[i, fin.get(i)] for i in uni] != m["store"]:
            return f"object after the schedule: impl {[[i, fin.get(i)] for i in uni]} model {m['store']}"
        if m["open"]:
            return f"model: sections {m['open']} still open"
        return None
    if k == "params":
        m = mouts[0]
        if m["calls"] != obs["calls"]:
            return f"values seen by calls: impl {obs['calls']} model {m['calls']}"
        if m["attr"] != obs["attr"]:
            return f"attributes after the schedule: impl {obs['attr']} model {m['attr']}"
        if m["kw"] != obs["kw"]:
            return f"model_kwargs after the schedule: impl {obs['kw']} model {m['kw']}"
        if all_present(case):
            # bridge: the concrete functions agree with the abstract system the theorems are about
            if m["abs_calls"] != obs["calls"]:
                return f"abstract system calls {m['abs_calls']} != implementation {obs['calls']}"
            fin = {i: (a if a != "absent" else (obs["kw"][i][1] if obs["kw"] else "absent")) for i, a in obs["attr"]}
            for i, v in m["abs_store"]:
                if fin[i] != "absent" and fin[i] != v:
                    return f"abstract store {m['abs_store']} != implementation attr {obs['attr']} kw {obs['kw']}"
        return None
    return None


# ----------------------------------------------------------------------------- oracle

def _nested(sched):
    stk = []
    for m, act in sched:
        if act == "enter":
            if m in stk:
                return False
            stk.append(m)
        elif not stk or stk[-1] != m:
            return False
        elif act == "exit":
            stk.pop()
    return not stk


def _step_view(st, e2e):
    if "exc" in st:
        return {"exc": st["exc"]}
    v = {"reply": st["reply"], "extra": st.get("extra")}
    if e2e:
        v["prompts"] = st["prompts"]
        v["temps"] = st["temps"]
        v["maxtoks"] = st["maxtoks"]
    else:
        v["events"] = st["events"]
    return v


def oracle(case, obs):
    k = case["kind"]
    if k == "keypair":
        a, b = obs["a"], obs["b"]
        if "key" in a["used"] and "key" in b["used"] and a["pairs"] != b["pairs"] and a["used"]["key"] == b["used"]["key"]:
            return f"two different message histories share the history-cache key {a['used']['key']!r}: {a['pairs']} vs {b['pairs']}"
        return None
    if k == "events":
        if "exc" in obs:
            return f"_get_events_for_messages raised {obs['exc']}"
        # reference: the longest proper prefix for which events were stored for exactly that history (last writer wins)
        msgs = obs["pairs"]
        exp_ev, p0 = [], 0
        if case.get("state"):
            # an explicit state object carries the events of its own conversation: nothing stored for ANY history is used
            exp = conv_tail(msgs)
            if obs["events"] != exp:
                return f"request with a state object: events should be the conversion of its messages {exp}, got {obs['events']} (events stored in the implicit cache were used)"
            return None
        for p in range(len(msgs) - 1, 0, -1):
            ent = [e for e in case["cache"] if pairs(e["hist"]) == msgs[:p]]
            if ent:
                exp_ev, p0 = list(ent[-1]["ev"]), p
                break
        # ... followed by the conversion of the remaining messages (conv_tail = twin of the Lean model `convTailC`
        # of the current source; compare() checks the twin against the model on every case)
        exp_ev += conv_tail(msgs[p0:])
        if obs["events"] != exp_ev:
            return f"events for the request should continue from its own longest stored prefix: expected {exp_ev}, got {obs['events']}"
        return None
    if k in ("serve", "e2e"):
        e2e = k == "e2e"
        for st in obs["shared"]:
            c, t = st["conv"], st["turn"]
            ref = obs["iso"][c][t] if t < len(obs["iso"][c]) else None
            if ref is None:
                return f"conversation {c} turn {t}: no isolated counterpart"
            if st["req"] != ref["req"]:
                return f"conversation {c} turn {t}: the request differs from the isolated replay because an earlier reply differed"
            a, b = _step_view(st, e2e), _step_view(ref, e2e)
            if a != b:
                what = [f for f in a if a.get(f) != b.get(f)] + [f for f in b if f not in a]
                return f"conversation {c} turn {t} on the shared instance differs from its isolated replay in {sorted(set(what))}: shared {json.dumps(a)[:400]} isolated {json.dumps(b)[:400]}"
        if e2e and case.get("cfg", "general") == "general":  # (the dialog tasks run at their own configured lowest_temperature)
            for st in obs["shared"]:
                if "exc" in st:
                    continue
                exp = expected_params(st.get("opts"))
                for t, m in zip(st["temps"], st["maxtoks"]):
                    if t != exp["temperature"] or m != exp["max_tokens"]:
                        return f"conversation {st['conv']} turn {st['turn']}: LLM call ran with temperature={t}, max_tokens={m} instead of its own {exp}"
        if obs["final_temp"] != CONFIGURED_TEMP or obs.get("final_maxtok", CONFIGURED_MAX_TOKENS) != CONFIGURED_MAX_TOKENS:
            return f"idle LLM temperature {obs['final_temp']} / max_tokens {obs.get('final_maxtok')} != configured {CONFIGURED_TEMP} / {CONFIGURED_MAX_TOKENS}"
        return None
    if k == "params":
        if "exc" in obs:
            return f"LLMParams raised {obs['exc']}"
        for m, seen in obs["calls"]:
            alt = case["managers"][m]
            for n, v in seen:
                known = str(n) in case["attrs"] or case["kw"] is not None
                if known and v != alt[str(n)]:
                    return f"call of manager {m} runs with {PNAMES[n]}={v!r} instead of its own {alt[str(n)]!r}"
        if obs.get("pmode") == "repaired":
            # every call runs with the configured values overridden by the open sections of its OWN task only
            # (all parameters, not only the ones the task sets), whatever the sections of other tasks do
            owner = params_owner(case)
            cfg = {}
            for i in range(len(PNAMES)):
                cfg[i] = case["attrs"][str(i)] if str(i) in case["attrs"] else ((case["kw"] or {}).get(str(i), "absent"))
            open_, vi = [], 0
            for m, act in case["sched"]:
                if act == "enter":
                    open_.append(m)
                elif act == "exit":
                    open_.remove(m)
                else:
                    exp = dict(cfg)
                    for o in open_:
                        if owner[o] == owner[m]:
                            for n, v in case["managers"][o].items():
                                if str(n) in case["attrs"] or case["kw"] is not None:
                                    exp[int(n)] = v
                    got = dict((i, x) for i, x in obs["views"][vi][1])
                    vi += 1
                    if got != exp:
                        bad = sorted(i for i in exp if got.get(i) != exp[i])
                        return (f"call of manager {m} (task {owner[m]}) runs with " + ", ".join(f"{PNAMES[i]}={got.get(i)!r}" for i in bad)
                                + " instead of " + ", ".join(f"{PNAMES[i]}={exp[i]!r}" for i in bad) + " (configured values + the sections of its own task)")
            if obs.get("registry_left"):
                return f"no section open, but the registry of open sections still has {obs['registry_left']} entries"
        for i, v in obs["attr"]:
            exp = case["attrs"].get(str(i), "absent")
            if v != exp:
                return f"idle: attribute {PNAMES[i]}={v!r}, configured {exp!r}"
        if obs["kw"] is not None:
            for i, v in obs["kw"]:
                exp = (case["kw"] or {}).get(str(i), "absent")
                if v != exp:
                    return f"idle: model_kwargs[{PNAMES[i]}]={v!r}, configured {exp!r}"
        return None
    if k == "ctx":
        for i, (st, ref, r) in enumerate(zip(obs["shared"], obs["iso"], case["reqs"])):
            if st is None:
                return f"request {i} was not served"
            exp = expected_params(r["options"])
            if "exc" not in st and case.get("cfg", "general") == "general":
                for t, m in zip(st["temps"], st["maxtoks"]):
                    if t != exp["temperature"] or m != exp["max_tokens"]:
                        return f"request {i} (options {r['options']}): LLM call ran with temperature={t}, max_tokens={m} instead of its own {exp}"
            a, b = _step_view(st, True), _step_view(ref, True)
            if a != b:
                what = sorted({f for f in set(a) | set(b) if a.get(f) != b.get(f)})
                return f"request {i} served in the shared task differs from its isolated replay in {what}: {json.dumps(a)[:300]} vs {json.dumps(b)[:300]}"
        if obs["final"] != [CONFIGURED_TEMP, CONFIGURED_MAX_TOKENS]:
            return f"no request in flight, LLM (temperature, max_tokens) = {obs['final']} instead of the configured ones"
        return None
    if k == "conc":
        for i, (s, ref, r) in enumerate(zip(obs["shared"], obs["iso"], case["reqs"])):
            exp_t = r["temp"] if r["temp"] is not None else CONFIGURED_TEMP
            for c in s["calls"]:
                if c["temperature"] != exp_t:
                    return f"request {i}: LLM call ran with temperature {c['temperature']} instead of {exp_t}"
                if c.get("temperature_end", exp_t) != exp_t:
                    return f"request {i}: while its LLM call was in flight the temperature on the object it was made on became {c['temperature_end']} instead of {exp_t}"
            if s["out"] != ref["out"]:
                return f"request {i}: result differs from the isolated replay: {json.dumps(s['out'])[:200]} vs {json.dumps(ref['out'])[:200]}"
            if [c["prompt"] for c in s["calls"]] != [c["prompt"] for c in ref["calls"]]:
                return f"request {i}: prompts differ from the isolated replay"
            if [c["temperature"] for c in s["calls"]] != [c["temperature"] for c in ref["calls"]]:
                return f"request {i}: call-time temperature differs from the isolated replay"
        if obs["final_temp"] != CONFIGURED_TEMP:
            return f"no request in flight, LLM temperature is {obs['final_temp']} instead of the configured {CONFIGURED_TEMP}"
        for i, ref in enumerate(obs["iso"]):
            if ref["final_temp"] != CONFIGURED_TEMP:
                return f"request {i} alone: LLM temperature left at {ref['final_temp']}"
        return None
    return None


# ----------------------------------------------------------------------------- signature / tags

def _sections_overlap(sections):
    open_ = []
    for act, r in sections:
        if act == "enter":
            if open_:
                return True
            open_.append(r)
        else:
            if not open_ or open_[-1] != r:
                return True
            open_.pop()
    return bool(open_)


def signature(case, obs, msg):
    k = case["kind"]
    if k == "keypair":
        return "history-cache-key-collision" if "share the history-cache key" in (msg or "") else None
    if k == "events":
        # a look-alike entry (different history, same key as a proper prefix of the request) is in the cache
        msgs = obs.get("pairs") or []
        keys = obs.get("keys") or []
        if case.get("state"):
            hit = any(kp is not None and kp in keys for kp in (obs.get("pkeys") or []))
            return "state-request-reads-implicit-cache" if hit and not obs.get("statefix") else None
        for p, kp in zip(range(1, len(msgs)), obs.get("pkeys") or []):
            for ent, kk in zip(case["cache"], keys):
                if kp is not None and kk == kp and pairs(ent["hist"]) != msgs[:p]:
                    return "history-cache-key-collision"
        return None
    if k in ("serve", "e2e"):
        # first diverging step decides
        e2e = k == "e2e"
        for st in obs.get("shared", []):
            c, t = st["conv"], st["turn"]
            ref = obs["iso"][c][t] if t < len(obs["iso"][c]) else None
            if ref is None or st["req"] != ref["req"] or _step_view(st, e2e) != _step_view(ref, e2e):
                hit = st.get("hit")
                if hit and not hit["genuine"]:
                    return "history-cache-key-collision"
                if hit and hit["genuine"] and hit["writer"] != c:
                    return "same-history-other-conversation"
                # the own entry may have been replaced by a colliding write of another conversation -> lookup misses
                return _evicted(case, obs, st)
        return None
    if k == "params":
        if not _nested(case["sched"]) and obs.get("pmode") != "repaired":
            return "overlapping-llm-params-sections"
        if not all_present(case):
            return "absent-param-left-as-none"
        return None
    if k == "ctx":
        if obs.get("pmode") == "repaired":
            return None
        return "overlapping-llm-params-sections" if _sections_overlap(obs.get("sections", [])) else None
    if k == "conc":
        if " alone: " in (msg or "") or obs.get("pmode") == "repaired":
            return None  # a single request cannot overlap with anything; the repaired LLMParams has no excuse
        return "overlapping-llm-params-sections" if _sections_overlap(obs.get("sections", [])) else None
    return None


def _evicted(case, obs, st):
    """The isolated replay hit an own entry that on the shared instance was overwritten under a colliding key."""
    msgs = st["eff"]
    for p, kp in zip(range(1, len(msgs)), st.get("pkeys") or []):
        for o in obs["shared"]:
            if o is st:
                break
            if "exc" in o or "hkey" not in o:
                continue
            h = o["eff"] + [o["reply"]]
            if o["hkey"] == kp and pairs(h) != pairs(msgs[:p]):
                return "history-cache-key-collision"
    return None


def nontrivial(case, obs):
    k = case["kind"]
    if k == "keypair":
        return obs["a"]["pairs"] != obs["b"]["pairs"]
    if k == "events":
        return len(case["msgs"]) >= 2 and len(case["cache"]) >= 1
    if k in ("serve", "e2e"):
        return len(case["convs"]) >= 2 and any(len(st["req"]) >= 2 for st in obs["shared"])
    if k == "params":
        return len(case["managers"]) >= 2
    if k == "conc":
        return len(case["reqs"]) >= 2
    if k == "ctx":
        return len(case["reqs"]) >= 2 and any(r["options"] for r in case["reqs"]) and any(not r["options"] for r in case["reqs"])
    return False


def tags(case, obs):
    k = case["kind"]
    t = ["kind:" + k]
    if k == "keypair":
        t.append("how:" + case["how"])
        a, b = obs["a"], obs["b"]
        if a["pairs"] != b["pairs"] and a["used"].get("key") == b["used"].get("key"):
            t.append("key-collision")
        if "exc" in a["used"] or "exc" in b["used"]:
            t.append("key-exc")
    elif k == "events":
        t.append("cache-entries:" + str(min(len(case["cache"]), 4)))
        t.append("msgs:" + str(len(case["msgs"])))
        if obs.get("events") and any(e[0] == "OP" for e in obs["events"]):
            t.append("cache-hit")
    elif k in ("serve", "e2e"):
        t.append(f"{k}-convs:{len(case['convs'])}")
        hits = [st.get("hit") for st in obs["shared"]]
        if any(h for h in hits):
            t.append(k + "-cache-hit")
        if any(h and not h["genuine"] for h in hits):
            t.append(k + "-colliding-hit")
        if any(h and h["genuine"] and h["writer"] != st["conv"] for h, st in zip(hits, obs["shared"])):
            t.append(k + "-foreign-genuine-hit")
        if any("exc" in st for st in obs["shared"]):
            t.append(k + "-exc")
        if any(st.get("reply", {}).get("role") == "exception" for st in obs["shared"]):
            t.append(k + "-exception-reply")
        if k == "e2e":
            t.append("cfg:" + case.get("cfg", "general"))
        if any(st.get("opts") for st in obs["shared"]):
            t.append(k + "-with-options")
        inl = [st.get("inline") for st in obs["shared"]]
        t.append(k + ("-one-task" if all(inl) else "-own-tasks" if not any(inl) else "-mixed-tasks"))
    elif k == "params":
        t.append("mode:" + case["mode"])
        t.append("nested" if _nested(case["sched"]) else "overlapping")
        t.append("all-present" if all_present(case) else "some-absent")
    elif k == "ctx":
        t.append("ctx-reqs:" + str(len(case["reqs"])))
        flat = json.dumps(case["prog"])
        t.append("ctx-spawn" if "spawn" in flat else "ctx-sequential")
        ids = list(prog_ids(case["prog"]))
        # an options-less request served after an options-carrying one in the same task history
        seen_opt = False
        for i in ids:
            if case["reqs"][i]["options"]:
                seen_opt = True
            elif seen_opt:
                t.append("ctx-no-options-after-options")
                break
        if _sections_overlap(obs.get("sections", [])):
            t.append("ctx-sections-overlap")
    elif k == "conc":
        t.append("conc-mode:" + case["mode"])
        t.append("conc-overlap" if _sections_overlap(obs.get("sections", [])) else "conc-disjoint")
        if any("exc" in s["out"] for s in obs["shared"]):
            t.append("conc-exc")
        if any(r["fail"] for r in case["reqs"]):
            t.append("conc-llm-failure")
    return t


# ----------------------------------------------------------------------------- shrink

def shrink(case):
    k = case["kind"]
    if k == "keypair":
        for side in ("a", "b"):
            for i in range(len(case[side])):
                yield dict(case, **{side: case[side][:i] + case[side][i + 1:]})
    elif k == "events":
        for i in range(len(case["cache"])):
            yield dict(case, cache=case["cache"][:i] + case["cache"][i + 1:])
        for i in range(len(case["msgs"])):
            yield dict(case, msgs=case["msgs"][:i] + case["msgs"][i + 1:])
    elif k in ("serve", "e2e"):
        convs = case["convs"]
        for c in range(len(convs) - 1, -1, -1):
            # dropping a conversation is only sound if no later one refers to it
            if '"reply": [' in json.dumps(convs[c + 1:]):
                continue
            inl = list(case.get("inline") or []) + [0] * len(case["order"])
            keep = [(o - (1 if o > c else 0), f) for o, f in zip(case["order"], inl) if o != c]
            yield dict(case, convs=convs[:c] + convs[c + 1:], order=[o for o, _ in keep], inline=[f for _, f in keep])
        for c in range(len(convs)):
            if len(convs[c]) > 1:
                nc = copy.deepcopy(convs)
                nc[c] = nc[c][:-1]
                order = list(case["order"])
                inl = (list(case.get("inline") or []) + [0] * len(order))[: len(order)]
                for i in range(len(order) - 1, -1, -1):
                    if order[i] == c:
                        del order[i]
                        del inl[i]
                        break
                yield dict(case, convs=nc, order=order, inline=inl)
        if case.get("inline") and not all(case["inline"]):
            yield dict(case, inline=[1] * len(case["order"]))
        for c in range(len(convs)):
            for t in range(len(convs[c])):
                if "options" in convs[c][t]:
                    nc = copy.deepcopy(convs)
                    del nc[c][t]["options"]
                    yield dict(case, convs=nc)
    elif k == "params":
        for m in range(len(case["managers"])):
            ms = case["managers"][:m] + case["managers"][m + 1:]
            sched = [[x - (1 if x > m else 0), a] for x, a in case["sched"] if x != m]
            yield dict(case, managers=ms, sched=sched)
        for i, (m, a) in enumerate(case["sched"]):
            if a == "call":
                yield dict(case, sched=case["sched"][:i] + case["sched"][i + 1:])
    elif k == "conc":
        for i in range(len(case["reqs"])):
            if len(case["reqs"]) > 1:
                yield dict(case, reqs=case["reqs"][:i] + case["reqs"][i + 1:])
    elif k == "ctx":
        def drop(prog, i):
            out = []
            for it in prog:
                if "spawn" in it:
                    ch = [c for c in (drop(c, i) for c in it["spawn"]) if c]
                    if ch:
                        out.append({"spawn": ch})
                elif it["req"] != i:
                    out.append({"req": it["req"] - (1 if it["req"] > i else 0)})
            return out

        for i in range(len(case["reqs"])):
            if len(case["reqs"]) > 1:
                yield dict(case, reqs=case["reqs"][:i] + case["reqs"][i + 1:], prog=drop(case["prog"], i))
        flat = [{"req": i} for i in prog_ids(case["prog"])]
        if flat != case["prog"]:
            yield dict(case, prog=flat)
        if case.get("cfg") != "general":
            yield dict(case, cfg="general")
