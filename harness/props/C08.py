"""C08 — flow calls bind parameters, defaults and return values; locals are private.

Tie (the translator only locates/fingerprints the modelled functions and checks the reserved StartFlow keys;
the modelled part is logic, not data):
  * fn   — differential on the real `create_flow_instance` + `_start_flow` (FlowConfig built by the repo's own
           parser from generated Colang source) against `Bind.createFlowInstance` / `Bind.startFlow`:
           `arguments` and `context` compared as ORDERED item lists, exceptions as an enum;
  * e2e  — generated programs (flows with parameters/defaults, assign / global / return / send / nested calls in the
           forms await / start / activate) through the real `run_to_completion`, against `Bind.exec`:
           emitted events and the final context of every flow instance (in creation order) and the global context;
  * hist — (kind e2e) histories with in-place mutation of default / local containers and repeated calls with omitted
           arguments, against the heap interpreter `Bind.hexec` (reference semantics; also the callee ENTRY contexts);
  * probe— event-driven privacy programs (instances that wait, are resumed later and emit their variables) and
           aliasing programs (in-place `append`/`update` on a passed list/dict); oracle only.
  * act  — (kind probe) the same flow activated 2-7 times while the earlier activations are alive (explicit / omitted /
           equal / different arguments in every order, `start` calls in between, two callers, Ping rounds with restarts):
           for every call some instance echoes exactly the call's parameter values; oracle only.
  * ref  — the real `_get_reference_activated_flow_instance` and the real StartFlow branch of
           `_process_internal_events_without_default_matchers` on states assembled by the real constructor functions,
           against `Bind.refActivated` / `Bind.startDecision` / `Bind.activateStepEv`.
  * loop — (kind probe) a call statement reached once per iteration of a `while` loop; oracle only.
Oracle (independent of the Lean model): `spec_run`, a direct transcription of the property statement — parameter i gets
positional i, else the named argument, else the declared default, else None; `$x = await f` assigns the value of the
`return` expression; an assignment touches only the assigning instance (or the global context when declared global).
"""
import contextlib
import copy
import io
import itertools
import json
import signal

from ..impl import valjson as vj
from ..translate import c08 as tr

PROPERTY = "C08"
THEOREM_MODULE = "NemoVerif.Theorems.C08"
RULE = ("fn: signature of 0-5 parameters (each with/without default; defaults of every value type, or an expression "
        "referring to a variable) x call (k positionals, named subset, omitted rest; plus clashes, surplus positionals, "
        "unknown names, reserved names, shared `context`, non-contiguous `$i`, missing parent keys); all call shapes for "
        "signatures <= 3 parameters are enumerated. e2e: random programs of 1-3 callee flows (echo parameters, same-named "
        "locals, globals, nested calls, return expressions) called from main by await/start/activate. probe: waiting "
        "siblings/callees resumed by events, in-place mutation of passed containers, return-value capture (await / start + match "
        "$r.Finished() / match f(..).Finished()) inside bodies duplicated by the `when` expansion (or-groups, cases, else, nested). "
        "hist (kind e2e): histories with in-place mutation — flows whose parameters / return members / locals hold containers (list, nested list, "
        "dict, dict of list, set; same default text in several flows) mutated by expression statements, called 2-6 times with the argument omitted / "
        "positional / named by await/start/activate, return values kept and re-emitted; 15% pass container variables (finding region). "
        "restart probes: activated flow that finishes and restarts, default mutated in place or re-assigned, argument omitted or supplied. "
        "act probes: 1-2 flows of 1-3 parameters activated/started 2-7 times while earlier activations live (per call every parameter positional / named / omitted, values from "
        "small pools containing the declared default, orders mixed / explicit-then-omitted / omitted-then-explicit, caller variables as arguments, second caller flow, instance "
        "re-assigning a parameter, Ping rounds with restart). ref: 0-4 running instances (creating call arbitrary, counter 0/1/2, parent main/gone/None/same flow) x query call "
        "(incl. clash, activated True/1/False/missing) x source main/child/done, values incl. Python-equal ones of different type and reordered dicts/sets. loop probes: while loop of "
        "2-4 iterations around await-with-capture / start / activate with arguments depending on the loop variable. fn-big: signatures of 10-13 parameters. "
        "non-trivial = at least one parameter "
        "bound from an argument or default (fn) / at least one call with arguments or a return value (e2e, probe); "
        "distinct = distinct case JSON.")
TRUSTED_BASE = [
    "correspondence harness harness/props/C08.py + Lean driver Drive/C08.lean (JSON codecs; `$<decimal>` <-> Key.pos at the boundary)",
    "the repo's Colang 2.x parser (used to build the FlowConfigs the real functions are called with) and simpleeval for literal/variable expressions",
    "rendering of the generated program AST to Colang source (harness) — both sides start from the same AST",
]
ASSUMPTIONS = [
    "value model `exec`: values are immutable; heap model `hexec`: every user value is a heap cell holding a tree (no addresses inside a cell: objects nested in a passed container and mutated through a path, and the AttributeDict write-back, are outside it); eleven container methods are modelled",
    "programs that mutate in place run in a forked child of the worker (process-wide state of the code under test cannot leak between cases); emitted events are observed with the values they have at emission (deep copy on append to state.outgoing_events); callee entry contexts are snapshots taken by a wrapper around `_start_flow`",
    "user variables do not start with `_` (the expansion's hidden `_ref_…`/`_event_ref_…` variables live in the same context); parameter names are identifiers, never `$<digits>`",
    "e2e fragment: callee bodies run synchronously to their end or to `match Never()` (the event queue is abstracted; the FlowStarted / FlowFinished matches of a call go through the C04 matcher model, pattern evaluated at match time); defaults are evaluated once per call in the empty context",
    "modelled by hand: create_flow_instance, _start_flow, slide branches Assignment/Global/Return, _get_eval_context + `$var` lookup of eval_expression, FlowState.finished_event/_create_out_event, the expansion shape of `$x = await f(..)`, _get_reference_activated_flow_instance and the StartFlow branch of _process_internal_events_without_default_matchers (decision only: the FlowStarted hand-shake of a call served by a running activation, child lists and deactivation counters are not modelled)",
    "ref stream: the state is assembled by the real create_flow_instance/add_new_flow_instance/_start_flow and then `activated` / `parent_uid` of the instances are set directly (the attributes the lookup reads); activation probes: `==` on the generated values is type-exact (no 0/1/1.0), an activate with positional arguments served by an activation created with fewer positionals leaves its caller waiting (observed, outside the statement): the oracle stops at that call",
]
EXHAUSTIVE = {"quick": True, "thorough": True}

RESERVED = ["flow_id", "flow_instance_uid", "source_flow_instance_uid", "source_head_uid", "flow_hierarchy_position", "activated"]
PNAMES = ["a", "b", "c", "d", "e", "p", "q"]
VALUES = [None, True, False, 0, 1, 2, 7, 12, 0.5, 1.5, 2.25, "s", "hello world", "", "7", "a=b", "x, y", "p)q(", "k: v # no", "and or not", [], [1, 2], ["x", None], [[1], {"k": 2}], {}, {"k": 1},
          {"k": [1, 2], "j": None}, {"n": {"m": True}}]
SCALARS_DISTINCT = [None, 2, 3, 7, 12, "s", "t", "hello"]


# does the tree under test carry the repair of fixes/C08-reserved-parameter-names-v2.diff?  (decides which of the two
# modelled bindings — `createFlowInstance` (repaired) or `createFlowInstanceAsIs` — the fn stream is compared with)
REPAIRED = tr.repaired()


def translate():
    # the call hand-shakes of the mini interpreter go through the C04 matcher model: its generated constants
    # (argument_filter, InternalEvents) must be current before the build
    from ..translate import c04

    info = tr.run()
    info["c04_constants"] = c04.run()
    return info


# ----------------------------------------------------------------------------- expression / program AST helpers

def lit(v):
    return {"lit": vj.enc(v)}


def render_val(v):
    if v is None:
        return "None"
    if isinstance(v, bool):
        return "True" if v else "False"
    if isinstance(v, (int, float)):
        return repr(v)
    if isinstance(v, str):
        assert all(ch not in v for ch in "{}\"'\\$\n"), v
        return json.dumps(v)
    if isinstance(v, list):
        return "[" + ", ".join(render_val(x) for x in v) + "]"
    if isinstance(v, dict):
        return "{" + ", ".join(json.dumps(k) + ": " + render_val(x) for k, x in v.items()) + "}"
    if isinstance(v, (set, frozenset)):
        assert v, "the empty set has no literal"
        return "{" + ", ".join(render_val(x) for x in sorted(v, key=repr)) + "}"
    raise ValueError(v)


def render_expr(e):
    if "lit" in e:
        return render_val(vj.dec(e["lit"]))
    if "var" in e:
        return "$" + e["var"]
    if "l1" in e:
        return "[" + render_expr(e["l1"]) + "]"
    if "l2" in e:
        return "[" + render_expr(e["l2"][0]) + ", " + render_expr(e["l2"][1]) + "]"
    if "d1" in e:
        return "{" + json.dumps(e["d1"][0]) + ": " + render_expr(e["d1"][1]) + "}"
    raise ValueError(e)


def render_sig(name, params, rets):
    s = "flow " + name
    for p in params:
        s += " $" + p["name"] + ("" if p.get("default") is None else "=" + render_expr(p["default"]))
    if rets:
        s += " -> " + ", ".join("$" + r["name"] + ("" if r.get("default") is None else "=" + render_expr(r["default"])) for r in rets)
    return s


def render_stmt(st):
    op = st["op"]
    if op == "assign":
        return f"${st['key']} = {render_expr(st['e'])}"
    if op == "global":
        return f"global ${st['name']}"
    if op == "ret":
        return "return " + render_expr(st["e"])
    if op == "send":
        return f"send {st['name']}(" + ", ".join(f"{k}={render_expr(e)}" for k, e in st["args"]) + ")"
    if op == "block":
        return "match Never()"
    if op == "call":
        # (simple syntax is ambiguous where a positional argument that starts with `[` follows another one: `f None [1, 2]` is
        #  the subscript `None[1, 2]` — such calls are written in the classic syntax)
        if st.get("syntax") == "simple" and (st["pos"] or st["named"]) and not any(render_expr(e).startswith("[") for e in st["pos"][1:]):
            # the second call syntax of Colang 2.x (`simple_arguments`): `await fa 1 "x" $b=2` — its own branch in the transformer
            args = [render_expr(e) for e in st["pos"]] + [f"${k}={render_expr(e)}" for k, e in st["named"]]
            s = f"{st['form']} {st['flow']} " + " ".join(args)
        else:
            args = [render_expr(e) for e in st["pos"]] + [f"{k}={render_expr(e)}" for k, e in st["named"]]
            s = f"{st['form']} {st['flow']}" + ("(" + ", ".join(args) + ")" if args else "")
        return (f"${st['ret']} = " if st.get("ret") else "") + s
    if op == "mut":
        # in-place mutation through an expression side effect: `($x.append(..))` / `$z = $x[0].append(..)`
        tgt = "$" + st["var"] + "".join("[" + json.dumps(k) + "]" for k in st["path"])
        call = f"{tgt}.{st['meth']}(" + ", ".join(render_expr(e) for e in st["args"]) + ")"
        return f"${st['ret']} = {call}" if st.get("ret") else f"({call})"
    if op == "raw":
        return st["src"]
    raise ValueError(op)


def render_prog(prog):
    out = []
    for f in prog["flows"]:
        out.append(render_sig(f["name"], f["params"], f.get("rets", [])))
        body = f["body"] or [{"op": "raw", "src": "$_nop = 0"}]
        out.extend("  " + render_stmt(s) for s in body)
        out.append("")
    out.append("flow main")
    out.extend("  " + render_stmt(s) for s in prog["main"])
    return "\n".join(out) + "\n"


# ----------------------------------------------------------------------------- generators

def g_value(rng):
    return rng.choice(VALUES)


def g_default(rng, names):
    r = rng.random()
    if r < 0.12:
        # (`g` is the global of the generated programs, `v` a local of every caller: a declared default sees neither)
        return {"var": rng.choice(names + ["zz", "v", "g", "g"])}
    if r < 0.2:
        return {"l1": lit(g_value(rng))}
    if r < 0.26:
        return {"l2": [lit(g_value(rng)), {"var": rng.choice(names + ["v", "g"])}]}
    return lit(g_value(rng))


def g_params(rng, n=None, reserved_p=0.02, pool=None):
    n = rng.choice([0, 1, 1, 2, 2, 3, 3, 4, 5]) if n is None else n
    names = rng.sample(PNAMES, n)
    if n and rng.random() < reserved_p:
        names[rng.randrange(n)] = rng.choice(pool or RESERVED)
    return [{"name": nm, "default": g_default(rng, names) if rng.random() < 0.5 else None} for nm in names]


BASE_EV = [["flow_id", {"s": "f"}], ["flow_instance_uid", {"s": "(f)u1"}], ["source_flow_instance_uid", {"s": "@main"}],
           ["source_head_uid", {"s": "h1"}], ["flow_hierarchy_position", {"s": "0.1"}]]


def arg_key(name):
    """`flow_argument_key` of the repaired tree: a named argument for a parameter called like an internal StartFlow
    argument travels under "$<name>" (on an unrepaired tree that key is simply ignored by the binding)"""
    return "$" + name if name in RESERVED else name


def mk_fn(params, rets, pos, named, how, extra=(), drop=(), activated=False):
    ev = [[f"${i}", vj.enc(v)] for i, v in pos if v is not ...]
    ev += [[arg_key(k), vj.enc(v)] for k, v in named]
    seen = {k for k, _ in ev}
    base = [kv for kv in BASE_EV if kv[0] not in drop]
    if activated:
        base = base + [["activated", True]]
    for k, v in base:  # dict.update semantics: reserved keys override user-given ones in place
        if k in seen:
            ev = [[kk, v if kk == k else vv] for kk, vv in ev]
        else:
            ev.append([k, v])
    ev += [list(x) for x in extra]
    return {"kind": "fn", "params": params, "rets": rets, "ev": ev, "how": how}


def g_fn(rng):
    params = g_params(rng)
    n = len(params)
    names = [p["name"] for p in params]
    rets = []
    if rng.random() < 0.2:
        rets = [{"name": nm, "default": g_default(rng, names) if rng.random() < 0.5 else None} for nm in rng.sample(["r", "out"], rng.choice([1, 2]))]
    r = rng.random()
    how = "call"
    k = rng.randrange(n + 1)
    pos = [(i, g_value(rng)) for i in range(k)]
    rest = names[k:]
    named = [(nm, g_value(rng)) for nm in rest if rng.random() < 0.5]
    extra, drop = [], []
    if r < 0.70:
        pass
    elif r < 0.78 and k > 0:
        how = "clash"
        cl = rng.sample(names[:k], rng.randrange(1, k + 1))
        named = [(nm, g_value(rng)) for nm in cl] + named
    elif r < 0.86:
        how = "surplus"
        k = n + rng.randrange(1, n + 3)
        pos = [(i, g_value(rng)) for i in range(k)]
        named = []
    elif r < 0.90:
        how = "unknown-named"
        named = named + [("zz", g_value(rng))]
    elif r < 0.94:
        how = "gap"
        k = rng.randrange(1, n + 3)
        pos = [(i, g_value(rng)) for i in range(k) if rng.random() < 0.7]
    elif r < 0.97:
        how = "shared-context"
        extra = [["context", vj.enc({"v": g_value(rng), **({names[0]: 1} if names and rng.random() < 0.5 else {})})]]
        if rng.random() < 0.5:
            params, pos, named = [], [], []
    else:
        how = "no-parent"
        drop = [rng.choice(["source_flow_instance_uid", "source_head_uid"])]
    if rets and rng.random() < 0.1 and names:
        rets[0]["name"] = names[0]
        how = "ret-shadows-param"
    rng.shuffle(named) if how != "clash" else None
    return mk_fn(params, rets, pos, named, how, extra, drop, activated=rng.random() < 0.1)


def g_fn_big(rng):
    """unusual but legal: signatures of 10-13 parameters, up to 13 positionals (`$10` sorts before `$2` as a string), position-coded values"""
    n = rng.choice([10, 11, 12, 13])
    names = ["x%d" % i for i in range(n)]
    params = [{"name": nm, "default": lit("D" + nm) if rng.random() < 0.5 else None} for nm in names]
    k = rng.choice([n, n, n - 1, 11, 10, 3, 0])
    k = min(k, n)
    pos = [(i, "P%d" % i) for i in range(k)]
    named = [(nm, "N" + nm) for nm in names[k:] if rng.random() < 0.5]
    rng.shuffle(named)
    return mk_fn(params, [], pos, named, "call")


def enum_fn_shapes(max_n):
    """every call shape for signatures of <= max_n parameters (values are position-coded so that any mix-up shows)"""
    cases = []
    for n in range(max_n + 1):
        names = PNAMES[:n]
        for dmask in itertools.product([False, True], repeat=n):
            params = [{"name": nm, "default": lit("D" + nm) if d else None} for nm, d in zip(names, dmask)]
            for k in range(0, 2 * n + 3):
                pos = [(i, "P%d" % i) for i in range(k)]
                for nmask in itertools.product([False, True], repeat=n):
                    named = [(nm, "N" + nm) for nm, m in zip(names, nmask) if m]
                    clash = any(m and i < k for i, m in enumerate(nmask))
                    how = "surplus" if k > n else ("clash" if clash else "call")
                    if k > n and named:
                        continue
                    cases.append(mk_fn(params, [], pos, named, how))
    return cases


CALLEES = ["fa", "fb", "fc"]
CALL_SYNTAX = ["classic", "classic", "simple"]   # `f(1, b=2)` / `f 1 $b=2`
LOCALS = ["v", "w"]


def g_arg_expr(rng, scope_vars):
    r = rng.random()
    if scope_vars and r < 0.35:
        return {"var": rng.choice(scope_vars)}
    if scope_vars and r < 0.42:
        return {"l2": [{"var": rng.choice(scope_vars)}, lit(g_value(rng))]}
    if r < 0.47:
        return {"l1": lit(g_value(rng))}
    return lit(g_value(rng))


def g_call(rng, flows_by_name, target, form, scope_vars, ret=None, mode=None):
    params = flows_by_name[target]["params"]
    n = len(params)
    names = [p["name"] for p in params]
    k = rng.randrange(n + 1)
    pos = [g_arg_expr(rng, scope_vars) for _ in range(k)]
    named = [[nm, g_arg_expr(rng, scope_vars)] for nm in names[k:] if rng.random() < 0.5]
    rng.shuffle(named)
    if mode == "clash" and k > 0:
        nm = rng.choice(names[:k])
        same = rng.random() < 0.3
        idx = names.index(nm)
        pv = rng.choice(SCALARS_DISTINCT)
        pos[idx] = lit(pv)
        named = [[nm, lit(pv if same else rng.choice([x for x in SCALARS_DISTINCT if x != pv]))]] + named
    elif mode == "surplus":
        pos = [lit(rng.choice(SCALARS_DISTINCT)) for _ in range(n + rng.randrange(1, n + 3))]
        named = []
    elif mode == "unknown-named":
        named.append(["zz", lit(rng.choice(SCALARS_DISTINCT))])
    elif mode == "dup-named" and named:
        named.append([named[0][0], lit(rng.choice(SCALARS_DISTINCT))])
    return {"op": "call", "form": form, "ret": ret, "flow": target, "pos": pos, "named": named, "syntax": rng.choice(CALL_SYNTAX)}


def g_prog(rng, mode=None):
    nfl = rng.choice([1, 2, 2, 3])
    names = CALLEES[:nfl]
    flows = []
    use_global = rng.random() < 0.4
    started = set()
    # decide call forms for callees called from main
    for i, nm in enumerate(names):
        # (`activated` is kept for the fn stream only: `await f(activated=1)` turns the callee into an activated flow
        #  that restarts forever — run_to_completion does not return; the timeout guard below would catch it at 5 s a case)
        params = g_params(rng, reserved_p=0.03 if mode == "reserved" else 0.0, pool=RESERVED[:5])
        if mode == "reserved" and params and i == 0:
            params[0]["name"] = rng.choice(RESERVED[:5])
            for q in params[1:]:  # parameter names stay distinct (a signature with a repeated name is outside the statement)
                if q["name"] == params[0]["name"]:
                    q["name"] = next(n_ for n_ in PNAMES if n_ not in [x["name"] for x in params])
        flows.append({"name": nm, "params": params, "rets": [], "body": []})
    by_name = {f["name"]: f for f in flows}
    forms = {nm: rng.choice(["await", "await", "await", "start", "activate"]) for nm in names}
    for i in reversed(range(nfl)):
        f = flows[i]
        pn = [p["name"] for p in f["params"]]
        body = []
        scope = list(pn)
        if use_global and rng.random() < 0.5:
            body.append({"op": "global", "name": "g"})
            scope.append("g")
        elif use_global and rng.random() < 0.5:
            # a flow that did NOT declare `global $g` assigns its own local `$g`: the global must stay untouched
            body.append({"op": "assign", "key": "g", "e": g_arg_expr(rng, scope)})
            body.append({"op": "send", "name": "LocalG", "args": [["g", {"var": "g"}]]})
        body.append({"op": "send", "name": "Echo" + f["name"].capitalize(), "args": [[p, {"var": p}] for p in pn] + ([["g", {"var": "g"}]] if "g" in scope else [])})
        for lv in LOCALS:
            if rng.random() < 0.6:
                body.append({"op": "assign", "key": lv, "e": g_arg_expr(rng, scope)})
                scope.append(lv)
        if pn and rng.random() < 0.4:  # re-assign a parameter (must not leak to the caller's same-named variable)
            body.append({"op": "assign", "key": rng.choice(pn), "e": g_arg_expr(rng, scope)})
        if "g" in scope and rng.random() < 0.6:
            body.append({"op": "assign", "key": "g", "e": g_arg_expr(rng, scope)})
        # nested calls only in awaited callees: a started/activated callee that keeps running concurrently with its
        # caller competes with it in action conflict resolution (C05), which is outside this fragment
        if i + 1 < nfl and forms[f["name"]] == "await" and rng.random() < 0.6:
            tgt = rng.choice(names[i + 1:])
            if forms[tgt] == "await" and rng.random() < 0.8:
                body.append(g_call(rng, by_name, tgt, "await", scope, ret="x"))
                scope.append("x")
                body.append({"op": "send", "name": "Nested", "args": [["x", {"var": "x"}]] + [[lv, {"var": lv}] for lv in LOCALS if lv in scope]})
        if forms[f["name"]] == "await":
            if rng.random() < 0.85:
                body.append({"op": "ret", "e": g_arg_expr(rng, scope)})
        else:
            body.append({"op": "send", "name": "Locals" + f["name"].capitalize(), "args": [[lv, {"var": lv}] for lv in scope if lv in LOCALS]})
            body.append({"op": "block"})
        f["body"] = body
    main = []
    scope = []
    if use_global:
        main.append({"op": "global", "name": "g"})
        main.append({"op": "assign", "key": "g", "e": lit(g_value(rng))})
        scope.append("g")
    for lv in LOCALS + (["a"] if rng.random() < 0.5 else []):
        main.append({"op": "assign", "key": lv, "e": lit(g_value(rng))})
        scope.append(lv)
    ncalls = rng.choice([1, 2, 2, 3])
    activated = set()
    for ci in range(ncalls):
        tgt = rng.choice(names)
        form = forms[tgt]
        if form == "activate":
            if tgt in activated:  # activating an already activated flow only bumps its reference count (C06 territory)
                continue
            activated.add(tgt)
        m = mode if (mode in ("clash", "surplus", "unknown-named", "dup-named") and ci == ncalls - 1) else None
        has_ret = any(s["op"] == "ret" for s in by_name[tgt]["body"])
        if form == "await":
            want = has_ret and rng.random() < 0.85
            main.append(g_call(rng, by_name, tgt, form, scope, ret=("x" if want else None), mode=m))
            if want:
                if "x" not in scope:
                    scope.append("x")
                main.append({"op": "send", "name": "Ret", "args": [["x", {"var": "x"}]]})
        else:
            main.append(g_call(rng, by_name, tgt, form, scope, mode=m))
        if rng.random() < 0.3:
            main.append({"op": "assign", "key": rng.choice(LOCALS), "e": g_arg_expr(rng, scope)})
    main.append({"op": "send", "name": "Fin", "args": [[lv, {"var": lv}] for lv in scope]})
    main.append({"op": "block"})
    return {"kind": "e2e", "prog": {"flows": flows, "main": main}, "mode": mode or "plain"}


# --- histories with in-place mutation (kind e2e, modes hist / hist-passed).  The statement: a parameter whose argument is
#     omitted receives its *declared default* — in every instance, whatever earlier instances did with theirs — and a
#     caller's variable holding a returned value does not change when a sibling instance runs.  Programs: flows whose
#     parameters / return members / locals hold containers (list, nested list, dict, dict of list, set) and are mutated in
#     place (`($p.append(..))`, `($d.update(..))`, `($n[0].append(..))`, `$z = $p.pop()` …); main calls the same flow (and
#     flows that declare the same default text) several times with the argument omitted / positional / named, by
#     await / start / activate, keeps the returned values, mutates its own same-named locals between the calls.
#     mode `hist`: nothing mutable is passed across (arguments are literals or scalar variables) — every instance owns its
#     values, the value-semantics reference evaluator is exact.  mode `hist-passed`: container *variables* are passed /
#     returned values are mutated: the region of the open finding `inplace-mutation-of-passed-container`.

HIST_DEFAULTS = {
    "list": [[], [], [], [1], ["x"], [1, 2]],
    "nested": [[[1], [2]], [[]], [[], ["y"]]],
    "dict": [{}, {}, {"k": 1}, {"j": "s", "k": 2}],
    "dictl": [{"k": [1]}, {"k": []}],
    "set": [{1, 2}, {"s"}, {3}],
    "scalar": [0, 7, "s", None, True, 1.5],
}
HIST_TYPES = ["list", "list", "list", "nested", "dict", "dict", "dictl", "set", "scalar"]
HIST_SCALARS = [2, 3, 7, 12, "t", "hello"]


def g_mut(rng, var, typ, scal_vars, ret=None):
    """a type-correct in-place mutation of `$var` (list of statements: `pop` only straight after an `append`)"""
    def sc():
        if scal_vars and rng.random() < 0.4:
            return {"var": rng.choice(scal_vars)}
        return lit(rng.choice(HIST_SCALARS))

    def m(meth, args, path=(), r=None):
        return {"op": "mut", "var": var, "path": list(path), "meth": meth, "args": args, "ret": r}

    if typ == "list":
        c = rng.choice(["append", "append", "append", "extend", "insert", "append-pop", "clear"])
        if c == "append":
            return [m("append", [sc()], r=ret)]
        if c == "extend":
            return [m("extend", [lit([rng.choice(HIST_SCALARS), rng.choice(HIST_SCALARS)])])]
        if c == "insert":
            return [m("insert", [lit(0), sc()])]
        if c == "append-pop":
            return [m("append", [sc()]), m("append", [sc()]), m("pop", [], r=ret)]
        return [m("clear", [])]
    if typ == "nested":
        c = rng.choice(["in0", "in0", "top", "clear0"])
        if c == "in0":
            return [m("append", [sc()], path=[0])]
        if c == "top":
            return [m("append", [lit([rng.choice(HIST_SCALARS)])])]
        return [m("clear", [], path=[0])]
    if typ == "dict":
        c = rng.choice(["update", "update", "update", "pop", "clear"])
        if c == "update":
            return [m("update", [{"d1": [rng.choice(["k", "z", "q"]), sc()]}])]
        if c == "pop":
            return [m("pop", [lit(rng.choice(["k", "z"])), lit(None)], r=ret)]
        return [m("clear", [])]
    if typ == "dictl":
        c = rng.choice(["ink", "ink", "update"])
        if c == "ink":
            return [m("append", [sc()], path=["k"])]
        return [m("update", [{"d1": [rng.choice(["z", "q"]), sc()]}])]
    if typ == "set":
        c = rng.choice(["add", "add", "add", "discard", "clear"])
        if c == "add":
            return [m("add", [lit(rng.choice(HIST_SCALARS))])]
        if c == "discard":
            return [m("discard", [lit(rng.choice([1, 2, 3, "s", 7]))])]
        return [m("clear", [])]
    raise ValueError(typ)


def g_hist(rng, passed=False):
    nfl = rng.choice([1, 2, 2, 3])
    names = CALLEES[:nfl]
    forms = {nm: rng.choice(["await", "await", "await", "await", "start", "start", "activate"]) for nm in names}
    use_global = rng.random() < 0.25
    gtyp = rng.choice(["list", "dict", "set"])
    shared_default = {t: rng.choice(v) for t, v in HIST_DEFAULTS.items()}  # same default text in several flows/parameters
    flows, types, rtype = [], {}, {}
    for nm in names:
        params, ty = [], {}
        if rng.random() < 0.6:
            params.append({"name": "item", "default": None})
            ty["item"] = "scalar"
        for pn in rng.sample(["a", "b", "c", "p"], rng.choice([1, 1, 2, 2, 3])):
            t = rng.choice(HIST_TYPES)
            d = shared_default[t] if rng.random() < 0.6 else rng.choice(HIST_DEFAULTS[t])
            params.append({"name": pn, "default": lit(d)})
            ty[pn] = t
        rets = []
        if rng.random() < 0.3:
            t = rng.choice(HIST_TYPES[:-1])
            rets.append({"name": "r", "default": lit(shared_default[t] if rng.random() < 0.6 else rng.choice(HIST_DEFAULTS[t]))})
            ty["r"] = t
        flows.append({"name": nm, "params": params, "rets": rets, "body": []})
        types[nm] = ty
    by_name = {f["name"]: f for f in flows}

    def call(target, form, scope_ty, ret=None):
        """arguments: omitted (mostly) | fresh literal of the parameter's type | scalar variable; hist-passed: container variables"""
        params = by_name[target]["params"]
        ty = types[target]
        k = rng.choice([0, 0, 0, 1, 1, 2]) if params else 0
        k = min(k, len(params))

        def arg(pn):
            t = ty[pn]
            # (variables are passed for flat container types only: a cell of the heap model holds a tree, objects nested
            #  inside a passed dict/list that are mutated through a path are outside it — see Models/BindHeap.lean)
            if passed and t not in ("nested", "dictl") and rng.random() < 0.6:
                cands = [v for v, vt in scope_ty.items() if vt == t or vt == "ret:" + t]
                if cands:
                    return {"var": rng.choice(cands)}
            if t == "scalar":
                sv = [v for v, vt in scope_ty.items() if vt == "scalar"]
                if sv and rng.random() < 0.4:
                    return {"var": rng.choice(sv)}
                return lit(rng.choice(HIST_SCALARS))
            return lit(rng.choice(HIST_DEFAULTS[t]))

        pos = [arg(p["name"]) for p in params[:k]]
        named = [[p["name"], arg(p["name"])] for p in params[k:] if rng.random() < 0.2]
        rng.shuffle(named)
        return {"op": "call", "form": form, "ret": ret, "flow": target, "pos": pos, "named": named, "syntax": rng.choice(CALL_SYNTAX)}

    for i in reversed(range(nfl)):
        f = flows[i]
        ty = dict(types[f["name"]])
        body = []
        if use_global and rng.random() < 0.5:
            body.append({"op": "global", "name": "g"})
            ty["g"] = gtyp
        echo = [p["name"] for p in f["params"]] + [r["name"] for r in f["rets"]] + (["g"] if "g" in ty else [])
        body.append({"op": "send", "name": "In" + f["name"].capitalize(), "args": [[v, {"var": v}] for v in echo]})
        for lv in LOCALS:
            if rng.random() < 0.5:
                t = rng.choice(HIST_TYPES[:-1])
                body.append({"op": "assign", "key": lv, "e": lit(rng.choice(HIST_DEFAULTS[t]))})
                ty[lv] = t
        if rng.random() < 0.1:
            pn = rng.choice([p["name"] for p in f["params"]])
            if ty[pn] != "scalar":  # re-assign a parameter with a fresh literal, then (maybe) mutate it
                body.append({"op": "assign", "key": pn, "e": lit(rng.choice(HIST_DEFAULTS[ty[pn]]))})
        cont = [v for v, t in ty.items() if t != "scalar" and not t.startswith("ret")]
        scal = [v for v, t in ty.items() if t == "scalar"]
        for _ in range(rng.choice([1, 1, 2, 3]) if cont else 0):
            v = rng.choice(cont)
            ret = rng.choice([None, None, None, "z"])
            body.extend(g_mut(rng, v, ty[v], scal, ret=ret))
        if i + 1 < nfl and forms[f["name"]] == "await" and rng.random() < 0.4:
            tgt = rng.choice(names[i + 1:])
            if forms[tgt] == "await":
                has_ret = any(s_["op"] == "ret" for s_ in by_name[tgt]["body"])
                body.append(call(tgt, "await", ty, ret="x" if has_ret else None))
                if has_ret:
                    ty["x"] = "ret:" + rtype[tgt]
        allv = [v for v in ty if v not in ("z",)]
        body.append({"op": "send", "name": "Out" + f["name"].capitalize(), "args": [[v, {"var": v}] for v in allv]})
        if forms[f["name"]] == "await":
            if rng.random() < 0.9:
                r = rng.random()
                rcont = [v for v in cont if passed or v != "g"]  # a returned global stays shared with everybody (passed across)
                if rcont and r < 0.65:
                    rv_ = rng.choice(rcont)
                    e = {"var": rv_}
                    rtype[f["name"]] = ty[rv_]
                elif r < 0.8 and scal:
                    e = {"l2": [{"var": rng.choice(scal)}, lit(rng.choice(HIST_SCALARS))]}
                    rtype[f["name"]] = "list"
                else:
                    rt_ = rng.choice(list(HIST_DEFAULTS))
                    e = lit(rng.choice(HIST_DEFAULTS[rt_]))
                    rtype[f["name"]] = rt_
                body.append({"op": "ret", "e": e})
        else:
            body.append({"op": "block"})
        f["body"] = body

    main, ty = [], {}
    if use_global:
        main.append({"op": "global", "name": "g"})
        main.append({"op": "assign", "key": "g", "e": lit(rng.choice(HIST_DEFAULTS[gtyp]))})
        ty["g"] = gtyp
    for lv in LOCALS + ["a"]:
        if rng.random() < 0.5:
            t = rng.choice(HIST_TYPES)
            main.append({"op": "assign", "key": lv, "e": lit(rng.choice(HIST_DEFAULTS[t]))})
            ty[lv] = t
    ncalls = rng.choice([2, 3, 3, 4, 5, 6])
    activated, nret = set(), 0
    for ci in range(ncalls):
        tgt = rng.choice(names)
        form = forms[tgt]
        if form == "activate":
            if tgt in activated:
                continue
            activated.add(tgt)
        has_ret = any(s_["op"] == "ret" for s_ in by_name[tgt]["body"])
        if form == "await" and has_ret and rng.random() < 0.9:
            nret += 1
            rv = "x%d" % nret
            main.append(call(tgt, form, ty, ret=rv))
            ty[rv] = "ret:" + rtype[tgt]
        else:
            main.append(call(tgt, form, ty))
        mine = [v for v, t in ty.items() if t != "scalar" and not t.startswith("ret")]
        if mine and rng.random() < 0.35:
            v = rng.choice(mine)
            main.extend(g_mut(rng, v, ty[v], [x for x, t in ty.items() if t == "scalar"]))
        if passed and nret and rng.random() < 0.3:  # mutate a returned value (shared with the finished callee as the code is)
            main.append({"op": "mut", "var": "x%d" % rng.randrange(1, nret + 1), "path": [], "meth": "clear", "args": [], "ret": None})
        if rng.random() < 0.6:
            main.append({"op": "send", "name": "Mid", "args": [[v, {"var": v}] for v in ty]})
    main.append({"op": "send", "name": "Fin", "args": [[v, {"var": v}] for v in ty]})
    main.append({"op": "block"})
    return {"kind": "e2e", "prog": {"flows": flows, "main": main}, "mode": "hist-passed" if passed else "hist"}


# --- probes (oracle only): event-driven privacy, in-place aliasing

def g_probe(rng):
    t = rng.choice(["siblings", "siblings", "callee-waits", "callee-waits", "inplace-list-callee", "inplace-list-caller", "inplace-dict", "reassign",
                    "siblings-own-default", "siblings-own-default"])
    var = rng.choice(["v", "w", "item"])
    vals = rng.sample(SCALARS_DISTINCT[1:], 4)
    form = rng.choice(["start", "activate"])
    if t == "siblings":
        k = rng.choice([2, 3])
        src = (f"flow fa $n\n  ${var} = [$n, {render_val(vals[0])}]\n  match Go(n=$n)\n  send Ef(n=$n, v=${var})\n  match Never()\n\n"
               "flow main\n" + "".join(f"  {form} fa({i + 1})\n" for i in range(k)) + f"  ${var} = {render_val(vals[1])}\n  send Em(v=${var})\n  match Never()\n")
        order = list(range(1, k + 1))
        rng.shuffle(order)
        events = [{"type": "Go", "n": i} for i in order]
        expect = [["Em", {"v": vals[1]}]] + [["Ef", {"n": i, "v": [i, vals[0]]}] for i in order]
    elif t == "siblings-own-default":
        # waiting sibling instances of one flow, each mutating ITS OWN defaulted parameter / local in place before and after the
        # wait (resumed in random order): every instance shows only what it did itself
        k = rng.choice([2, 3])
        typ = rng.choice(["list", "list", "set", "dict"])
        d = rng.choice(HIST_DEFAULTS[typ])
        m1 = {"list": "($b.append($n))", "set": "($b.add($n))", "dict": '($b.update({"id": $n}))'}[typ]
        m2 = {"list": f"($b.append({render_val(vals[0])}))", "set": f"($b.add({render_val(vals[0])}))", "dict": f'($b.update({{"z": {render_val(vals[0])}}}))'}[typ]
        loc = rng.random() < 0.5
        src = (f"flow fa $n $b={render_val(d)}\n" + (f"  ${var} = {render_val(d)}\n  {m1.replace('$b', '$' + var)}\n" if loc else "") + f"  {m1}\n  match Go(n=$n)\n  {m2}\n"
               f"  send Ef(n=$n, b=$b" + (f", v=${var}" if loc else "") + ")\n  match Never()\n\n"
               "flow main\n" + "".join(f"  {form} fa({i + 1})\n" for i in range(k)) + "  match Never()\n")
        order = list(range(1, k + 1))
        rng.shuffle(order)
        events = [{"type": "Go", "n": i} for i in order]

        def after(i, both):
            v = copy.deepcopy(d)
            if typ == "list":
                v.append(i)
                if both:
                    v.append(vals[0])
            elif typ == "set":
                v.add(i)
                if both:
                    v.add(vals[0])
            else:
                v["id"] = i
                if both:
                    v["z"] = vals[0]
            return v

        expect = [["Ef", dict({"n": i, "b": after(i, True)}, **({"v": after(i, False)} if loc else {}))] for i in order]
        # (form `activate`: distinct `n` make distinct activated instances)
    elif t == "callee-waits":
        src = (f"flow fa ${var}\n  send E1(v=${var})\n  match Go()\n  send E2(v=${var})\n  ${var} = {render_val(vals[2])}\n  send E3(v=${var})\n  match Never()\n\n"
               f"flow main\n  ${var} = {render_val(vals[0])}\n  {form} fa(${var})\n  ${var} = {render_val(vals[1])}\n  send Em(v=${var})\n  match Done()\n  send Em2(v=${var})\n  match Never()\n")
        events = [{"type": "Go"}, {"type": "Done"}]
        expect = [["E1", {"v": vals[0]}], ["Em", {"v": vals[1]}], ["E2", {"v": vals[0]}], ["E3", {"v": vals[2]}], ["Em2", {"v": vals[1]}]]
    elif t == "reassign":
        src = (f"flow fa ${var}\n  ${var} = [${var}, {render_val(vals[1])}]\n  send Ef(v=${var})\n\n"
               f"flow main\n  ${var} = [{render_val(vals[0])}]\n  await fa(${var})\n  send Em(v=${var})\n  match Never()\n")
        events = []
        expect = [["Ef", {"v": [[vals[0]], vals[1]]}], ["Em", {"v": [vals[0]]}]]
    elif t == "inplace-list-callee":
        by_name = rng.random() < 0.5
        src = (f"flow fa ${var}\n  $z = ${var}.append({render_val(vals[1])})\n  send Ef(v=${var})\n\n"
               f"flow main\n  ${var} = [{render_val(vals[0])}]\n  await fa({var + '=' if by_name else ''}${var})\n  send Em(v=${var})\n  match Never()\n")
        events = []
        expect = [["Ef", {"v": [vals[0], vals[1]]}], ["Em", {"v": [vals[0]]}]]
    elif t == "inplace-list-caller":
        src = (f"flow fa ${var}\n  match Go()\n  send Ef(v=${var})\n  match Never()\n\n"
               f"flow main\n  ${var} = [{render_val(vals[0])}]\n  start fa(${var})\n  $z = ${var}.append({render_val(vals[1])})\n  send Em(v=${var})\n  match Never()\n")
        events = [{"type": "Go"}]
        expect = [["Em", {"v": [vals[0], vals[1]]}], ["Ef", {"v": [vals[0]]}]]
    else:  # inplace-dict: mutation after the callee was resumed (FlowStarted hand-shake already done)
        src = (f"flow fa ${var}\n  match Go()\n  $z = ${var}.update({{\"k\": {render_val(vals[1])}}})\n  send Ef(v=${var})\n  match Never()\n\n"
               f"flow main\n  ${var} = {{\"k\": {render_val(vals[0])}}}\n  start fa(${var})\n  match Go()\n  send Em(v=${var})\n  match Never()\n")
        events = [{"type": "Go"}]
        expect = None  # order of Ef/Em is decided by conflict resolution; only the values are checked
        return {"kind": "probe", "tmpl": t, "src": src, "events": events, "expect_vals": {"Ef": {"v": {"k": vals[1]}}, "Em": {"v": {"k": vals[0]}}}}
    return {"kind": "probe", "tmpl": t, "src": src, "events": events, "expect": expect}


# --- probes: an ACTIVATED flow restarts when it finishes.  The restarted instance is started by the interpreter on behalf of
#     the original `activate f(..)`: every parameter the caller omitted must again be its declared default, whatever the
#     finished instance did with its own parameter; a supplied argument must again be the supplied value.

def g_restart_probe(rng):
    t = rng.choice(["list", "list", "nested", "dict", "dictl", "set"])
    d = rng.choice(HIST_DEFAULTS[t])
    how = rng.choice(["inplace", "inplace", "inplace", "reassign"])
    supplied = rng.random() < 0.25
    n_go = rng.choice([1, 2, 3])
    if how == "inplace":
        muts = [st for _ in range(rng.choice([1, 2])) for st in g_mut(rng, "b", t, ["n"])]
        # (supplied + shrinking mutation would block the caller's hand-shake: keep the growing ones there)
        if supplied:
            muts = [m for m in muts if m["meth"] in ("append", "extend", "add") or (m["meth"] == "update" and t == "dictl")] or \
                   [{"op": "mut", "var": "b", "path": [], "meth": {"list": "append", "nested": "append", "set": "add"}.get(t, "update"),
                     "args": [lit(7)] if t in ("list", "nested", "set") else [{"d1": ["zz", lit(7)]}], "ret": None}]
        body = [render_stmt(m) for m in muts]
    else:
        body = ["$b = [$b, 1]"]
    src = (f"flow fa $n=0 $b={render_val(d)}\n  send E(b=$b, n=$n)\n" + "".join("  " + l + "\n" for l in body) + "  $n = $n + 1\n  match Go()\n\n"
           "flow main\n  activate fa" + (f"(5, {render_val(d)})" if supplied else "") + "\n  match Never()\n")
    n0 = 5 if supplied else 0
    expect = [["E", {"b": copy.deepcopy(d), "n": n0}] for _ in range(n_go + 1)]
    return {"kind": "probe", "tmpl": "restart-" + how + ("-supplied" if supplied else "-omitted") + ":" + t, "src": src,
            "events": [{"type": "Go"}] * n_go, "expect": expect}


# --- probes: return-value capture inside bodies that the `when` expansion duplicates (one copy per group of an
#     or-group, the else body once per case).  Found by the C12 builder (fixed in /repo 0e3efac): `$x = match $r.Finished()`
#     lost its assignment in every copy but the first.  Oracle: the returned value reaches the caller's variable.

WHEN_SHAPES = ["plain", "or2", "or2", "or3and", "and", "cases", "cases-or", "else", "else2", "nested", "nested-cases"]
CAPTURE_FORMS = ["await", "start-match", "start-match", "ctor-match"]


def g_when_probe(rng):
    shape = rng.choice(WHEN_SHAPES)
    va, vb, vd = rng.sample(SCALARS_DISTINCT[1:], 3)
    if rng.random() < 0.4:
        va = [va, rng.choice([1, "z", None])]
    ret_kind = rng.choice(["ab", "a", "b1", "lit"])
    ret_src = {"ab": "[$a, $b]", "a": "$a", "b1": "[$b]", "lit": render_val(vd)}[ret_kind]

    def ret_val(a, b):
        return {"ab": [a, b], "a": a, "b1": [b], "lit": vd}[ret_kind]

    helper = f"flow helper $a $b={render_val(vd)}\n  match Go()\n  return {ret_src}\n\nflow quick $a $b={render_val(vd)}\n  return {ret_src}\n\nflow failing\n  abort\n\n"
    forms = []

    def capture(ind, var, tag, allow_wait):
        """lines of one capture + the Result event, its expectation, whether a Go event is needed"""
        form = rng.choice(CAPTURE_FORMS if allow_wait else ["await"])
        pad = "  " * ind
        give_b = rng.random() < 0.5
        b = vb if give_b else vd
        go = True
        if form == "await":
            flow = rng.choice(["helper", "quick"]) if allow_wait else "quick"
            args = render_val(va) + (f", b={render_val(vb)}" if give_b else "")
            lines = [f"{pad}${var} = await {flow}({args})"]
            go = flow == "helper"
        elif form == "start-match":
            args = render_val(va) + (f", b={render_val(vb)}" if give_b else "")
            lines = [f"{pad}start helper({args}) as $r{var}", f"{pad}${var} = match $r{var}.Finished()"]
        else:
            args = f"a={render_val(va)}" + (f", b={render_val(vb)}" if give_b else "")
            lines = [f"{pad}start helper({args})", f"{pad}${var} = match helper({args}).Finished()"]
        lines.append(f"{pad}send Result(v=${var}, t={json.dumps(tag)})")
        forms.append(form)
        return lines, ["Result", {"v": ret_val(va, b), "t": tag}], go

    def body(ind, tag):
        """one or two captures; at most one of them waits for the single Go event (and then it is the last)"""
        lines, exps, go = [], [], False
        if rng.random() < 0.3:
            l, e, _ = capture(ind, "y", tag + "-first", False)
            lines += l
            exps.append(e)
        l, e, go = capture(ind, "x", tag, True)
        return lines + l, exps + [e], go

    main = ["flow main"]
    events = []
    if shape == "plain":
        l, expect, go = body(1, "p")
        main += l
    elif shape in ("or2", "or3and", "and"):
        head = {"or2": "when Ev1() or Ev2()", "or3and": "when Ev1() or Ev2() or (Ev3() and Ev4())", "and": "when Ev1() and Ev2()"}[shape]
        l, expect, go = body(2, shape)
        main += ["  " + head] + l
        events = {"or2": rng.choice([["Ev1"], ["Ev2"]]), "or3and": rng.choice([["Ev1"], ["Ev2"], ["Ev4", "Ev3"]]), "and": ["Ev2", "Ev1"]}[shape]
    elif shape in ("cases", "cases-or"):
        heads = ["when Ev1()", "or when Ev2()"] if shape == "cases" else ["when Ev1() or Ev2()", "or when Ev3() or Ev4()"]
        trig = rng.choice([0, 1])
        parts = [body(2, f"c{ci}") for ci in range(2)]
        for h, (l, _, _) in zip(heads, parts):
            main += ["  " + h] + l
        expect, go = parts[trig][1], parts[trig][2]
        if shape == "cases":
            events = [["Ev1"], ["Ev2"]][trig]
        else:
            events = [rng.choice(["Ev1", "Ev2"]) if trig == 0 else rng.choice(["Ev3", "Ev4"])]
    elif shape in ("else", "else2"):
        main += ["  when failing", "    send Nope()"]
        if shape == "else2":
            main += ["  or when failing", "    send Nope2()"]
        l, expect, go = body(2, shape)
        main += ["  else"] + l
    elif shape == "nested":
        l, expect, go = body(3, "n")
        main += ["  when Ev1() or Ev2()", "    when Ev3() or Ev4()"] + l
        events = [rng.choice(["Ev1", "Ev2"]), rng.choice(["Ev3", "Ev4"])]
    else:  # nested-cases: an or-group whose body holds a two-case when
        parts = [body(3, f"n{ci}") for ci in range(2)]
        trig = rng.choice([0, 1])
        main += ["  when Ev1() or Ev2()", "    when Ev3()"] + parts[0][0] + ["    or when Ev4()"] + parts[1][0]
        events = [rng.choice(["Ev1", "Ev2"]), ["Ev3", "Ev4"][trig]]
        expect, go = parts[trig][1], parts[trig][2]
    main.append("  match Never()")
    evs = [{"type": t} for t in events] + ([{"type": "Go"}] if go else [])
    return {"kind": "probe", "tmpl": "when-" + shape + ":" + "+".join(sorted(set(forms))), "src": helper + "\n".join(main) + "\n", "events": evs, "expect": expect}


# --- probes: the SAME flow activated several times while earlier activations are alive (plus `start` calls of the same
#     flow in between).  The statement, per call: each parameter receives the positional / named argument evaluated in
#     the caller, or the declared default (None without one) when omitted — so for EVERY call some instance of the flow
#     runs with exactly that call's parameter values; an `activate` may be served by an activation that already runs only
#     when ALL parameter values agree (then "its" instance is that one); no instance runs with values nobody passed.
#     Calls: explicit / omitted / equal / different arguments in every order, positional / named mixes, values drawn from
#     a small per-parameter pool that contains the declared default (explicit-equal-to-default vs omitted), variables of
#     the caller as arguments, 1-2 flows with the same signature text, a suffix of the calls issued by a second caller
#     flow.  Variant `hold`: instances echo their parameters and wait; variant `ping`: every instance lives in its own
#     interaction loop, echoes again on `Ping`, finishes, and — activated ones — restarts (1-2 rounds).

ACT_VALS = [None, True, False, 2, 7, 12, "x", "y", "", 1.5, [1, 2], [], {"k": 1}]   # `==` on these is type-exact (no 0/1/1.0)


def g_act_probe(rng):
    nfl = rng.choice([1, 1, 1, 2])
    n = rng.choice([1, 2, 2, 2, 3])
    names = rng.sample(["p", "q", "tag", "level", "a"], n)
    pools, params = [], []
    # half of the programs draw the values of ALL parameters from one small pool (a value passed for one parameter is the
    # declared default / the running value of another: any comparison that looks at the wrong parameter goes wrong visibly)
    common = rng.sample(ACT_VALS, 3) if rng.random() < 0.5 else None
    for nm in names:
        pool = list(common) if common else rng.sample(ACT_VALS, rng.choice([2, 2, 3]))
        has_d = rng.random() < 0.65
        d = rng.choice(pool) if has_d and rng.random() < 0.85 else rng.choice(ACT_VALS)
        if has_d and d is None and rng.random() < 0.7:
            d = rng.choice([v for v in ACT_VALS if v is not None])
        params.append({"name": nm, "default": lit(d) if has_d else None})
        pools.append(pool + ([d] if has_d else [None]))
    same_sig = rng.random() < 0.6
    flows = []
    for fi in range(nfl):
        ps = params if (fi == 0 or same_sig) else [dict(p_, default=(lit(rng.choice(pl)) if p_["default"] is not None else None)) for p_, pl in zip(params, pools)]
        flows.append({"name": CALLEES[fi], "params": ps})
    variant = rng.choice(["hold", "hold", "ping"])
    ncalls = rng.choice([2, 3, 3, 4, 4, 5, 6, 7])
    mvars = {}
    calls = []
    style = rng.choice(["mixed", "mixed", "explicit-then-omitted", "omitted-then-explicit"])
    # (a later call with MORE positionals than the equal-valued call that created the activation leaves its caller waiting —
    #  observed hand-shake quirk, the oracle stops there: most programs keep one positional count per program)
    kfix = rng.choice([None, None, 0, 0, 1, 2])
    for ci in range(ncalls):
        form = "activate" if rng.random() < 0.8 else "start"
        fl = rng.choice(flows)
        k = rng.choice([0, 0, 1, 1, 2, 3]) if kfix is None else kfix
        k = min(k, n)
        p_omit = {"mixed": 0.4, "explicit-then-omitted": 0.1 if ci < ncalls // 2 else 0.7, "omitted-then-explicit": 0.7 if ci < ncalls // 2 else 0.1}[style]
        pos, named = [], []
        for i, nm in enumerate(names):
            if i >= k and rng.random() < p_omit:
                continue
            v = rng.choice(pools[i])
            if rng.random() < 0.25 and not _is_container(v):
                vn = "m%d" % len(mvars)
                mvars[vn] = v
                e = {"var": vn}
            else:
                e = lit(v)
            if i < k:
                pos.append(e)
            else:
                named.append([nm, e])
        rng.shuffle(named)
        calls.append({"form": form, "flow": fl["name"], "pos": pos, "named": named, "syntax": rng.choice(CALL_SYNTAX)})
    split = rng.randrange(1, ncalls) if rng.random() < 0.25 else ncalls   # calls[split:] are issued by the second caller `hb`
    act = {"flows": flows, "calls": calls, "variant": variant, "split": split, "mvars": [[k_, vj.enc(v)] for k_, v in mvars.items()],
           "pings": rng.choice([1, 2]) if variant == "ping" else 0}
    if variant == "hold" and rng.random() < 0.35:
        # the running instance re-assigns one of its parameters after the echo (its own variable: what the instance was STARTED
        # with — and what a later call is compared with — does not change), to a value other calls pass
        i = rng.randrange(n)
        passed = [e["lit"] for c in calls for e in (c["pos"][i:i + 1] + [e_ for k_, e_ in c["named"] if k_ == names[i]]) if "lit" in e]
        act["reassign"] = [names[i], rng.choice(passed) if passed and rng.random() < 0.8 else vj.enc(rng.choice(pools[i]))]
    return mk_act(act)


def mk_act(act):
    """source text + events of an activation probe (the oracle reads the structured `act`, never the text)"""
    out = []
    for f in act["flows"]:
        pn = [p["name"] for p in f["params"]]
        echo = ", ".join(["f=" + json.dumps(f["name"])] + [f"{x}=${x}" for x in pn])
        if act["variant"] == "ping":
            out.append('@loop("NEW")')
        out.append(render_sig(f["name"], f["params"], []))
        out.append(f"  send In({echo})")
        if act["variant"] == "ping":
            out += ["  match Ping()", f"  send Out({echo})"]
        else:
            if act.get("reassign"):
                out.append(f"  ${act['reassign'][0]} = {render_val(vj.dec(act['reassign'][1]))}")
            out.append("  match Never()")
        out.append("")
    mv = [f"  ${k} = {render_val(vj.dec(v))}" for k, v in act["mvars"]]

    def lines(lo, hi):
        ls = []
        for ci in range(lo, hi):
            ls.append("  " + render_stmt(dict(act["calls"][ci], op="call", ret=None)))
            ls.append(f"  send Done(i={ci})")
        return ls

    split, ncalls = act["split"], len(act["calls"])
    if split < ncalls:
        out += ["flow hb"] + mv + lines(split, ncalls) + ["  send Fin()", "  match Never()", ""]
    out += ["flow main"] + mv + lines(0, split)
    out += (["  start hb"] if split < ncalls else ["  send Fin()"]) + ["  match Never()"]
    return {"kind": "probe", "tmpl": "act-" + act["variant"], "src": "\n".join(out) + "\n", "events": [{"type": "Ping"}] * act["pings"], "act": act}


# --- ref (fn level): the lookup `_get_reference_activated_flow_instance` and the StartFlow decision built on it, on states
#     assembled from the real `create_flow_instance` / `add_new_flow_instance` / `_start_flow`: 0-4 instances of one flow
#     created by arbitrary calls (k positionals / named / omitted; values from small per-parameter pools so that equal and
#     different values meet; Python-equal values of different type, dicts/sets in another order), activation counter 0/1/2,
#     parent = main / gone / None / an instance of the same flow (restarted child); the query call likewise (also with a
#     named/positional clash, `activated` = True / 1 / False / missing) issued by main / by an instance of the same flow
#     (restart) / by a finished flow.  Model: `refActivated` / `startDecision` on the instances the MODEL's
#     `createFlowInstance` makes from the same calls.

REF_VALS = [None, True, False, 0, 1, 1.0, 2, 7, "x", "", 1.5, [1, 2], [1, True], [], {"k": 1, "j": 2}, {"j": 2, "k": 1}, {"k": 1}, {1, 2}, {2, 7}]


def g_ref_call(rng, names, pools, allow_clash=False):
    n = len(names)
    k = rng.choice([0, 0, 0, 1, 1, 2, 3])
    k = min(k, n)
    pos = [rng.choice(pools[i]) for i in range(k)]
    named = [[nm, rng.choice(pools[i])] for i, nm in enumerate(names) if i >= k and rng.random() < 0.45]
    if allow_clash and k and rng.random() < 0.08:
        i = rng.randrange(k)
        named.append([names[i], rng.choice(pools[i])])
    rng.shuffle(named)
    return {"pos": [vj.enc(v) for v in pos], "named": [[k_, vj.enc(v)] for k_, v in named]}


def g_ref(rng):
    n = rng.choice([1, 1, 2, 2, 3])
    names = rng.sample(PNAMES, n)
    pools, params = [], []
    for nm in names:
        pool = rng.sample(REF_VALS, rng.choice([2, 2, 3]))
        has_d = rng.random() < 0.65
        d = rng.choice(pool) if rng.random() < 0.8 else rng.choice(REF_VALS)
        if isinstance(d, set) and not d:
            d = {1, 2}
        params.append({"name": nm, "default": lit(d) if has_d else None})
        pools.append(pool + ([d] if has_d else [None]))
    insts = []
    for _ in range(rng.choice([0, 1, 1, 2, 2, 3, 4])):
        insts.append(dict(g_ref_call(rng, names, pools), activated=rng.choice([1, 1, 1, 1, 2, 0]),
                          parent=rng.choice(["main"] * 8 + ["gone", "none", "same"])))
    q = g_ref_call(rng, names, pools, allow_clash=True)
    q["activated"] = rng.choice([True] * 8 + [1, False, "missing"])
    src = rng.choice(["main"] * 6 + ["child", "child", "done"])
    if src == "child" and not insts:
        src = "main"
    q["src"] = src
    q["src_inst"] = rng.randrange(len(insts)) if src == "child" else None
    return {"kind": "ref", "params": params, "insts": insts, "query": q}


def _ref_user_ev(call):
    ev = [[f"${i}", v] for i, v in enumerate(call["pos"])]
    for k, v in call["named"]:
        hit = [kv for kv in ev if kv[0] == arg_key(k)]
        if hit:
            hit[0][1] = v
        else:
            ev.append([arg_key(k), v])
    return ev


# --- probes: the second REACH of a call statement.  A call inside a `while` body is executed once per iteration with
#     arguments that depend on the loop variable / on locals re-assigned in the loop: every iteration's instance must be bound
#     to THAT iteration's values (arguments evaluated in the caller at the time of the call, defaults per call) and every
#     `$x = await f(..)` must capture THAT iteration's return value.  Forms: await with capture, start, activate (distinct
#     values per iteration: distinct activations), a waiting callee resumed after the loop in random order (and restarted
#     when activated).

def g_loop_probe(rng):
    n_it = rng.choice([2, 2, 3, 4])
    down = rng.random() < 0.3
    d = rng.choice(["d", 7, None, [1, 2], {"k": 1}, False])
    ret_kind = rng.choice(["ab", "ab", "a", "b1"])
    ret_src = {"ab": "[$a, $b]", "a": "$a", "b1": "[$b]"}[ret_kind]
    ivals = list(range(n_it, 0, -1)) if down else list(range(n_it))
    # argument shapes: (source text with $i / $w, function of (i) giving (a, b))
    shapes = [("$i", lambda i: (i, d)), ("a=$i", lambda i: (i, d)), ("$i, [$i, \"k\"]", lambda i: (i, [i, "k"])), ("$i, b=$i", lambda i: (i, i)),
              ("b=\"c\", a=$i", lambda i: (i, "c")), ("$w", lambda i: ([i, "w"], d)), ("$i, $w", lambda i: (i, [i, "w"])), ("$i * 10", lambda i: (i * 10, d)),
              ("a=$i, b=$w", lambda i: (i, [i, "w"]))]
    items = []
    if rng.random() < 0.85:
        items.append(("await",) + rng.choice(shapes))
    waiter = None
    if rng.random() < 0.7 or not items:
        waiter = (rng.choice(["start", "activate"]),) + rng.choice([s_ for s_ in shapes if not s_[0].startswith("$w")])
        items.append(waiter)
    if rng.random() < 0.3:
        items.append(("await",) + rng.choice(shapes))
    rng.shuffle(items)
    src = [f"flow fa $a $b={render_val(d)}", "  send In(a=$a, b=$b)", "  $v = [$a, \"loc\"]", f"  return {ret_src}", "",
           f"flow fw $a $b={render_val(d)}", "  send InW(a=$a, b=$b)", "  match Go(a=$a)", "  send Late(a=$a, b=$b)", "",
           "flow main", f"  $i = {ivals[0]}", "  $x = \"none\"", "  $v = \"mine\"",
           f"  while $i {'> 0' if down else '< ' + str(n_it)}", "    $w = [$i, \"w\"]"]
    for form, a_src, _ in items:
        if form == "await":
            src += [f"    $x = await fa({a_src})", "    send Got(i=$i, x=$x, v=$v)"]
        else:
            src.append(f"    {form} fw({a_src})")
    src += [f"    $i = $i {'- 1' if down else '+ 1'}", "  send Fin(i=$i, x=$x, v=$v)", "  match Never()"]
    expect, x = [], "none"
    for i in ivals:
        for form, _, fn in items:
            a, b = fn(i)
            if form == "await":
                x = {"ab": [a, b], "a": a, "b1": [b]}[ret_kind]
                expect += [["In", {"a": a, "b": b}], ["Got", {"i": i, "x": x, "v": "mine"}]]
            else:
                expect.append(["InW", {"a": a, "b": b}])
    expect.append(["Fin", {"i": (0 if down else n_it), "x": x, "v": "mine"}])
    events = []
    if waiter:
        order = list(ivals)
        rng.shuffle(order)
        for i in order[:rng.choice([1, 2, len(order)])]:
            a, b = waiter[2](i)
            events.append({"type": "Go", "a": a})
            expect.append(["Late", {"a": a, "b": b}])
            if waiter[0] == "activate":
                expect.append(["InW", {"a": a, "b": b}])
    return {"kind": "probe", "tmpl": "loop:" + "+".join(sorted({it[0] for it in items})), "src": "\n".join(src) + "\n", "events": events, "expect": expect}


def gen_cases(rng, tier):
    global _TIER
    _TIER = tier
    n_fn, n_e2e, n_probe = (5000, 300, 60) if tier == "quick" else (200000, 10000, 1000)
    n_act, n_ref, n_loop = (300, 1250, 120) if tier == "quick" else (2000, 20000, 600)
    cases = enum_fn_shapes(3)
    cases += [g_fn(rng) for _ in range(n_fn)]
    cases += [g_fn_big(rng) for _ in range(100 if tier == "quick" else 2000)]
    modes = [None] * 12 + ["clash", "clash", "surplus", "unknown-named", "dup-named", "reserved"]
    cases += [g_prog(rng, rng.choice(modes)) for _ in range(n_e2e)]
    cases += [g_hist(rng, passed=rng.random() < 0.15) for _ in range(n_e2e if tier == "quick" else n_e2e // 2)]
    cases += [g_probe(rng) for _ in range(n_probe)]
    cases += [g_when_probe(rng) for _ in range(2 * n_probe)]
    cases += [g_restart_probe(rng) for _ in range(n_probe)]
    cases += [g_act_probe(rng) for _ in range(n_act)]
    cases += [g_ref(rng) for _ in range(n_ref)]
    cases += [g_loop_probe(rng) for _ in range(n_loop)]
    return cases


# ----------------------------------------------------------------------------- implementation

_SM = None


def worker_init():
    global _SM
    import logging

    from nemoguardrails.colang.v2_x.runtime import statemachine as sm

    logging.disable(logging.CRITICAL)
    _SM = sm


def _build(src):
    from nemoguardrails.colang import parse_colang_file
    from nemoguardrails.colang.v2_x.runtime.flows import State
    from nemoguardrails.colang.v2_x.runtime.runtime import create_flow_configs_from_flow_list

    cfg = create_flow_configs_from_flow_list(parse_colang_file(filename="", content=src, include_source_mapping=False, version="2.x")["flows"])
    st = State(flow_states=[], flow_configs=cfg)
    _SM.initialize_state(st)
    return st


def _exc_name(e):
    msg = str(e)
    if "Context cannot be shared" in msg:
        return "ctxShared"
    if "To many parameters" in msg:
        return "tooMany"
    if isinstance(e, KeyError):
        return "keyError"
    return "other:" + type(e).__name__


def _items(d, main_uid=None):
    out = []
    for k, v in d.items():
        if main_uid is not None and v == main_uid:
            v = "@main"
        try:
            out.append([k, canon_j(vj.enc(v))])
        except ValueError:
            out.append([k, {"s": "<" + type(v).__name__ + ">"}])
    return out


def _visible(d):
    return {k: v for k, v in d.items() if not k.startswith("_") or k.startswith("_global_") or k == "_return_value"}


def run_fn(case):
    sm = _SM
    src = render_sig("f", case["params"], case["rets"]) + "\n  match Never()\n\nflow main\n  match Never()\n"
    obs = {"src": src}
    try:
        with contextlib.redirect_stdout(io.StringIO()):
            st = _build(src)
    except Exception as e:  # noqa
        obs["skip"] = "parse:" + type(e).__name__
        return obs
    main_uid = st.main_flow_state.uid
    ev = {k: (main_uid if v == {"s": "@main"} else vj.dec(v)) for k, v in case["ev"]}
    try:
        fs = sm.create_flow_instance(st.flow_configs["f"], "(f)u1", "0.1", ev)
    except Exception as e:  # noqa
        obs["create"] = {"res": "err", "err": _exc_name(e)}
        return obs
    obs["create"] = {"res": "ok", "arguments": _items(fs.arguments, main_uid), "context": _items(fs.context, main_uid)}
    try:
        sm.add_new_flow_instance(st, fs)
        sm._start_flow(st, fs, ev)
    except Exception as e:  # noqa
        obs["start"] = {"res": "err", "err": _exc_name(e)}
        return obs
    obs["start"] = {"res": "ok", "context": _items(fs.context, main_uid), "finished": _items(fs.finished_event([]).arguments, main_uid)}
    return obs


def _clean_event(e):
    return [e.get("type"), {k: _enc_safe(v) for k, v in e.items() if k not in ("type", "uid", "event_created_at", "source_uid")}]


def _enc_safe(v):
    try:
        return canon_j(vj.enc(v))
    except ValueError:
        return {"s": "<" + type(v).__name__ + ">"}


CASE_TIMEOUT_S = 20


class _SnapList(list):
    """`state.outgoing_events`: an emitted event is observed with the argument values it has when it is emitted (the
    event dict refers to the very objects the flow's variables hold; a later in-place mutation must not rewrite what
    was observed)"""

    def append(self, e):
        try:
            e = copy.deepcopy(e)
        except Exception:  # noqa — an argument that cannot be copied is kept as it is
            pass
        super().append(e)


def canon_j(j):
    """encoded value with sets in a canonical element order (iteration order of a hash set is not part of any contract)"""
    if isinstance(j, dict):
        if "S" in j:
            return {"S": sorted((canon_j(x) for x in j["S"]), key=lambda x: json.dumps(x, sort_keys=True))}
        if "l" in j:
            return {"l": [canon_j(x) for x in j["l"]]}
        if "d" in j:
            return {"d": [[k, canon_j(v)] for k, v in j["d"]]}
    return j


class _Timeout(BaseException):
    """run_to_completion did not return (never a verdict by itself: reported through `exc: timeout`)"""


def run_prog(src, events):
    sm = _SM
    from nemoguardrails.colang.v2_x.runtime.flows import InternalEvent

    obs = {"src": src}
    try:
        with contextlib.redirect_stdout(io.StringIO()):
            st = _build(src)
    except Exception as e:  # noqa
        obs["skip"] = "parse:" + type(e).__name__ + ":" + str(e)[:80]
        return obs
    out = []
    st.outgoing_events = _SnapList()
    entries = []
    orig_start = sm._start_flow

    start_errors = []

    def start_flow_spy(state, flow_state, event_arguments):
        # what the callee sees when it starts: its context right after `_start_flow` (values copied at that moment)
        try:
            orig_start(state, flow_state, event_arguments)
        except Exception as e:  # noqa
            # the error class raised by `_start_flow` is what is compared with the model's `error:…` outcome — whether the exception
            # then leaves run_to_completion or is contained by `_handle_event_matching` (ColangError, the new instance fails:
            # fixes/C10-handle-match-error-contained.diff)
            start_errors.append(_exc_name(e))
            raise
        if flow_state.flow_id != "main":
            try:
                entries.append([flow_state.flow_id, _items(copy.deepcopy(_visible(flow_state.context)))])
            except Exception:  # noqa
                entries.append([flow_state.flow_id, [["<uncopyable>", None]]])

    sm._start_flow = start_flow_spy

    def on_alarm(signum, frame):
        raise _Timeout()

    old_handler = signal.signal(signal.SIGALRM, on_alarm)
    old_left = signal.alarm(CASE_TIMEOUT_S)
    try:
        with contextlib.redirect_stdout(io.StringIO()), contextlib.redirect_stderr(io.StringIO()):
            sm.run_to_completion(st, InternalEvent(name="StartFlow", arguments={"flow_id": "main"}))
            out += list(st.outgoing_events)
            for e in events:
                st.outgoing_events.clear()
                sm.run_to_completion(st, copy.deepcopy(e))
                out += list(st.outgoing_events)
    except _Timeout:
        obs["exc"] = "timeout"
    except Exception as e:  # noqa
        obs["exc"] = _exc_name(e)
    finally:
        signal.alarm(0)
        signal.signal(signal.SIGALRM, old_handler)
        sm._start_flow = orig_start
        if old_left:
            signal.alarm(max(1, old_left - 1))
    if "exc" not in obs and start_errors:
        obs["exc"] = start_errors[0]
        obs["exc_contained"] = True
    obs["entries"] = entries
    obs["out"] = [_clean_event(e) for e in out]
    obs["insts"] = [[fs.flow_id, _items(_visible(fs.context))] for fs in st.flow_states.values()]
    obs["globals"] = _items(st.context)
    return obs


def _isolated(src, events):
    """run one program in a forked child of this worker.  The worker itself never executes a program, so every program
    starts from the process state left by the imports alone: module-level state of the code under test (caches,
    registries — e.g. a memoised default value polluted by an earlier program) cannot carry over from one case to the
    next, and a replay file reproduces in a fresh process exactly what the search saw."""
    import os

    r, w = os.pipe()
    pid = os.fork()
    if pid == 0:
        code = 1
        try:
            os.close(r)
            data = json.dumps(run_prog(src, events)).encode()
            with os.fdopen(w, "wb") as fh:
                fh.write(data)
            code = 0
        finally:
            os._exit(code)
    os.close(w)
    with os.fdopen(r, "rb") as fh:
        data = fh.read()
    os.waitpid(pid, 0)
    if not data:
        return {"src": src, "exc": "other:child-died", "out": [], "insts": [], "globals": []}
    return json.loads(data)


def _mutates(case):
    """does the program mutate a value in place?  Only such a program can change an object that the code under test
    keeps at module level (a memoised default, …) — those run isolated; a program without in-place mutation cannot leave
    anything behind and runs in the worker itself (a fork of a worker costs ~20 ms)"""
    if case["kind"] == "e2e":
        p = case["prog"]
        return any(s_["op"] == "mut" for b in [p["main"]] + [f["body"] for f in p["flows"]] for s_ in b)
    return case["kind"] == "probe" and (case["tmpl"].startswith(("inplace-", "restart-")) or ".append(" in case["src"] or ".update(" in case["src"])


def run_ref(case):
    """real `_get_reference_activated_flow_instance`, then real `_process_internal_events_without_default_matchers` for the
    StartFlow event, on a state assembled by the real constructor functions"""
    sm = _SM
    from nemoguardrails.colang.v2_x.runtime.flows import FlowStatus, InternalEvent

    src = render_sig("f", case["params"], []) + "\n  match Never()\n\nflow g\n  match Never()\n\nflow main\n  match Never()\n"
    obs = {"src": src}
    try:
        with contextlib.redirect_stdout(io.StringIO()):
            st = _build(src)
    except Exception as e:  # noqa
        obs["skip"] = "parse:" + type(e).__name__
        return obs
    main_uid = st.main_flow_state.uid

    def mk(flow, uid, call, source_uid, activated):
        ev = {k: vj.dec(v) for k, v in _ref_user_ev(call)}
        ev.update({"flow_id": flow, "flow_instance_uid": uid, "source_flow_instance_uid": source_uid, "source_head_uid": "h1",
                   "flow_hierarchy_position": "0.1"})
        if activated != "missing":
            ev["activated"] = activated
        return ev

    fss = []
    try:
        for i, inst in enumerate(case["insts"]):
            ev = mk("f", "(f)u%d" % i, inst, main_uid, True)
            fs = sm.create_flow_instance(st.flow_configs["f"], ev["flow_instance_uid"], "0.1", ev)
            sm.add_new_flow_instance(st, fs)
            sm._start_flow(st, fs, ev)
            fss.append(fs)
        for fs, inst in zip(fss, case["insts"]):
            fs.activated = inst["activated"]
            fs.parent_uid = {"main": main_uid, "gone": "(g)gone", "none": None, "same": fss[0].uid}[inst["parent"]]
    except Exception as e:  # noqa
        obs["skip"] = "setup:" + _exc_name(e)
        return obs
    q = case["query"]
    source_uid = main_uid
    if q["src"] == "child":
        source_uid = fss[q["src_inst"]].uid
    elif q["src"] == "done":
        gev = mk("g", "(g)u9", {"pos": [], "named": []}, main_uid, "missing")
        gs = sm.create_flow_instance(st.flow_configs["g"], "(g)u9", "0.2", gev)
        sm.add_new_flow_instance(st, gs)
        sm._start_flow(st, gs, gev)
        gs.status = FlowStatus.FINISHED
        source_uid = gs.uid
    qev = mk("f", "(f)q", q, source_uid, q["activated"])
    known = "f" in st.flow_id_states
    obs["known"] = known
    ids = [id(fs) for fs in st.flow_id_states.get("f", [])]
    if known:
        try:
            r = sm._get_reference_activated_flow_instance(st, InternalEvent(name="StartFlow", arguments=dict(qev)))
            obs["ref"] = None if r is None else ids.index(id(r))
        except Exception as e:  # noqa
            obs["ref"] = "err:" + _exc_name(e)
    before = [fs.activated for fs in fss]
    event = InternalEvent(name="StartFlow", arguments=dict(qev))
    try:
        sm._process_internal_events_without_default_matchers(st, event)
        now = st.flow_id_states.get("f", [])
        if len(now) > len(ids):
            # (whose child the new instance becomes: index of the f-instance named as source after the branch, None = not an f-instance)
            su = event.arguments["source_flow_instance_uid"]
            uids = [fs.uid for fs in fss]
            obs["decision"] = ["create", uids.index(su) if su in uids else None]
            new = now[-1]
            sm._start_flow(st, new, event.arguments)   # what the interpreter does next with the new instance
            obs["new_params"] = [[p["name"], _enc_safe(new.context.get(p["name"]))] for p in case["params"]]
        else:
            bumped = [i for i, fs in enumerate(fss) if fs.activated != before[i]]
            obs["decision"] = ["reuse", bumped[0]] if len(bumped) == 1 and fss[bumped[0]].activated == before[bumped[0]] + 1 else \
                ("ignored" if not bumped else "other:" + json.dumps(bumped))
        # `state.flow_id_states[f]` after the step: activation counter and `arguments` (ordered) of every instance
        obs["after"] = [[int(fs.activated), _items(fs.arguments, source_uid)] for fs in st.flow_id_states.get("f", [])]
    except Exception as e:  # noqa
        obs["decision"] = "err:" + _exc_name(e)
    return obs


_TIER = None  # set by gen_cases in the parent before the worker pool is forked


def run_impl(case):
    if case["kind"] == "fn":
        return run_fn(case)
    if case["kind"] == "ref":
        return run_ref(case)
    # quick tier / replay / shrinking: EVERY program runs isolated (a replay must reproduce in a fresh process whatever
    # module-level state an earlier program left in the code under test); thorough tier: the programs that mutate in place
    iso = _TIER != "thorough" or _mutates(case)
    if case["kind"] == "e2e":
        return (_isolated if iso else run_prog)(render_prog(case["prog"]), [])
    if case["kind"] == "probe":
        return (_isolated if iso else run_prog)(case["src"], case["events"])
    raise ValueError(case["kind"])


# ----------------------------------------------------------------------------- model

def _fuel(prog):
    return 40 + 20 * (len(prog["main"]) + sum(len(f["body"]) for f in prog["flows"])) ** 2


def model_requests(case, obs):
    if "skip" in obs:
        return []
    if case["kind"] == "fn":
        return [{"m": "C08.bind", "params": case["params"], "rets": case["rets"], "ev": case["ev"], "main": False, "asis": not REPAIRED}]
    if case["kind"] == "ref":
        if not REPAIRED:   # the lookup is modelled with the repaired argument keys only
            return []
        q = case["query"]
        base = [["flow_id", {"s": "f"}], ["flow_instance_uid", {"s": "(f)u"}], ["source_flow_instance_uid", {"s": "@src"}],
                ["source_head_uid", {"s": "h1"}], ["flow_hierarchy_position", {"s": "0.1"}]]

        def full(call, activated):
            ev = _ref_user_ev(call) + base
            return ev + ([] if activated == "missing" else [["activated", vj.enc(activated)]])

        insts = [{"ev": full(i_, True), "activated": i_["activated"], "parentAlive": i_["parent"] in ("main", "same"),
                  "parentSame": i_["parent"] == "same"} for i_ in case["insts"]]
        srcj = {"main": {"flow": "main", "done": False, "activated": 1}, "done": {"flow": "g", "done": True, "activated": 0},
                "child": {"flow": "f", "done": False, "activated": case["insts"][q["src_inst"]]["activated"] if q["src"] == "child" else 0}}[q["src"]]
        return [{"m": "C08.refact", "params": case["params"], "insts": insts, "ev": full(q, q["activated"]), "src": srcj, "known": obs["known"]}]
    if case["kind"] == "e2e" and case.get("mode", "").startswith("hist"):
        # in-place mutation: only the heap interpreter models it
        p = case["prog"]
        return [{"m": "C08.hexec", "flows": p["flows"], "main": p["main"], "fuel": _fuel(p)}]
    if case["kind"] == "e2e":
        p = case["prog"]
        return [{"m": "C08.exec", "flows": p["flows"], "main": p["main"], "fuel": _fuel(p)},
                {"m": "C08.hexec", "flows": p["flows"], "main": p["main"], "fuel": _fuel(p)}]
    return []


def _strip_uids(items):
    """values derived from runtime uids differ by construction (model `#n`, impl uuid): blank them"""
    out = []
    for k, v in items:
        if isinstance(v, dict) and "s" in v and (v["s"].startswith("#") or v["s"].startswith("(")):
            v = {"s": "<uid>"}
        out.append([k, v])
    return out


def compare(case, obs, mouts):
    m = mouts[0]
    if case["kind"] == "fn":
        if obs["create"]["res"] == "err" or m["create"]["res"] == "err":
            return None if obs["create"] == m["create"] else f"create_flow_instance: impl {obs['create']} model {m['create']}"
        for fld in ("arguments", "context"):
            if obs["create"][fld] != m["create"][fld]:
                return f"create_flow_instance.{fld}: impl {obs['create'][fld]} model {m['create'][fld]}"
        so, smo = obs.get("start"), m.get("start")
        if so["res"] == "err" or smo["res"] == "err":
            return None if so == smo else f"_start_flow: impl {so} model {smo}"
        if so["context"] != smo["context"]:
            return f"_start_flow context: impl {so['context']} model {smo['context']}"
        fi = [kv for kv in so["finished"] if kv[0] not in ("source_flow_instance_uid", "flow_instance_uid")]
        fm = [kv for kv in smo["finished"] if kv[0] not in ("source_flow_instance_uid", "flow_instance_uid")]
        if fi != fm:
            return f"finished_event arguments: impl {fi} model {fm}"
        return None
    if case["kind"] == "ref":
        if obs.get("known") and obs.get("ref") != m["ref"] and case["query"]["activated"] != "missing":
            return f"_get_reference_activated_flow_instance: impl {obs.get('ref')} model {m['ref']}"
        md = m["decision"]
        if isinstance(md, list) and md[0] == "create" and md[1] is None and case["query"]["src"] == "child":
            md = ["create", case["query"]["src_inst"]]   # not re-parented: the source stays the requesting f-instance
        if obs["decision"] != md:
            return f"StartFlow decision: impl {obs['decision']} model {md}"
        q = case["query"]
        if q["src"] == "main" and q["activated"] is True and "after" in obs and isinstance(m.get("after"), list):
            # the whole step (`activateStepEv`): counters and the arguments every instance was started with
            norm = lambda l: [[a, [kv for kv in _strip_uids([[k, canon_j(v)] for k, v in items]) if kv[0] != "source_flow_instance_uid"]] for a, items in l]  # noqa
            if norm(obs["after"]) != norm(m["after"]):
                return f"instances after the StartFlow step: impl {norm(obs['after'])} model {norm(m['after'])}"
        return None
    # e2e: every model output (value interpreter `exec`, heap interpreter `hexec`) against the real run
    for which, m in zip(("exec", "hexec") if len(mouts) == 2 else ("hexec",), mouts):
        d = _compare_e2e(obs, m)
        if d:
            return which + ": " + d
    return None


def _canon_items(items):
    return [[k, canon_j(v)] for k, v in items if not (k.startswith("_") and not k.startswith("_global_") and k != "_return_value")]


def _compare_e2e(obs, m):
    oc = m["outcome"]
    if oc == "outOfFuel":
        return "model ran out of fuel (harness budget too small)"
    if oc.startswith("error"):
        # create_flow_instance/_start_flow raised inside run_to_completion: only the error class is compared
        return None if obs.get("exc") == oc.split(":", 1)[1] else f"model {oc}, impl exc={obs.get('exc')} out={obs['out']}"
    if "exc" in obs:
        return f"impl raised {obs['exc']}, model outcome {oc}"
    if oc == "failed":
        return None  # caller failed on a missing return value / a raising method call: the failure path (main restart) is outside the fragment
    mo = [[n, {k: canon_j(v) for k, v in args}] for n, args in m["out"]]
    io_ = [[n, {k: v for k, v in _strip_uids(list(a.items()))}] for n, a in obs["out"]]
    mo = [[n, {k: v for k, v in _strip_uids(list(a.items()))}] for n, a in mo]
    if io_ != mo:
        return f"emitted events differ: impl {io_} model {mo}"
    mi = [[fid, _strip_uids(_canon_items(ctx))] for _, fid, ctx in m["insts"]]
    ii = [[fid, _strip_uids(ctx)] for fid, ctx in obs["insts"]]
    if ii != mi:
        return f"instance contexts differ: impl {ii} model {mi}"
    if obs["globals"] != _canon_items(m["globals"]):
        return f"global context differs: impl {obs['globals']} model {m['globals']}"
    if "entries" in m:
        # per call: the callee's ENTRY context (all parameter variables and return members, no `$0..` keys, no leftovers)
        me = [[fid, _strip_uids(_canon_items(ctx))] for _, fid, ctx in m["entries"]]
        ie = [[fid, _strip_uids(ctx)] for fid, ctx in obs.get("entries", [])]
        if ie != me:
            return f"callee entry contexts differ: impl {ie} model {me}"
    return None


# ----------------------------------------------------------------------------- oracle (property statement)

class _NoExpectation(Exception):
    """the statement does not say what happens here (surplus / clash / unknown name / missing return …)"""


def spec_eval(e, env, genv, gdecl, share=False):
    """value of an expression.  Default (`share=False`) is VALUE semantics: reading a variable yields a private copy, so
    every instance owns what its variables hold (the statement: parameters receive *values*, locals are private).
    `share=True` is the reference semantics of the code as it is (used only to classify a failure as the open finding
    `inplace-mutation-of-passed-container`): lists/sets are passed as the object, a dict variable as a shallow copy."""
    if "lit" in e:
        return vj.dec(e["lit"])
    if "var" in e:
        x = e["var"]
        v = genv.get(x) if x in gdecl else env.get(x)
        if share:
            return dict(v) if isinstance(v, dict) else v
        return copy.deepcopy(v)
    if "l1" in e:
        return [spec_eval(e["l1"], env, genv, gdecl, share)]
    if "d1" in e:
        return {e["d1"][0]: spec_eval(e["d1"][1], env, genv, gdecl, share)}
    return [spec_eval(e["l2"][0], env, genv, gdecl, share), spec_eval(e["l2"][1], env, genv, gdecl, share)]


def _vars(exprs):
    out = set()
    for e in exprs:
        if "var" in e:
            out.add(e["var"])
        elif "l1" in e:
            out |= _vars([e["l1"]])
        elif "d1" in e:
            out |= _vars([e["d1"][1]])
        elif "l2" in e:
            out |= _vars(e["l2"])
    return out


def spec_bind(params, pos_vals, named_vals):
    """The property text: parameter i := positional i | named | declared default | None."""
    names = [p["name"] for p in params]
    if len(set(names)) != len(names):
        raise _NoExpectation("repeated parameter name")
    if len(pos_vals) > len(params) or any(k not in names for k in named_vals) or any(nm in named_vals for nm in names[:len(pos_vals)]):
        raise _NoExpectation("call shape outside the statement")
    if any(nm in RESERVED or nm == "context" for nm in names):
        pass  # the statement makes no exception for these names: expectation stands (open finding)
    env = {}
    for i, p in enumerate(params):
        if i < len(pos_vals):
            env[p["name"]] = pos_vals[i]
        elif p["name"] in named_vals:
            env[p["name"]] = named_vals[p["name"]]
        elif p.get("default") is not None:
            env[p["name"]] = spec_eval(p["default"], {}, {}, set())  # a default is a declaration-site constant
        else:
            env[p["name"]] = None
    return env


def _is_container(v):
    return isinstance(v, (list, dict, set))


def _still_matches(ref, now):
    """the documented partial-match rule for event arguments: list = prefix, dict = sub-dict, set = subset"""
    if isinstance(ref, list):
        return isinstance(now, list) and len(ref) <= len(now) and all(_still_matches(r, n) for r, n in zip(ref, now))
    if isinstance(ref, dict):
        return isinstance(now, dict) and all(k in now and _still_matches(v, now[k]) for k, v in ref.items())
    if isinstance(ref, (set, frozenset)):
        return isinstance(now, (set, frozenset)) and ref <= now
    return type(ref) is type(now) and ref == now


def spec_run(prog, share=False):
    """expected emitted events (values as they are when the event is sent), final variables per instance (creation
    order), globals"""
    flows = {f["name"]: f for f in prog["flows"]}
    out, insts, genv = [], [], {}

    def ev(e, env, gdecl):
        return spec_eval(e, env, genv, gdecl, share)

    def run(body, env, gdecl, fname):
        rec = [fname, env, gdecl]
        insts.append(rec)
        return cont(body, env, gdecl)

    def cont(body, env, gdecl):
        for st in body:
            op = st["op"]
            if op == "assign":
                v = ev(st["e"], env, gdecl)
                if st["key"] in gdecl:
                    genv[st["key"]] = v
                else:
                    env[st["key"]] = v
            elif op == "mut":
                # in-place mutation of the value the instance's own variable holds (Python's container methods)
                x = st["var"]
                obj = genv.get(x) if x in gdecl else env.get(x)
                try:
                    for k in st["path"]:
                        obj = obj[k]
                    res = getattr(obj, st["meth"])(*[ev(a, env, gdecl) for a in st["args"]])
                except Exception as e:  # noqa — type error / missing key: the statement says nothing
                    raise _NoExpectation("mutation raises " + type(e).__name__)
                res = res if share else copy.deepcopy(res)
                key = st.get("ret") or "_"
                if key in gdecl:
                    genv[key] = res
                else:
                    env[key] = res
            elif op == "global":
                gdecl.add(st["name"])
                genv.setdefault(st["name"], None)
            elif op == "ret":
                return ("ret", ev(st["e"], env, gdecl))
            elif op == "send":
                out.append([st["name"], {k: copy.deepcopy(ev(e, env, gdecl)) for k, e in st["args"]}])
            elif op == "block":
                return ("block", None)
            elif op == "call":
                f = flows[st["flow"]]
                pv = [ev(e, env, gdecl) for e in st["pos"]]
                nv = {}
                for k, e in st["named"]:
                    if k in nv:
                        raise _NoExpectation("duplicate named argument")
                    nv[k] = ev(e, env, gdecl)
                cenv = spec_bind(f["params"], pv, nv)
                for r in f.get("rets", []):  # return members: declared default (or None), a variable of the callee
                    if r["name"] not in cenv:
                        cenv[r["name"]] = spec_eval(r["default"], {}, {}, set()) if r.get("default") is not None else None
                # the objects bound to SUPPLIED parameters, and what the caller supplied
                sup = [(cenv[p["name"]], copy.deepcopy(cenv[p["name"]])) for i, p in enumerate(f["params"])
                       if (i < len(pv) or p["name"] in nv) and _is_container(cenv[p["name"]])]
                gused = {x: vj.enc(genv.get(x)) for x in _vars(st["pos"] + [e for _, e in st["named"]]) if x in gdecl}
                res = run(f["body"], cenv, set(), f["name"])
                if not share and any(not _still_matches(orig, now) for now, orig in sup):
                    # the caller's FlowStarted pattern (its call arguments) is matched after the callee's synchronous run
                    # against the event that refers to the callee's objects: a supplied container the callee mutated so
                    # that the supplied value no longer partially matches it leaves the caller waiting (hand-shake quirk;
                    # progress is not part of the statement, the model mirrors it)
                    raise _NoExpectation("supplied container argument mutated before the hand-shake")
                if any(vj.enc(genv.get(x)) != v for x, v in gused.items()):  # type-sensitive: True -> 1 is a change
                    # the callee re-assigned a global that the call passes as an argument: the caller's FlowStarted
                    # pattern is re-evaluated with the new value and the caller never resumes — progress is not part of
                    # the statement (design_notes: hand-shake quirk), the model mirrors it
                    raise _NoExpectation("global argument re-assigned by the callee")
                if st["form"] == "await":
                    if res[0] == "block":
                        return res
                    if st.get("ret"):
                        if res[0] != "ret":
                            raise _NoExpectation("callee has no return statement")
                        if st["ret"] in gdecl:
                            genv[st["ret"]] = res[1]
                        else:
                            env[st["ret"]] = res[1]
        return ("end", None)

    run(prog["main"], {}, set(), "main")
    return out, [[r[0], r[1], sorted(r[2])] for r in insts], genv


def _has_reserved(params):
    return any(p["name"] in RESERVED or p["name"] == "context" for p in params)


def _cenc(v):
    return canon_j(vj.enc(v))


def oracle_e2e(case, obs, share=False):
    try:
        eout, einsts, egl = spec_run(case["prog"], share)
    except _NoExpectation:
        return None
    if "exc" in obs:
        return f"run_to_completion raised {obs['exc']} on a program inside the statement"
    got = obs["out"]
    exp = [[n, {k: _cenc(v) for k, v in a.items()}] for n, a in eout]
    if got != exp:
        for i, (g, e) in enumerate(itertools.zip_longest(got, exp)):
            if g != e:
                return f"emitted event #{i}: expected {e} got {g}"
    # privacy: every instance ends with exactly the variables it bound/assigned itself
    gi = obs["insts"]
    if len(gi) != len(einsts):
        return f"{len(gi)} flow instances, expected {len(einsts)}"
    for idx, ((fid, ctx), (efid, eenv, egd)) in enumerate(zip(gi, einsts)):
        if fid != efid:
            return f"instance #{idx} is {fid}, expected {efid}"
        c = {k: v for k, v in ctx if not k.startswith("_")}
        e = {k: _cenc(v) for k, v in eenv.items() if not k.startswith("_")}
        if c != e:
            return f"instance #{idx} ({fid}) ends with variables {c}, expected {e}"
    gg = {k: v for k, v in obs["globals"]}
    eg = {k: _cenc(v) for k, v in egl.items()}
    if gg != eg:
        return f"global context {gg}, expected {eg}"
    return None


def act_tuples(act):
    """per call: (flow, the parameter values the STATEMENT gives that call) as a canonical key — positional | named |
    declared default | None, arguments evaluated in the caller"""
    flows = {f["name"]: f for f in act["flows"]}
    menv = {k: vj.dec(v) for k, v in act["mvars"]}
    keys = []
    for c in act["calls"]:
        params = flows[c["flow"]]["params"]
        env = spec_bind(params, [spec_eval(e, menv, {}, set()) for e in c["pos"]], {k: spec_eval(e, menv, {}, set()) for k, e in c["named"]})
        keys.append(json.dumps([c["flow"], [[p["name"], _cenc(env[p["name"]])] for p in params]], sort_keys=True))
    return keys


def oracle_act(case, obs):
    act = case["act"]
    flows = {f["name"]: f for f in act["flows"]}
    calls = act["calls"]
    n = len(calls)
    try:
        want = act_tuples(act)
    except _NoExpectation:
        return None
    out = obs["out"]

    def key(e):
        f = (e[1].get("f") or {}).get("s")
        if f not in flows:
            return json.dumps(["?", e[1]], sort_keys=True)
        return json.dumps([f, [[p["name"], e[1].get(p["name"])] for p in flows[f]["params"]]], sort_keys=True)

    first_out = next((i for i, e in enumerate(out) if e[0] == "Out"), len(out))
    ph0 = out[:first_out]
    done = [e[1].get("i") for e in ph0 if e[0] == "Done"]
    d = len(done)
    if done != [{"i": k} for k in range(d)]:
        return f"call markers {done}: not 0..{d - 1} in order"
    issued = min(d + 1, n)   # the call a caller is blocked in has been issued too
    import collections

    ins0 = collections.Counter(key(e) for e in ph0 if e[0] == "In")
    src_of = lambda ci: render_stmt(dict(calls[ci], op="call", ret=None))  # noqa
    for ci in range(issued):
        if ins0[want[ci]] == 0:
            return (f"call #{ci} `{src_of(ci)}`: no instance ran with the call's parameter values {want[ci]} "
                    f"(instances ran with {sorted(ins0)})")
    w_all = collections.Counter(want[:issued])
    w_start = collections.Counter(want[ci] for ci in range(issued) if calls[ci]["form"] != "activate")
    w_act = {want[ci] for ci in range(issued) if calls[ci]["form"] == "activate"}
    for t, c in ins0.items():
        if w_all[t] == 0:
            return f"an instance ran with parameter values no call has: {t}"
        if c > w_all[t]:
            return f"{c} instances ran with {t}, only {w_all[t]} calls have these values"
    for t in w_all:
        if ins0[t] < w_start[t] + (1 if t in w_act else 0):
            return f"{ins0[t]} instances ran with {t}: fewer than its `start` calls ({w_start[t]}) plus one for its activations"
    if d < n:
        # the caller did not get past call #d.  Progress is not in the statement where an `activate` with positional
        # arguments is served by an activation that an earlier call created with fewer positionals (FlowStarted of the
        # serving instance lacks `$i`: documented hand-shake quirk); everywhere else the caller has to continue
        c = calls[d]
        quirk = c["form"] == "activate" and c["pos"] and any(
            calls[j]["form"] == "activate" and want[j] == want[d] and len(calls[j]["pos"]) < len(c["pos"]) for j in range(d))
        if not quirk:
            return f"the caller did not continue after call #{d} `{src_of(d)}`"
    elif not any(e[0] == "Fin" for e in ph0):
        return "the caller did not reach its end (no Fin)"
    if act["pings"]:
        # every instance echoes once more per Ping with the values it was started with; an activated one restarts — on
        # behalf of the same call, so with the same values
        rest = ins0 - w_start
        exp_in = ins0 + collections.Counter({t: c * act["pings"] for t, c in rest.items()})
        exp_out = ins0 + collections.Counter({t: c * (act["pings"] - 1) for t, c in rest.items()})
        got_in = collections.Counter(key(e) for e in out if e[0] == "In")
        got_out = collections.Counter(key(e) for e in out if e[0] == "Out")
        if got_out != exp_out:
            return f"echoes after Ping: {sorted(got_out.items())}, expected {sorted(exp_out.items())}"
        if got_in != exp_in:
            return f"instances started (incl. restarts): {sorted(got_in.items())}, expected {sorted(exp_in.items())}"
    return None


def oracle_ref(case, obs):
    """the statement at the lookup: an `activate` call may be attached to a running activation only if EVERY parameter
    value the statement gives the call (positional | named | declared default | None) equals the value it gave the call
    that created that activation; a call issued by a live flow is never dropped"""
    q = case["query"]

    def vals(call):
        return spec_bind(case["params"], [vj.dec(v) for v in call["pos"]], _named_dict(call["named"]))

    try:
        want = vals(q)
    except _NoExpectation:
        return None
    for what, j in (("lookup", obs.get("ref")), ("decision", obs["decision"][1] if isinstance(obs["decision"], list) and obs["decision"][0] == "reuse" else None)):
        if isinstance(j, int) and not isinstance(j, bool):
            try:
                have = vals(case["insts"][j])
            except _NoExpectation:
                continue
            for p in case["params"]:
                if not (have[p["name"]] == want[p["name"]]):
                    return (f"{what}: the call is attached to running activation #{j} whose parameter ${p['name']} is "
                            f"{vj.enc(have[p['name']])}, the call's value is {vj.enc(want[p['name']])}")
    if q["src"] == "main" and q["activated"] is True:
        d = obs["decision"]
        if d == "ignored" or (isinstance(d, str) and d.startswith(("err", "other"))):
            return f"an activate call of a live flow: StartFlow decision {d}"
        if isinstance(d, list) and d[0] == "create":
            got = {k: v for k, v in obs.get("new_params", [])}
            for p in case["params"]:
                if got.get(p["name"]) != _cenc(want[p["name"]]):
                    return f"new instance: parameter ${p['name']} is {got.get(p['name'])}, the call's value is {_cenc(want[p['name']])}"
    return None


def _named_dict(named):
    d = {}
    for k, v in named:
        if k in d:
            raise _NoExpectation("duplicate named argument")
        d[k] = vj.dec(v)
    return d


def oracle(case, obs):
    if "skip" in obs:
        return None
    if case["kind"] == "fn":
        if case["how"] not in ("call",) or obs["create"]["res"] != "ok":
            if case["how"] == "call":
                return f"well-formed call rejected by create_flow_instance: {obs['create']}"
            return None
        ev = {k: v for k, v in case["ev"]}
        k = 0
        while f"${k}" in ev:
            k += 1
        names = [p["name"] for p in case["params"]]
        try:
            exp = spec_bind(case["params"], [vj.dec(ev[f"${i}"]) for i in range(k)],
                            {nm: vj.dec(ev[arg_key(nm)]) for nm in names if arg_key(nm) in ev})
        except _NoExpectation:
            return None
        if obs["start"]["res"] != "ok":
            return f"well-formed call rejected by _start_flow: {obs['start']}"
        got = {k_: v for k_, v in obs["start"]["context"]}
        for nm in names:
            if nm not in got:
                return f"parameter ${nm} is not in the callee's context"
            if got[nm] != vj.enc(exp[nm]):
                return f"parameter ${nm}: expected {vj.enc(exp[nm])} got {got[nm]}"
        return None
    if case["kind"] == "e2e":
        return oracle_e2e(case, obs)
    if case["kind"] == "ref":
        return oracle_ref(case, obs)
    # probe
    if "exc" in obs:
        return f"run_to_completion raised {obs['exc']}"
    if "act" in case:
        return oracle_act(case, obs)
    if case.get("expect") is not None:
        exp = [[n, {k: _cenc(v) for k, v in a.items()}] for n, a in case["expect"]]
        if obs["out"] != exp:
            return f"emitted events {obs['out']}, expected {exp}"
        return None
    for n, a in case["expect_vals"].items():
        ea = {k: vj.enc(v) for k, v in a.items()}
        hits = [g for g in obs["out"] if g[0] == n]
        if not hits:
            continue  # lost in conflict resolution: nothing to check
        if hits[0][1] != ea:
            return f"event {n}: {hits[0][1]}, expected {ea}"
    return None


def signature(case, obs, msg):
    # on a tree with the repair (flow_argument_key) the reserved-name region is ordinary: model and oracle apply in full
    if not REPAIRED and case["kind"] == "fn" and _has_reserved(case["params"]):
        return "reserved-parameter-name"
    if not REPAIRED and case["kind"] == "e2e" and any(_has_reserved(f["params"]) for f in case["prog"]["flows"]):
        return "reserved-parameter-name"
    if case["kind"] == "probe" and case["tmpl"].startswith("inplace-"):
        return "inplace-mutation-of-passed-container"
    if case["kind"] == "probe" and case["tmpl"].startswith("restart-inplace-omitted") and _restart_explained(case, obs):
        return "default-not-reevaluated-on-activated-restart"
    if case["kind"] == "probe" and case["tmpl"].startswith("restart-inplace-supplied") and _restart_explained(case, obs):
        # the restart hands the finished instance's argument OBJECT (the caller's list) to the next instance: the
        # passed-by-reference family
        return "inplace-mutation-of-passed-container"
    if case["kind"] == "e2e" and case.get("mode") == "hist-passed" and _passes_container(case["prog"]):
        # a container *variable* is passed (or a returned value is mutated by the caller) and what was observed is exactly
        # what sharing the passed object — and nothing else — explains: defaults fresh, everything not passed private
        if oracle_e2e(case, obs, share=True) is None:
            return "inplace-mutation-of-passed-container"
    return None


def _restart_explained(case, obs):
    """the observation is exactly what "the restarted instance is handed the finished instance's parameter OBJECTS" predicts
    (first instance correct — declared default / supplied value —, `$n` re-bound to its value every time, and each later
    instance's `$b` equal to what its predecessor left behind)"""
    out = obs.get("out", [])
    exp = case["expect"]
    if "exc" in obs or len(out) != len(exp) or not out:
        return False
    if out[0] != [exp[0][0], {k: _cenc(v) for k, v in exp[0][1].items()}]:
        return False
    if any(o[0] != "E" or o[1].get("n") != out[0][1].get("n") for o in out):
        return False
    return any(o[1].get("b") != out[0][1].get("b") for o in out[1:])


def _passes_container(prog):
    """is a bare variable passed as a call argument, or a captured return value mutated in place, somewhere?  (an
    OMITTED argument is not a passed container: a polluted default never gets the finding's signature)"""
    bodies = [prog["main"]] + [f["body"] for f in prog["flows"]]
    for f in prog["flows"]:
        # `return $g` of a variable the callee declared global hands the caller the shared global object itself (a later
        # in-place mutation of `$g` by anybody shows in the caller's captured variable, and vice versa)
        gl = {s_["name"] for s_ in f["body"] if s_["op"] == "global"}
        if any(s_["op"] == "ret" and s_["e"].get("var") in gl for s_ in f["body"]) and \
                any(s_["op"] == "call" and s_.get("ret") and s_["flow"] == f["name"] for b in bodies for s_ in b):
            return True
    for b in bodies:
        rets = {s_["ret"] for s_ in b if s_["op"] == "call" and s_.get("ret")}
        for s_ in b:
            if s_["op"] == "call" and any("var" in e for e in s_["pos"] + [e for _, e in s_["named"]]):
                return True
            if s_["op"] == "mut" and s_["var"] in rets:
                return True
    return False


def nontrivial(case, obs):
    if case["kind"] == "fn":
        return len(case["params"]) >= 1 and "skip" not in obs
    if case["kind"] == "ref":
        return "skip" not in obs and len(case["insts"]) >= 1
    if case["kind"] == "e2e":
        return any(s["op"] == "call" and (s["pos"] or s["named"] or s.get("ret")) for s in case["prog"]["main"]) or \
            (case.get("mode", "").startswith("hist") and sum(1 for s in case["prog"]["main"] if s["op"] == "call") >= 2)
    return True


def tags(case, obs):
    t = ["kind:" + case["kind"]]
    if "skip" in obs:
        t.append("skip:" + obs["skip"][:40])
        return t
    if case["kind"] == "fn":
        t.append("how:" + case["how"])
        t.append("n=%d" % len(case["params"]))
        t.append("k=%d" % sum(1 for k, _ in case["ev"] if k.startswith("$")))
        t.append("create:" + (obs["create"].get("err") or "ok"))
        if "start" in obs:
            t.append("start:" + (obs["start"].get("err") or "ok"))
        if any(p.get("default") is not None for p in case["params"]):
            t.append("has:default")
        if _has_reserved(case["params"]):
            t.append("has:reserved-name")
    elif case["kind"] == "ref":
        t.append("ref:insts=%d" % len(case["insts"]))
        t.append("ref:lookup=" + ("none" if obs.get("ref") is None else "hit" if isinstance(obs.get("ref"), int) else str(obs.get("ref"))))
        d = obs.get("decision")
        t.append("ref:decision=" + (d[0] + ("-child" if d[0] == "create" and d[1] is not None else "") if isinstance(d, list) else str(d)))
        t.append("ref:src=" + case["query"]["src"])
        t.append("ref:activated=" + str(case["query"]["activated"]))
    elif case["kind"] == "e2e":
        t.append("mode:" + case["mode"])
        forms = {s["form"] for s in case["prog"]["main"] if s["op"] == "call"}
        t.extend("form:" + f for f in sorted(forms))
        t.append("events=%d" % min(len(obs.get("out", [])), 9))
        if "exc" in obs:
            t.append("exc:" + obs["exc"])
        if any(s["op"] == "global" for f in case["prog"]["flows"] for s in f["body"]):
            t.append("has:global")
        if any(s["op"] == "call" for f in case["prog"]["flows"] for s in f["body"]):
            t.append("has:nested-call")
        if case["mode"].startswith("hist"):
            pr = case["prog"]
            bodies = [pr["main"]] + [f["body"] for f in pr["flows"]]
            t.append("muts=%d" % min(sum(1 for b in bodies for s in b if s["op"] == "mut"), 9))
            calls = [s for s in pr["main"] if s["op"] == "call"]
            t.append("calls=%d" % len(calls))
            fl = {f["name"]: f for f in pr["flows"]}
            omitted = sum(1 for c in calls for i, p_ in enumerate(fl[c["flow"]]["params"])
                          if p_.get("default") is not None and i >= len(c["pos"]) and p_["name"] not in [k for k, _ in c["named"]])
            t.append("omitted-defaults=%d" % min(omitted, 9))
            for m in sorted({s["meth"] + ("@path" if s["path"] else "") for b in bodies for s in b if s["op"] == "mut"}):
                t.append("meth:" + m)
            if any(f.get("rets") for f in pr["flows"]):
                t.append("has:return-member")
    else:
        t.append("probe:" + case["tmpl"])
        if "act" in case:
            t.extend(act_tags(case["act"]))
            if sum(1 for e in obs.get("out", []) if e[0] == "Done") < len(case["act"]["calls"]):
                t.append("act:caller-blocked(positional-served-by-named)")
    return t


def act_tags(act):
    t = ["act:calls=%d" % len(act["calls"]), "act:flows=%d" % len(act["flows"])]
    try:
        want = act_tuples(act)
    except _NoExpectation:
        return t + ["act:no-expectation"]
    calls = act["calls"]
    flows = {f["name"]: f for f in act["flows"]}

    def omitted(c):
        ps = flows[c["flow"]]["params"]
        return {p["name"] for i, p in enumerate(ps) if i >= len(c["pos"]) and p["name"] not in [k for k, _ in c["named"]]}

    for j in range(len(calls)):
        for i in range(j):
            if calls[i]["flow"] != calls[j]["flow"] or calls[i]["form"] != "activate" or calls[j]["form"] != "activate":
                continue
            if want[i] == want[j]:
                t.append("act:same-values-again")
                if omitted(calls[i]) != omitted(calls[j]):
                    t.append("act:same-values-other-shape")
            else:
                t.append("act:different-values")
                if omitted(calls[j]) - omitted(calls[i]):
                    t.append("act:omits-what-earlier-passed")   # later call relies on a default an earlier one overrode
                if omitted(calls[i]) - omitted(calls[j]):
                    t.append("act:passes-what-earlier-omitted")
    if act["split"] < len(calls):
        t.append("act:two-callers")
    if any(c["form"] == "start" for c in calls):
        t.append("act:with-start")
    if act.get("reassign"):
        t.append("act:instance-reassigns-parameter")
    return sorted(set(t))


def escalate(rng, focus, tier):
    """focused search after a broken obligation/correspondence: a thorough-size slice, cheap enough for the quick budget"""
    cases = [g_fn(rng) for _ in range(8000)]
    modes = [None] * 12 + ["clash", "clash", "surplus", "unknown-named", "dup-named"]
    cases += [g_prog(rng, rng.choice(modes)) for _ in range(800)]
    cases += [c for c in (g_probe(rng) for _ in range(300)) if not c["tmpl"].startswith("inplace-")]
    cases += [g_hist(rng) for _ in range(600)]
    cases += [c for c in (g_restart_probe(rng) for _ in range(200)) if "-reassign-" in c["tmpl"]]
    cases += [g_act_probe(rng) for _ in range(400)]
    cases += [g_ref(rng) for _ in range(3000)]
    cases += [g_loop_probe(rng) for _ in range(150)]
    cases += [g_fn_big(rng) for _ in range(300)]
    return cases


def shrink(case):
    if case["kind"] == "fn":
        for i in range(len(case["ev"])):
            if case["ev"][i][0] not in ("source_flow_instance_uid", "source_head_uid"):
                yield dict(case, ev=case["ev"][:i] + case["ev"][i + 1:])
        for i, p in enumerate(case["params"]):
            if p.get("default") is not None:
                yield dict(case, params=case["params"][:i] + [dict(p, default=None)] + case["params"][i + 1:])
        if case["rets"]:
            yield dict(case, rets=[])
    elif case["kind"] == "ref":
        for i in range(len(case["insts"])):
            q = case["query"]
            if q["src"] == "child" and q["src_inst"] == i:
                continue
            q2 = dict(q, src_inst=q["src_inst"] - 1) if q["src"] == "child" and q["src_inst"] > i else q
            if i == 0 and any(x["parent"] == "same" for x in case["insts"][1:]):
                continue
            yield dict(case, insts=case["insts"][:i] + case["insts"][i + 1:], query=q2)
        for i, p in enumerate(case["params"]):
            if p.get("default") is not None:
                yield dict(case, params=case["params"][:i] + [dict(p, default=None)] + case["params"][i + 1:])
    elif case["kind"] == "probe" and "act" in case:
        a = case["act"]
        nc = len(a["calls"])
        if a["split"] < nc:
            yield mk_act(dict(a, split=nc))
        for i in range(nc):
            if nc > 1:
                yield mk_act(dict(a, calls=a["calls"][:i] + a["calls"][i + 1:], split=(a["split"] - 1 if i < a["split"] else a["split"]) if a["split"] < nc else nc - 1))
        if a["pings"]:
            yield mk_act(dict(a, pings=0, variant="hold"))
        if a.get("reassign"):
            yield mk_act({k_: v_ for k_, v_ in a.items() if k_ != "reassign"})
        if len(a["flows"]) > 1:
            for f in a["flows"]:
                if all(c["flow"] != f["name"] for c in a["calls"]):
                    yield mk_act(dict(a, flows=[g for g in a["flows"] if g is not f]))
        for k, v in a["mvars"]:   # a variable argument -> the literal
            def sub(e):
                return {"lit": v} if e.get("var") == k else e
            yield mk_act(dict(a, mvars=[kv for kv in a["mvars"] if kv[0] != k],
                              calls=[dict(c, pos=[sub(e) for e in c["pos"]], named=[[n_, sub(e)] for n_, e in c["named"]]) for c in a["calls"]]))
    elif case["kind"] == "e2e":
        p = case["prog"]
        for i in range(len(p["main"]) - 1):
            yield dict(case, prog=dict(p, main=p["main"][:i] + p["main"][i + 1:]))
        for fi, f in enumerate(p["flows"]):
            for i in range(len(f["body"])):
                nf = dict(f, body=f["body"][:i] + f["body"][i + 1:])
                yield dict(case, prog=dict(p, flows=p["flows"][:fi] + [nf] + p["flows"][fi + 1:]))
