"""C14 — Colang 1.0 dialog flows are followed like structured programs; the decision is a function of
the event history alone.

Case = generated structured flows (source AST) + an event history that follows the flows or leaves
them at some point.  For every case:

  implementation   the AST is rendered to Colang 1.0 source, parsed by the repo's own parser
                   (`parse_colang_file(version="1.0")`), loaded by `RuntimeV1_0._load_flow_config`;
                   `compute_next_steps` is evaluated on EVERY prefix of the history, once on one shared
                   set of flow configs that keeps serving (prefixes in order, then shuffled, with foreign
                   histories in between) and once on freshly parsed flow configs per prefix; `slide` is
                   called directly at every head; kind "rt" first produces the history by driving
                   `RuntimeV1_0.generate_events` (fresh runtime and a runtime that served other conversations).
  model            Lean `V1Interp.computeNextSteps` on every prefix, `V1Struct.compile`/`comp` of the AST
                   against the parser's elements, `V1Interp.slide` at every head.
  oracle           (a) `ref_decisions`: a reference interpreter of the structured program written with
                   Python generators from the language guide; (b) decisions on a used instance == decisions
                   on a fresh one, for every prefix.
"""
import asyncio
import contextlib
import copy
import io
import json
import os
import random
import signal
import types

from ..translate import c14 as tr

PROPERTY = "C14"
CASE_TIMEOUT = 120  # s of WALL clock per case in pool workers (runner watchdog, second line of defence: every call into the code under test is
# bounded by the CPU-time guard below).  Was 30: a 430-event generate_events history (5 s of CPU) ran into it on a machine with load 65.
THEOREM_MODULE = "NemoVerif.Theorems.C14"
RULE = ("program: 1-2 dialog flows (distinct start intents) + 0-2 subflows over user/bot/execute/set/if-else/while/"
        "break/continue/do, nesting <= 4, plus dedicated nested-`do` chain programs (depth 2-3, inner call in last position) and computation-loop programs (counters/accumulators, iterations without a blocking statement), if/if-else trees inside counter loops at every nesting depth (both condition values while the loop runs), context-dependent subflows called several times; condensed re-entry histories (the start intent right after the flow completed or was aborted); history: produced by walking the program with the reference interpreter, "
        "following it or leaving it (other intent, other bot step, failed action, hide_prev_turn, restart) at a random "
        "point, then a random tail; decisions compared on every prefix. non-trivial = the program has a conditional or "
        "loop or subflow call AND the history reaches at least 3 decisions; distinct = distinct (program, history).")
TRUSTED_BASE = [
    "adapter harness/translate/c14.py (element dicts -> model elements; expression strings re-parsed with Python `ast` after the same $x -> var_x rewriting as eval_expression)",
    "correspondence harness harness/props/C14.py + Lean driver Drive/C14.lean (JSON codecs on both sides)",
    "simpleeval on the expression fragment (literals, $vars, not/and/or, comparisons, + -) is modelled by `V1Interp.eval`, tied by differential execution only",
    "the 1900-line Colang 1.0 line parser (colang_parser.py) is not modelled: its output for generated sources is compared with `V1Struct.compile` of the AST",
]
ASSUMPTIONS = [
    "kind llm: llm_flows.co + generated self-check style rails; object paths ($config.x.y, $event.x, $generation_options.x.y) are flattened; an unguarded attribute path through None raises in Python but reads None in the model (shipped flows guard)",
    "kinds fn/rt — structured subset only: user/bot/execute/set/if-else/while/break/continue/do; no when/else-when (branch), labels/goto, check/stop, flow parameters, priorities other than 1.0, extension flows",
    "context values are None/bool/int/str; expressions do not mention $event/$config/$last_user_message/$last_bot_message",
    "every generated loop terminates by construction: its body starts with a step statement, or it is a counter loop ($i/$j/$k incremented unconditionally at the top level of the body); every call into the code under test runs under a CPU-time limit, a call that does not return where the reference interpreter reaches the next statement is a violation",
    "uids are modelled by a counter (they are never part of a decision)",
]

INTENTS_EXTRA = ["zz unknown", "zz other"]


def static_tie():
    return tr.static_tie()


def translate():
    """Generated/LlmFlowsV1.lean: llm_flows.co compiled by the repo's parser, as Lean data (every run)."""
    return tr.run()


# ----------------------------------------------------------------------------- generator: programs

VARS = ["x", "y", "z"]


def g_atom(rng, bad=0.03):
    r = rng.random()
    if r < 0.5:
        return {"var": rng.choice(VARS)}
    if r < 0.85:
        return {"lit": {"i": rng.choice([0, 1, 1, 2, 3])}}
    if r < 0.9:
        return {"var": "r"}
    if r < 0.9 + bad:
        return {"lit": {"s": rng.choice(["a", ""])}}
    if r < 0.97:
        return {"lit": rng.choice([True, False])}
    return {"lit": None}


def g_cond(rng, depth=2):
    r = rng.random()
    if depth > 0 and r < 0.2:
        return {"bin": [rng.choice(["and", "or"]), g_cond(rng, depth - 1), g_cond(rng, depth - 1)]}
    if depth > 0 and r < 0.3:
        return {"not": g_cond(rng, depth - 1)}
    if r < 0.4:
        return {"var": rng.choice(VARS + ["r"])}
    op = rng.choice(["eq", "eq", "ne", "lt", "lt", "le", "gt", "ge"])
    a = {"var": rng.choice(VARS)} if rng.random() < 0.8 else g_arith(rng)
    if op in ("eq", "ne"):
        b = g_atom(rng, bad=0.15)
    else:
        b = {"lit": {"i": rng.choice([0, 1, 2, 3])}} if rng.random() < 0.85 else g_atom(rng)
    return {"bin": [op, a, b]}


def g_arith(rng):
    v = {"var": rng.choice(VARS)}
    r = rng.random()
    if r < 0.6:
        return {"bin": [rng.choice(["add", "add", "sub"]), v, {"lit": {"i": rng.choice([1, 1, 2])}}]}
    if r < 0.8:
        return {"bin": ["add", v, {"var": rng.choice(VARS)}]}
    return g_atom(rng)


def g_value(rng):
    r = rng.random()
    if r < 0.45:
        return {"lit": {"i": rng.choice([0, 0, 1, 2, 3])}}
    if r < 0.85:
        return g_arith(rng)
    if r < 0.93:
        return g_cond(rng, 1)
    return rng.choice([{"lit": {"s": "a"}}, {"lit": True}, {"lit": None}, {"lit": False}])


class Names:
    def __init__(self):
        self.u = 0
        self.b = 0
        self.a = 0

    def user(self):
        self.u += 1
        return f"u{self.u}"

    def bot(self):
        self.b += 1
        return f"b{self.b}"

    def act(self):
        self.a += 1
        return f"a{self.a}"


def g_step(rng, nm, subs, allow_user=True):
    r = rng.random()
    if r < 0.4:
        return {"b": nm.bot()}
    if r < 0.6 and allow_user:
        return {"u": nm.user()}
    if r < 0.8:
        params = []
        for k in rng.sample(["p", "q"], rng.choice([0, 0, 1, 2])):
            params.append([k, rng.choice([{"lit": {"i": 1}}, {"lit": {"s": "s"}}, {"var": rng.choice(VARS)}])])
        return {"x": [nm.act(), params, rng.choice([None, "r", "r", rng.choice(VARS)])]}
    if subs and r < 0.93:
        return {"do": rng.choice(subs)}
    return {"b": nm.bot()}


def g_block(rng, nm, subs, depth, in_loop, n=None):
    n = n if n is not None else rng.choice([1, 2, 2, 3, 3, 4])
    out = []
    for _ in range(n):
        r = rng.random()
        if depth > 0 and r < 0.18:
            els = g_block(rng, nm, subs, depth - 1, in_loop, rng.choice([1, 2])) if rng.random() < 0.5 else []
            out.append({"if": [g_cond(rng), g_block(rng, nm, subs, depth - 1, in_loop, rng.choice([1, 2, 3])), els]})
        elif depth > 0 and r < 0.30:
            v = rng.choice(VARS)
            body = [g_step(rng, nm, [], allow_user=rng.random() < 0.5)] + g_block(rng, nm, subs, depth - 1, True, rng.choice([0, 1, 2]))
            if rng.random() < 0.85:
                body.insert(rng.randrange(1, len(body) + 1), {"set": [v, {"bin": ["add", {"var": v}, {"lit": {"i": 1}}]}]})
            if rng.random() < 0.8:
                out.append({"set": [v, {"lit": {"i": rng.choice([0, 0, 1])}}]})
                cond = {"bin": ["lt", {"var": v}, {"lit": {"i": rng.choice([1, 2, 2, 3])}}]}
            else:
                cond = g_cond(rng, 1)
            out.append({"while": [cond, body]})
        elif r < 0.48:
            out.append({"set": [rng.choice(VARS), g_value(rng)]})
        elif in_loop and r < 0.56:
            # break/continue only under an `if` (a bare one makes the rest of the body dead code, still legal: 20%)
            bc = {"break": 1} if rng.random() < 0.5 else {"continue": 1}
            if rng.random() < 0.8:
                pre = [] if rng.random() < 0.6 else [g_step(rng, nm, subs)]
                els = [] if rng.random() < 0.7 else [rng.choice([{"break": 1}, {"continue": 1}, {"b": nm.bot()}])]
                out.append({"if": [g_cond(rng, 1), pre + [bc], els]})
            else:
                out.append(bc)
        else:
            out.append(g_step(rng, nm, subs))
    return out


def g_program(rng, tier):
    nm = Names()
    depth = rng.choice([1, 2, 2, 3, 3, 4])
    nsub = rng.choice([0, 0, 1, 1, 2])
    subs = [f"s{i}" for i in range(nsub)]
    flows = []
    # subflows may call later subflows only (no recursion)
    for i, s in enumerate(subs):
        body = g_block(rng, nm, subs[i + 1:], min(depth, 2), False)
        flows.append({"name": s, "sub": True, "body": body})
    nmain = rng.choice([1, 1, 2])
    mains = []
    for i in range(nmain):
        init = []
        if rng.random() < 0.85:
            # most flows initialise their variables (an unset variable is None: `None < 1` raises)
            init = [{"set": [v, {"lit": {"i": rng.choice([0, 0, 1, 2])}}]} for v in VARS if rng.random() < 0.9]
            if rng.random() < 0.5:
                init.append({"set": ["r", {"lit": rng.choice([False, True, {"i": 0}])}]})
        body = [{"u": nm.user()}] + init + g_block(rng, nm, subs, depth, False)
        mains.append({"name": f"f{i}", "sub": False, "body": body})
    return mains + flows


def g_chain_program(rng, tier):
    """Nested `do` chains of depth 2-3 (a subflow whose inner call is in last position, or is followed only by
    non-blocking statements), with more statements in the callers after their own `do`: control has to
    return through subflows that complete *while being resumed* in compute_next_state's resume loop."""
    nm = Names()
    depth = rng.choice([2, 2, 3])
    subs = [f"s{i}" for i in range(depth)]
    false_cond = {"bin": ["lt", {"lit": {"i": 1}}, {"lit": {"i": 0}}]}

    def blocking():
        r = rng.random()
        if r < 0.45:
            return {"b": nm.bot()}
        if r < 0.8:
            return {"u": nm.user()}
        return {"x": [nm.act(), [], rng.choice([None, "r"])]}

    def filler():
        r = rng.random()
        if r < 0.5:
            return blocking()
        return {"set": [rng.choice(VARS), {"lit": {"i": rng.choice([0, 1, 2])}}]}

    flows = []
    for i, sname in enumerate(subs):
        body = [filler() for _ in range(rng.choice([0, 1, 1, 2]))]
        if i == depth - 1:
            if not any(("b" in x or "u" in x or "x" in x) for x in body) or rng.random() < 0.5:
                body.append(blocking())
            if rng.random() < 0.3:
                body.append({"set": [rng.choice(VARS), {"lit": {"i": 1}}]})
        else:
            call = {"do": subs[i + 1]}
            tail = rng.choice(["none", "none", "none", "set", "while_false", "if_false", "step"])
            wrap = rng.random()
            if wrap < 0.15:
                call = {"if": [{"lit": True}, [call], []]}
            elif wrap < 0.25:
                call = {"if": [false_cond, [{"b": nm.bot()}], [call]]}
            body.append(call)
            if tail == "set":
                body.append({"set": [rng.choice(VARS), {"lit": {"i": 2}}]})
            elif tail == "while_false":
                body.append({"while": [false_cond, [{"b": nm.bot()}]]})
            elif tail == "if_false":
                body.append({"if": [false_cond, [{"b": nm.bot()}], []]})
            elif tail == "step":
                body.append(blocking())
        flows.append({"name": sname, "sub": True, "body": body})
    main = [{"u": nm.user()}]
    if rng.random() < 0.6:
        main += [{"set": [v, {"lit": {"i": rng.choice([0, 1, 2])}}]} for v in VARS]
    if rng.random() < 0.6:
        main.append({"b": nm.bot()})
    call = {"do": subs[0]}
    after = [blocking() if rng.random() < 0.8 else {"set": [rng.choice(VARS), {"lit": {"i": 3}}]} for _ in range(rng.choice([1, 1, 2, 3]))]
    if not any("b" in x or "x" in x for x in after):
        after.append({"b": nm.bot()})
    r = rng.random()
    if r < 0.15:
        v = rng.choice(VARS)
        main += [{"set": [v, {"lit": {"i": 0}}]},
                 {"while": [{"bin": ["lt", {"var": v}, {"lit": {"i": 2}}]}, [{"b": nm.bot()}, call, {"set": [v, {"bin": ["add", {"var": v}, {"lit": {"i": 1}}]}]}]]}]
    elif r < 0.3:
        main.append({"if": [{"lit": True}, [call], [{"b": nm.bot()}]]})
    else:
        main.append(call)
    main += after
    mains = [{"name": "f0", "sub": False, "body": main}]
    if rng.random() < 0.3:
        mains.append({"name": "f1", "sub": False, "body": [{"u": nm.user()}, {"b": nm.bot()}]})
    return mains + flows


def g_competing_program(rng, tier):
    """Flows that COMPETE: 2-3 dialog flows starting with the same user intent (equal priorities, or explicit
    `priority` lines), each continuing with a bot / execute statement (or, sometimes, a user statement: it cannot
    decide), plus an unrelated flow with its own intent that can interrupt them."""
    nm = Names()
    shared = nm.user()
    n = rng.choice([2, 2, 3])
    prios = None
    if rng.random() < 0.45:
        prios = [rng.choice([0.5, 1.0, 1.0, 2.0, 2.0]) for _ in range(n)]
    flows = []
    for i in range(n):
        first = rng.random()
        if first < 0.65:
            body = [{"b": nm.bot()}]
        elif first < 0.85:
            body = [{"x": [nm.act(), [], rng.choice([None, "r"])]}]
        else:
            body = [{"u": nm.user()}, {"b": nm.bot()}]
        body += g_block(rng, nm, [], 1, False, rng.choice([0, 1, 2]))
        f = {"name": f"c{i}", "sub": False, "body": [{"u": shared}] + body}
        if prios:
            f["prio"] = prios[i]
        flows.append(f)
    if rng.random() < 0.5:
        flows.insert(rng.randrange(len(flows) + 1), {"name": "other", "sub": False, "body": [{"u": nm.user()}, {"b": nm.bot()}, {"u": nm.user()}, {"b": nm.bot()}]})
    return flows


def g_compute_program(rng, tier):
    """Computation loops: `while` loops in which whole iterations run without reaching a blocking statement
    (counters, accumulators, nested loops, a step under an `if` that is not taken in the first iterations,
    break/continue after the increment), followed by if/else on the computed values.  Every loop is driven by
    its own counter ($i/$j/$k, never assigned elsewhere) that is incremented unconditionally, so slides terminate."""
    nm = Names()
    lit = lambda n: {"lit": {"i": n}}  # noqa: E731
    var = lambda v: {"var": v}  # noqa: E731
    acc = ["t"] + VARS

    def loop(depth, cvars):
        c = cvars[0]
        k = rng.choice([2, 3, 3, 4])
        body = []
        for _ in range(rng.choice([0, 1, 1, 2])):
            a = rng.choice(acc)
            r = rng.random()
            if r < 0.5:
                body.append({"set": [a, {"bin": ["add", var(a), var(c) if rng.random() < 0.6 else lit(rng.choice([1, 2]))]}]})
            elif r < 0.8:
                body.append({"if": [{"bin": [rng.choice(["eq", "lt", "ge"]), var(c), lit(rng.randrange(0, k))]},
                                    [{"set": [a, {"bin": ["add", var(a), lit(1)]}]}],
                                    [] if rng.random() < 0.5 else [{"set": [rng.choice(acc), {"bin": ["sub", var(a), lit(1)]}]}]]})
            else:
                body.append({"set": [a, var(c)]})
        if rng.random() < 0.35:
            # the only blocking statement of the loop sits under an `if` that is not taken in the first iterations
            body.append({"if": [{"bin": ["eq", var(c), lit(rng.randrange(1, k))]}, [rng.choice([{"b": nm.bot()}, {"u": nm.user()}, {"x": [nm.act(), [], "r"]}])], []]})
        if depth > 0 and len(cvars) > 1 and rng.random() < 0.3:
            body += loop(depth - 1, cvars[1:])
        body.append({"set": [c, {"bin": ["add", var(c), lit(1)]}]})
        r = rng.random()
        if r < 0.15:
            body.append({"if": [{"bin": ["eq", var(c), lit(rng.randrange(1, k + 1))]}, [{"break": 1}], []]})
        elif r < 0.3:
            body.append({"if": [{"bin": ["lt", var(c), lit(rng.randrange(1, k + 1))]}, [{"continue": 1}], []]})
            body.append({"set": [rng.choice(acc), {"bin": ["add", var(rng.choice(acc)), lit(1)]}]})
        return [{"set": [c, lit(0)]}, {"while": [{"bin": ["lt", var(c), lit(k)]}, body]}]

    def decide_on_values():
        a = rng.choice(acc)
        cond = {"bin": [rng.choice(["eq", "ge", "lt", "ne"]), var(a), lit(rng.choice([0, 1, 2, 3, 4, 6]))]}
        return {"if": [cond, [{"b": nm.bot()}], [{"b": nm.bot()}] if rng.random() < 0.7 else []]}

    init = [{"set": [a, lit(rng.choice([0, 0, 1]))]} for a in acc]
    subs = []
    main = [{"u": nm.user()}] + init
    if rng.random() < 0.4:
        main.append({"b": nm.bot()})
    main += loop(2, ["i", "j", "k"])
    main.append(decide_on_values())
    for _ in range(rng.choice([0, 1, 1, 2])):
        r = rng.random()
        if r < 0.3:
            main.append(rng.choice([{"b": nm.bot()}, {"u": nm.user()}, {"x": [nm.act(), [], "r"]}]))
        elif r < 0.6:
            main += loop(1, ["i", "j"])
            main.append(decide_on_values())
        elif not subs:
            subs.append({"name": "s0", "sub": True, "body": loop(1, ["j", "k"]) + [decide_on_values()] + ([{"u": nm.user()}] if rng.random() < 0.4 else [])})
            main.append({"do": "s0"})
        else:
            main.append(decide_on_values())
    main.append({"b": nm.bot()})
    return [{"name": "f0", "sub": False, "body": main}] + subs



def g_ifwhile_program(rng, tier):
    """`if` / `if-else` trees INSIDE `while` loops, at every nesting depth (if in while, if in if in while, if in the
    else branch, if in an inner while of an outer while, while inside an if branch, the loop inside a subflow), with
    conditions on the loop counters so that BOTH values of every condition occur while the loop is running, blocking
    statements in the branches and AFTER the conditional inside the loop body (a wrong jump out of / to the head of the
    loop skips them), `break` / `continue` under some of the conditions, and statements after the loop.  Every loop is
    a counter loop ($i/$j/$k, incremented unconditionally at the top level of its body, first or last), so every
    slide terminates by construction."""
    nm = Names()
    lit = lambda n: {"lit": {"i": n}}  # noqa: E731
    var = lambda v: {"var": v}  # noqa: E731

    def blocking(allow_user=True):
        r = rng.random()
        if r < 0.55:
            return {"b": nm.bot()}
        if r < 0.75 and allow_user:
            return {"u": nm.user()}
        return {"x": [nm.act(), [], rng.choice([None, "r"])]}

    def cond(c, k):
        """a condition over the running counter that is true in some iterations and false in others"""
        r = rng.random()
        a = rng.randrange(0, k)
        if r < 0.35:
            return {"bin": ["eq", var(c), lit(a)]}
        if r < 0.5:
            return {"bin": ["ne", var(c), lit(a)]}
        if r < 0.7:
            return {"bin": [rng.choice(["lt", "ge"]), var(c), lit(rng.randrange(1, k) if k > 1 else 1)]}
        if r < 0.8:
            return {"bin": ["eq", {"bin": ["add", var(c), var(rng.choice(VARS))]}, lit(rng.randrange(0, k + 1))]}
        if r < 0.9:
            return {"bin": [rng.choice(["and", "or"]), {"bin": ["ge", var(c), lit(a)]}, {"bin": ["lt", var(rng.choice(VARS)), lit(rng.choice([1, 2]))]}]}
        return {"not": {"bin": ["eq", var(c), lit(a)]}}

    def branch(c, k, idepth, cvars, can_continue, wdepth):
        out = []
        for _ in range(rng.choice([1, 1, 2])):
            r = rng.random()
            if idepth > 0 and r < 0.3:
                out.append(iftree(c, k, idepth - 1, cvars, can_continue, wdepth))
            elif r < 0.65:
                out.append(blocking())
            elif r < 0.85:
                v = rng.choice(VARS)
                out.append({"set": [v, {"bin": ["add", var(v), lit(1)]}]})
            elif wdepth > 0 and len(cvars) > 1 and r < 0.93:
                out.extend(loop(cvars[1:], wdepth - 1, rng.choice([0, 1])))   # a while inside an if branch
            else:
                out.append(blocking(False))
        if rng.random() < 0.15:
            out.append({"break": 1} if (rng.random() < 0.5 or not can_continue) else {"continue": 1})
        return out

    def iftree(c, k, idepth, cvars, can_continue, wdepth):
        els = branch(c, k, idepth, cvars, can_continue, wdepth) if rng.random() < 0.55 else []
        return {"if": [cond(c, k), branch(c, k, idepth, cvars, can_continue, wdepth), els]}

    def loop(cvars, wdepth, idepth):
        c = cvars[0]
        k = rng.choice([2, 3, 3, 4])
        inc = {"set": [c, {"bin": ["add", var(c), lit(1)]}]}
        inc_first = rng.random() < 0.4
        body = []
        for _ in range(rng.choice([1, 1, 2])):
            if rng.random() < 0.25:
                body.append(blocking() if rng.random() < 0.6 else {"set": ["t", {"bin": ["add", var("t"), var(c)]}]})
            body.append(iftree(c, k + (1 if inc_first else 0), idepth, cvars, inc_first, wdepth))
        if wdepth > 0 and len(cvars) > 1 and rng.random() < 0.45:
            body.extend(loop(cvars[1:], wdepth - 1, rng.choice([0, 1, 2])))
        # what follows the conditional inside the body: skipped by a jump out of the loop or back to its head
        r = rng.random()
        if inc_first and r < 0.4:
            # if/else as the LAST statement of the body (the jump over `else` lands on the loop's jump back), with a
            # condition that holds in the last iteration
            last = iftree(c, k + 1, max(idepth - 1, 0), cvars, True, 0)
            if not last["if"][2]:
                last["if"][2] = [blocking(False)]
            if rng.random() < 0.6:
                last["if"][0] = {"bin": [rng.choice(["eq", "ge"]), var(c), lit(k)]}
            body.append(last)
        elif r < 0.6:
            body.append(blocking())
        elif r < 0.8:
            body.append({"set": ["t", {"bin": ["add", var("t"), lit(1)]}]})
        body = [inc] + body if inc_first else body + [inc]
        return [{"set": [c, lit(0)]}, {"while": [{"bin": ["lt", var(c), lit(k)]}, body]}]

    init = [{"set": [a, lit(rng.choice([0, 0, 1]))]} for a in ["t"] + VARS]
    if rng.random() < 0.5:
        init.append({"set": ["r", {"lit": rng.choice([False, True, {"i": 0}])}]})
    subs = []
    main = [{"u": nm.user()}] + init
    if rng.random() < 0.3:
        main.append({"b": nm.bot()})
    shape = rng.random()
    if shape < 0.2:
        subs.append({"name": "s0", "sub": True, "body": loop(["j", "k"], 1, rng.choice([1, 2])) + ([blocking()] if rng.random() < 0.5 else [])})
        main.append({"do": "s0"})
    elif shape < 0.35:
        # the loop (with its conditionals) inside an if branch of the flow
        main.append({"if": [{"bin": ["lt", var("x"), lit(2)]}, loop(["i", "j", "k"], 1, rng.choice([1, 2])), [blocking(False)] if rng.random() < 0.5 else []]})
    else:
        main += loop(["i", "j", "k"], rng.choice([0, 1, 1, 2]), rng.choice([0, 1, 1, 2, 3]))
    main.append({"b": nm.bot()})           # the statement after the loop
    if rng.random() < 0.4:
        main += loop(["i", "j"], 0, 1)      # the same counter again: the second reach of a loop head
        main.append({"b": nm.bot()})
    return [{"name": "f0", "sub": False, "body": main}] + subs


def g_subcall_program(rng, tier):
    """The SECOND use of a subflow: subflows whose statements all sit under conditions on context variables (so a call
    may run through without blocking and without assigning anything, or block, depending on the context), called
    several times — twice in sequence with the context changed in between, in every iteration of a loop of the caller
    (guards on the loop counter), from two dialog flows, nested (s0 calls s1 under a guard) — each call placed directly
    after a step statement of the caller, so that the event on which the call happens has assigned nothing before it."""
    nm = Names()
    lit = lambda n: {"lit": {"i": n}}  # noqa: E731
    var = lambda v: {"var": v}  # noqa: E731

    def blocking(allow_user=True):
        r = rng.random()
        if r < 0.55:
            return {"b": nm.bot()}
        if r < 0.75 and allow_user:
            return {"u": nm.user()}
        return {"x": [nm.act(), [], rng.choice([None, "r"])]}

    def guarded_body(v, callee=None):
        body = []
        for _ in range(rng.choice([1, 1, 2])):
            c = {"bin": [rng.choice(["eq", "ge", "lt", "ne"]), var(v), lit(rng.choice([0, 1, 1, 2]))]}
            then = [blocking()] if rng.random() < 0.75 else [{"set": [rng.choice(["y", "z"]), {"bin": ["add", var("y"), lit(1)]}]}]
            if callee and rng.random() < 0.4:
                then.append({"do": callee})
                callee = None
            if rng.random() < 0.3:
                then.append({"set": ["z", {"bin": ["add", var("z"), lit(1)]}]})
            els = []
            if rng.random() < 0.3:
                els = [blocking(False)] if rng.random() < 0.5 else [{"set": ["z", lit(rng.choice([0, 2]))]}]
            body.append({"if": [c, then, els]})
        if rng.random() < 0.15:
            body.append(blocking(False))
        return body

    shape = rng.choice(["twice", "twice", "loop", "loop", "two_flows"])
    gv = "i" if shape == "loop" else "x"
    nested = rng.random() < 0.35
    subs = []
    if nested:
        subs.append({"name": "s1", "sub": True, "body": guarded_body(rng.choice([gv, "y"]))})
    subs.insert(0, {"name": "s0", "sub": True, "body": guarded_body(gv, "s1" if nested else None)})
    init = [{"set": [a, lit(rng.choice([0, 0, 1]))]} for a in VARS]
    main = [{"u": nm.user()}] + init + [{"b": nm.bot()}]
    mains = []
    if shape == "twice":
        main += [{"do": "s0"}, {"b": nm.bot()}, {"set": ["x", {"bin": ["add", var("x"), lit(rng.choice([1, 1, 2]))]}]}, blocking(False), {"do": "s0"}]
        if rng.random() < 0.5:
            main += [{"set": ["x", {"bin": ["add", var("x"), lit(1)]}]}, {"b": nm.bot()}, {"do": "s0"}]
    elif shape == "loop":
        k = rng.choice([2, 3, 3])
        body = [blocking(False), {"do": "s0"}]
        if rng.random() < 0.4:
            body.append({"if": [{"bin": ["eq", var("i"), lit(rng.randrange(0, k))]}, [blocking()], []]})
        body.append({"set": ["i", {"bin": ["add", var("i"), lit(1)]}]})
        main += [{"set": ["i", lit(0)]}, {"while": [{"bin": ["lt", var("i"), lit(k)]}, body]}]
    else:
        main += [{"do": "s0"}]
        other = [{"u": nm.user()}, {"set": ["x", lit(rng.choice([1, 2]))]}, {"b": nm.bot()}, {"do": "s0"}, {"b": nm.bot()}]
        mains.append({"name": "f1", "sub": False, "body": other})
    main.append({"b": nm.bot()})
    return [{"name": "f0", "sub": False, "body": main}] + mains + subs


def g_doloop_program(rng, tier):
    """The SAME `do` executed again within ONE event: a `do <blocking subflow>` inside a `while` loop where between the
    subflow's completion and the next execution of the same `do` only non-blocking statements run (`set`, `if`, the loop
    jump, `continue`), so that the new instance is created while the completed instance of the previous iteration is still
    in the state.  Shapes: increment first / last; the `do` under an `if` on the counter (skipped in some iterations);
    reached again through `continue`; in an inner loop of an outer loop; the loop inside a subflow (the caller is itself
    a callee); the called subflow ends with a nested `do` / has its own `do` loop; two different subflows alternating;
    two calls of the same subflow in one event at DIFFERENT positions (`do s / do s`, `do s / set / do s`, one call per
    branch of an if/else); a second dialog flow that calls the same subflow while the first one waits inside it.  The
    callees block on bot / user / execute statements, end with a step or with a trailing `set`; a statement follows the
    loop (spoken too early if the caller runs ahead).  Control shapes (a step between two calls) are kept at ~15 %."""
    nm = Names()
    lit = lambda n: {"lit": {"i": n}}  # noqa: E731
    var = lambda v: {"var": v}  # noqa: E731

    def blocking(allow_user=True):
        r = rng.random()
        if r < 0.45:
            return {"b": nm.bot()}
        if r < 0.8 and allow_user:
            return {"u": nm.user()}
        return {"x": [nm.act(), [], rng.choice([None, "r"])]}

    def nonblocking(c=None):
        r = rng.random()
        v = rng.choice(VARS)
        if r < 0.5 or c is None:
            return {"set": [v, {"bin": ["add", var(v), lit(1)]}]}
        if r < 0.8:
            return {"if": [{"bin": [rng.choice(["eq", "ge"]), var(c), lit(rng.choice([0, 1]))]}, [{"set": [v, var(c)]}], [] if rng.random() < 0.6 else [{"set": ["t", lit(1)]}]]}
        return {"while": [{"bin": ["lt", lit(1), lit(0)]}, [{"b": nm.bot()}]]}

    def leaf_body():
        """a subflow that blocks: 1-2 step statements, optional sets before / between / after"""
        body = []
        if rng.random() < 0.25:
            body.append(nonblocking())
        body.append(blocking())
        if rng.random() < 0.45:
            body.append(blocking())
        if rng.random() < 0.3:
            body.append(nonblocking())
        return body

    def quick_body(c):
        """a subflow that returns IMMEDIATELY in some (or all) executions: only assignments, or its step statements under a
        condition on the caller's counter — the same `do` is then executed several times within one event, the earlier
        executions having returned without leaving an instance behind"""
        body = [nonblocking()]
        if rng.random() < 0.65:
            a = rng.choice([0, 1, 1, 2])
            cond = {"bin": [rng.choice(["eq", "ge", "eq"]), var(c), lit(a)]}
            then = [blocking()] + ([nonblocking()] if rng.random() < 0.4 else [])
            body.append({"if": [cond, then, [] if rng.random() < 0.6 else [{"set": ["t", {"bin": ["add", var("t"), lit(2)]}]}]]})
        if rng.random() < 0.3:
            body.append({"set": ["t", {"bin": ["add", var("t"), var(c)]}]})
        return body

    subs = []
    shape = rng.choice(["plain", "plain", "plain", "under_if", "continue", "inner_loop", "loop_in_sub", "nested_callee",
                        "callee_loop", "alternate", "twice_seq", "twice_branch", "two_flows"])
    control = rng.random() < 0.15
    # 30 % of the loop shapes: the callee returns immediately in some executions (see quick_body)
    quick = shape in ("plain", "under_if", "continue", "inner_loop", "alternate", "twice_branch", "twice_seq") and rng.random() < 0.3
    subs.append({"name": "s0", "sub": True, "body": quick_body("j" if shape == "inner_loop" else ("x" if shape == "twice_seq" else "i")) if quick else leaf_body()})
    k = 3 if quick else rng.choice([2, 2, 3])
    inc = lambda c: {"set": [c, {"bin": ["add", var(c), lit(1)]}]}  # noqa: E731

    def do_loop(c, callee, k, variant):
        inc_first = rng.random() < 0.35
        body = []
        if rng.random() < 0.3:
            body.append(nonblocking(c))
        call = {"do": callee}
        if variant == "under_if":
            skip = rng.randrange(0, k + 1)
            k = k + 1
            call = {"if": [{"bin": ["ne", var(c), lit(skip + (1 if inc_first else 0))]}, [call], [] if rng.random() < 0.7 else [nonblocking()]]}
        body.append(call)
        if variant == "continue":
            inc_first = True
            body.append({"if": [{"bin": ["lt", var(c), lit(k if rng.random() < 0.6 else k - 1)]}, [{"continue": 1}], []]})
            body.append(rng.choice([blocking(False), nonblocking()]))
        elif variant == "alternate":
            if rng.random() < 0.3:
                body.append(nonblocking(c))
            body.append({"do": "s1"})
        if control:
            body.append(blocking(False))
        elif rng.random() < 0.4:
            body.append(nonblocking(c))
        body = [inc(c)] + body if inc_first else body + [inc(c)]
        return [{"set": [c, lit(0)]}, {"while": [{"bin": ["lt", var(c), lit(k)]}, body]}]

    init = [{"set": [a, lit(rng.choice([0, 0, 1]))]} for a in ["t"] + VARS]
    main = [{"u": nm.user()}] + init
    if rng.random() < 0.3:
        main.append({"b": nm.bot()})
    mains = []
    if shape in ("plain", "under_if", "continue"):
        main += do_loop("i", "s0", k, shape)
    elif shape == "alternate":
        subs.append({"name": "s1", "sub": True, "body": leaf_body()})
        main += do_loop("i", "s0", k, shape)
    elif shape == "inner_loop":
        inner = do_loop("j", "s0", 2, "plain")
        body = inner + ([nonblocking("i")] if rng.random() < 0.4 else []) + [inc("i")]
        main += [{"set": ["i", lit(0)]}, {"while": [{"bin": ["lt", var("i"), lit(2)]}, body]}]
    elif shape == "loop_in_sub":
        # the caller of the loop's `do` is itself a subflow
        subs.append({"name": "s1", "sub": True, "body": do_loop("j", "s0", k, "plain") + ([blocking()] if rng.random() < 0.5 else [])})
        subs.reverse()
        subs[0]["name"], subs[1]["name"] = "s0", "s1"
        subs[0]["body"] = _rename_do(subs[0]["body"], {"s0": "s1"})
        if rng.random() < 0.5:
            main += [{"do": "s0"}]
        else:
            main += [{"set": ["i", lit(0)]}, {"while": [{"bin": ["lt", var("i"), lit(2)]}, [{"do": "s0"}, inc("i")]]}]
    elif shape == "nested_callee":
        # the called subflow ends with (or consists of) a nested call: two instances are created per iteration
        subs.append({"name": "s1", "sub": True, "body": leaf_body()})
        pre = [blocking()] if rng.random() < 0.5 else ([nonblocking()] if rng.random() < 0.5 else [])
        post = [nonblocking()] if rng.random() < 0.4 else []
        subs[0]["body"] = pre + [{"do": "s1"}] + post
        main += do_loop("i", "s0", k, "plain")
    elif shape == "callee_loop":
        # the callee has its own `do` loop, and is itself called in a loop
        subs.append({"name": "s1", "sub": True, "body": leaf_body()})
        subs[0]["body"] = do_loop("j", "s1", 2, "plain")
        main += do_loop("i", "s0", 2, "plain")
    elif shape == "twice_seq":
        mid = [nonblocking() for _ in range(rng.choice([0, 0, 1, 2]))]
        main += [{"do": "s0"}] + mid + [{"do": "s0"}]
        if rng.random() < 0.4:
            main += [nonblocking(), {"do": "s0"}]
    elif shape == "twice_branch":
        main += [{"set": ["i", lit(0)]}, {"while": [{"bin": ["lt", var("i"), lit(k)]},
                 [{"if": [{"bin": ["eq", var("i"), lit(rng.choice([0, 1]))]}, [{"do": "s0"}], [{"do": "s0"}]]}, inc("i")]]}]
    else:   # two_flows: f1 calls s0 (same position in its own body) while f0 waits at a `user` statement inside s0
        subs[0]["body"] = [{"b": nm.bot()}, {"u": nm.user()}] + ([{"b": nm.bot()}] if rng.random() < 0.5 else [])
        main = [{"u": nm.user()}, {"do": "s0"}] if rng.random() < 0.5 else main + [{"do": "s0"}]
        other = [{"u": nm.user()}, {"do": "s0"}]
        if rng.random() < 0.5:
            other.append({"b": nm.bot()})
        mains.append({"name": "f1", "sub": False, "body": other})
    main.append({"b": nm.bot()})           # the statement after the loop / the last call
    if rng.random() < 0.3:
        main.append(blocking())
    return [{"name": "f0", "sub": False, "body": main}] + mains + subs


def _rename_do(stmts, m):
    out = []
    for s in stmts:
        if "do" in s:
            out.append({"do": m.get(s["do"], s["do"])})
        elif "if" in s:
            out.append({"if": [s["if"][0], _rename_do(s["if"][1], m), _rename_do(s["if"][2], m)]})
        elif "while" in s:
            out.append({"while": [s["while"][0], _rename_do(s["while"][1], m)]})
        else:
            out.append(s)
    return out


def same_do_again_profile(flows):
    """AST-level: does some `do` sit in a loop body (any depth), is the same subflow called at two places, and is some
    called subflow free of unconditional step statements (it may return immediately)"""
    t = set()
    names = []

    def walk(stmts, wd):
        for s in stmts:
            if "do" in s:
                names.append(s["do"])
                if wd:
                    t.add("do-in-while:w%d" % min(wd, 3))
            elif "if" in s:
                walk(s["if"][1], wd)
                walk(s["if"][2], wd)
            elif "while" in s:
                walk(s["while"][1], wd + 1)

    for f in flows:
        walk(f["body"], 0)
    if len(names) != len(set(names)):
        t.add("do:same-subflow-at-two-places")
    in_loop = set()

    def walk2(stmts, wd):
        for s in stmts:
            if "do" in s and wd:
                in_loop.add(s["do"])
            elif "if" in s:
                walk2(s["if"][1], wd)
                walk2(s["if"][2], wd)
            elif "while" in s:
                walk2(s["while"][1], wd + 1)

    for f in flows:
        walk2(f["body"], 0)
    for f in flows:
        if f["sub"] and f["name"] in in_loop and not any(("b" in x or "u" in x or "x" in x or "do" in x or "while" in x) for x in f["body"]):
            t.add("do-in-while:callee-may-return-immediately")
    return t


def if_in_while_profile(flows):
    """{(while depth, if depth)} of every `if` that sits inside a loop (AST level), for the distribution counters"""
    out = set()

    def walk(ss, wd, idp):
        for s in ss:
            if "if" in s:
                if wd > 0:
                    out.add((wd, idp + 1))
                walk(s["if"][1], wd, idp + 1)
                walk(s["if"][2], wd, idp + 1)
            elif "while" in s:
                walk(s["while"][1], wd + 1, 0)

    for f in flows:
        walk(f["body"], 0, 0)
    return out


# ----------------------------------------------------------------------------- rendering to Colang 1.0

_OPS = {"eq": "==", "ne": "!=", "lt": "<", "le": "<=", "gt": ">", "ge": ">=", "add": "+", "sub": "-", "and": "and", "or": "or"}


def r_expr(e):
    if "lit" in e:
        v = e["lit"]
        if v is None:
            return "None"
        if isinstance(v, bool):
            return "True" if v else "False"
        if "i" in v:
            return str(v["i"])
        return json.dumps(v["s"])
    if "var" in e:
        return "$" + e["var"]
    if "not" in e:
        return "not (" + r_expr(e["not"]) + ")"
    op, a, b = e["bin"]
    return "(" + r_expr(a) + " " + _OPS[op] + " " + r_expr(b) + ")"


def r_block(stmts, ind, out):
    pad = "  " * ind
    for s in stmts:
        if "u" in s:
            out.append(f"{pad}user {s['u']}")
        elif "b" in s:
            out.append(f"{pad}bot {s['b']}")
        elif "x" in s:
            name, params, rk = s["x"]
            ps = "(" + ", ".join(f"{k}={r_expr(v)}" for k, v in params) + ")" if params else ""
            out.append(f"{pad}" + (f"${rk} = " if rk else "") + f"execute {name}{ps}")
        elif "do" in s:
            out.append(f"{pad}do {s['do']}")
        elif "set" in s:
            out.append(f"{pad}${s['set'][0]} = {r_expr(s['set'][1])}")
        elif "if" in s:
            c, t, e = s["if"]
            out.append(f"{pad}if {r_expr(c)}")
            r_block(t, ind + 1, out)
            if e:
                out.append(f"{pad}else")
                r_block(e, ind + 1, out)
        elif "while" in s:
            c, b = s["while"]
            out.append(f"{pad}while {r_expr(c)}")
            r_block(b, ind + 1, out)
        elif "break" in s:
            out.append(f"{pad}break")
        elif "continue" in s:
            out.append(f"{pad}continue")
        else:
            raise ValueError(s)


def render(flows):
    out = []
    for f in flows:
        out.append(("define subflow " if f["sub"] else "define flow ") + f["name"])
        if f.get("prio") is not None:
            out.append(f"  priority {f['prio']}")
        r_block(f["body"], 1, out)
        out.append("")
    return "\n".join(out)


def prog_for_model(stmts):
    """AST in the driver's `prog` encoding (params as the canonical JSON the adapter produces)."""
    out = []
    for s in stmts:
        if "x" in s:
            name, params, rk = s["x"]
            pd = {}
            for k, v in params:
                pd[k] = ("$" + v["var"]) if "var" in v else tr.val_from_model(v["lit"])
            out.append({"x": [name, json.dumps(pd, sort_keys=True), rk]})
        elif "if" in s:
            out.append({"if": [s["if"][0], prog_for_model(s["if"][1]), prog_for_model(s["if"][2])]})
        elif "while" in s:
            out.append({"while": [s["while"][0], prog_for_model(s["while"][1])]})
        else:
            out.append(s)
    return out


# ----------------------------------------------------------------------------- reference interpreter (oracle)
# Written from docs/user_guides/colang-language-syntax-guide.md: a flow is a sequence of statements; `if/else`
# and `while` evaluate expressions over context variables; `$x = expr` assigns; `do` runs a subflow in place;
# `$r = execute a` stores the action's result.  Python generators give the structured-program meaning directly.

class _Break(Exception):
    pass


class _Continue(Exception):
    pass


class _EvalError(Exception):
    pass


class _BudgetOut(_EvalError):
    """the reference ran 4000 statements without reaching a step statement: the PROGRAM does not terminate here"""


def ref_eval(e, ctx):
    if "lit" in e:
        return tr.val_from_model(e["lit"])
    if "var" in e:
        return ctx.get(e["var"])
    if "not" in e:
        return not ref_eval(e["not"], ctx)
    op, a, b = e["bin"]
    if op == "and":
        va = ref_eval(a, ctx)
        return ref_eval(b, ctx) if va else va
    if op == "or":
        va = ref_eval(a, ctx)
        return va if va else ref_eval(b, ctx)
    va, vb = ref_eval(a, ctx), ref_eval(b, ctx)
    try:
        if op == "eq":
            return va == vb
        if op == "ne":
            return va != vb
        if op == "lt":
            return va < vb
        if op == "le":
            return va <= vb
        if op == "gt":
            return va > vb
        if op == "ge":
            return va >= vb
        if op == "add":
            return va + vb
        if op == "sub":
            return va - vb
    except TypeError:
        raise _EvalError()
    raise ValueError(op)


def ref_block(stmts, ctx, upd, flows, budget):
    for s in stmts:
        budget[0] -= 1
        if budget[0] < 0:
            raise _BudgetOut()
        if "u" in s:
            yield ("user", s["u"])
        elif "b" in s:
            yield ("bot", s["b"])
        elif "x" in s:
            name, params, rk = s["x"]
            pd = {k: (("$" + v["var"]) if "var" in v else tr.val_from_model(v["lit"])) for k, v in params}
            yield ("act", name, json.dumps(pd, sort_keys=True), rk)
        elif "set" in s:
            v = ref_eval(s["set"][1], ctx)
            ctx[s["set"][0]] = v
            upd[s["set"][0]] = v
        elif "if" in s:
            c, t, e = s["if"]
            yield from ref_block(t if ref_eval(c, ctx) else e, ctx, upd, flows, budget)
        elif "while" in s:
            c, b = s["while"]
            while ref_eval(c, ctx):
                budget[0] -= 1
                if budget[0] < 0:
                    raise _BudgetOut()
                try:
                    yield from ref_block(b, ctx, upd, flows, budget)
                except _Break:
                    break
                except _Continue:
                    continue
        elif "break" in s:
            raise _Break()
        elif "continue" in s:
            raise _Continue()
        elif "do" in s:
            yield from ref_block(flows[s["do"]], ctx, upd, flows, budget)


def cut_history(history):
    """hide_prev_turn: drop everything from the last user utterance on (as documented in compute_next_steps)."""
    actual = []
    for ev in history:
        if ev["e"] == "hide":
            idx = [i for i, x in enumerate(actual) if x["e"] == "other" and x["ty"] == "UtteranceUserActionFinished"]
            if not idx:
                return None
            actual = actual[: idx[-1]]
        else:
            actual.append(ev)
    return actual


class Ref:
    """Walks a history; after every event says what the flow's next statement is, or abstains."""

    def __init__(self, flows):
        self.bodies = {f["name"]: f["body"] for f in flows}
        # flows that start with the same intent COMPETE: `start_lists` keeps them in source order
        self.start_lists = {}
        for f in flows:
            if not f["sub"]:
                self.start_lists.setdefault(f["body"][0]["u"], []).append(f["name"])
        self.starts = {i: names[0] for i, names in self.start_lists.items()}
        self.prio = {f["name"]: (f.get("prio") if f.get("prio") is not None else 1.0) for f in flows}
        self.saved = None        # the flow suspended by an interrupting flow: (run, pending)
        self.abstain_next = False
        self.ctx = {}
        self.upd = {}
        self.run = None  # (flow name, generator)
        self.pending = None
        self.abstain = False
        self.suspended = False
        self.error = False
        self.budget_out = False
        self.finished_on_start = False  # some run ended within its starting event (region of the open finding)
        self.live_after_leave = False
        self.nsteps = 0

    def _advance(self, starting=False):
        try:
            self.pending = next(self.run[1])
            self.nsteps += 1
        except StopIteration:
            self.run = None
            self.pending = None
            if starting:
                self.finished_on_start = True
            if self.suspended:
                # "Flows are resumed when the interruption flow completes" (compute_next_state): the interrupted flow
                # comes back at ITS OWN statement, with the context as the interrupting flow left it
                if self.saved is not None:
                    self.run, self.pending = self.saved
                    self.saved = None
                    self.suspended = False
                else:
                    self.abstain = True
        except _EvalError as ex:
            self.error = True
            self.abstain = True
            self.budget_out = self.budget_out or isinstance(ex, _BudgetOut)
        except (_Break, _Continue):
            self.abstain = True

    def _start(self, name):
        names = self.start_lists.get(self.bodies[name][0]["u"], [name])
        if len(names) > 1:
            return self._start_competing(names)
        self.run = (name, ref_block(self.bodies[name], self.ctx, self.upd, self.bodies, [4000]))
        self._advance()  # the start intent itself
        self._advance(starting=True)

    def _start_competing(self, names):
        """Several flows start with this intent: all of them start (in source order, on the shared context); the next
        step is the one of the flow with the highest priority that can decide something, the FIRST such flow among
        equals ("the first one that can decide something will be used", compute_next_state).  No claim afterwards."""
        if self.suspended:
            self.abstain = True
            return
        cands = []
        for name in names:
            gen = ref_block(self.bodies[name], self.ctx, self.upd, self.bodies, [4000])
            try:
                next(gen)
                cands.append((name, gen, next(gen)))
            except StopIteration:
                self.finished_on_start = True
                cands.append((name, gen, None))
            except _EvalError as ex:
                self.error = True
                self.abstain = True
                self.budget_out = self.budget_out or isinstance(ex, _BudgetOut)
                return
            except (_Break, _Continue):
                self.abstain = True
                return
        able = [c for c in cands if c[2] is not None and c[2][0] in ("bot", "act")]
        self.abstain_next = True
        if not able:
            self.run, self.pending = None, None
            return
        best = max(self.prio[c[0]] for c in able)
        name, gen, pend = next(c for c in able if self.prio[c[0]] == best)
        self.run, self.pending = (name, gen), pend

    def feed(self, ev):
        k = ev["e"]
        if k == "start":
            return
        if k == "ctx":
            for kk, v in ev["d"]:
                self.ctx[kk] = tr.val_from_model(v)
            self.upd.clear()
            return
        self.upd.clear()
        if self.abstain_next:
            # after a competing start there is no claim about ANY later event (the flows that lost are still running:
            # e.g. on a later non-triggering event every waiting flow records its step with modifier 0.9 and a later
            # flow of equal priority then replaces an earlier one, see design_notes/C14.md)
            self.abstain = True
            return
        if k == "other":
            return
        if self.abstain:
            return
        if k == "user":
            if self.run and self.pending == ("user", ev["i"]):
                self._advance()
            elif self.run and self.pending and self.pending[0] == "user" and ev["i"] in self.starts and self.starts[ev["i"]] != self.run[0] and not self.suspended:
                self.suspended = True
                self.saved = (self.run, self.pending)
                self._start(self.starts[ev["i"]])
            elif self.run and self.pending and self.pending[0] == "user" and ev["i"] not in self.starts and not (self.saved and self.saved[1] == ("user", ev["i"])):
                # no flow starts with this intent and the waiting flow does not expect it: the flow is interrupted by
                # nobody and resumed at once ("if already there are no more flows to interrupt, we should resume") —
                # it keeps its position
                pass
            elif self.run and self.pending and self.pending[0] in ("bot", "act") and not self.suspended:
                # left at a bot/execute statement: the flow (and the flows that called it) is aborted, i.e. over;
                # another flow may start on this very event, the same flow only on a later one
                gone = self.run[0]
                self.run, self.pending = None, None
                if ev["i"] in self.starts and self.starts[ev["i"]] != gone:
                    self._start(self.starts[ev["i"]])
            elif self.run is None and ev["i"] in self.starts:
                self._start(self.starts[ev["i"]])
            elif self.run is None:
                pass  # an intent no flow starts with: nothing to decide, nothing changes
            else:
                self.abstain = True
        elif k == "bot":
            if ev["i"] == "stop":
                self.abstain = True
            elif self.run and self.pending == ("bot", ev["i"]):
                self._advance()
            elif self.run and self.pending and self.pending[0] in ("bot", "act") and not self.suspended:
                self.run, self.pending = None, None  # aborted
            elif self.run is None:
                pass
            else:
                self.abstain = True
        elif k == "fin":
            if self.run and self.pending and self.pending[0] == "act" and self.pending[1] == ev["name"] and ev.get("ok", True):
                self._advance()
            elif self.run and self.pending and self.pending[0] in ("bot", "act") and not self.suspended:
                self.run, self.pending = None, None  # aborted
            elif self.run is None:
                pass
            else:
                self.abstain = True

    def decision(self):
        if self.abstain:
            return None
        d = []
        if self.upd:
            d.append(["ctx", sorted([k, tr.val_to_model(v)] for k, v in self.upd.items())])
        if self.pending and self.pending[0] == "bot":
            d.append(["bot", self.pending[1]])
        elif self.pending and self.pending[0] == "act":
            d.append(["act", self.pending[1], self.pending[2], self.pending[3]])
        return d


def ref_decisions(flows, history):
    """Expected decision after each prefix (None = no claim) + flags."""
    out = []
    flags = []
    for k in range(len(history) + 1):
        actual = cut_history(history[:k])
        if actual is None or (actual and actual[-1]["e"] in ("start", "ctx")) or k == 0:
            out.append(None)
            flags.append(False)
            continue
        ref = Ref(flows)
        zombie = False
        for ev in actual:
            # a run that ended within its starting event, followed by any later event, is the finding's region
            if ref.finished_on_start:
                zombie = True
            ref.feed(ev)
        if actual and actual[-1] == {"e": "bot", "i": "stop"}:
            out.append(None)
        else:
            out.append(ref.decision())
        flags.append(zombie)
    return out, flags


# ----------------------------------------------------------------------------- generator: histories

def g_history(rng, flows, mode):
    """Walk the program with the reference interpreter; `mode` = follow | leave."""
    hist = []
    intents = sorted({s for f in flows for s in _intents(f["body"])})
    bots = sorted({s for f in flows for s in _bots(f["body"])})
    starts = [f["body"][0]["u"] for f in flows if not f["sub"]]
    leave_at = rng.randrange(1, 14) if mode == "leave" else None
    decisions_made = 0
    maxlen = 46

    def ref_now():
        r = Ref(flows)
        a = cut_history(hist)
        for ev in a or []:
            r.feed(ev)
        return r

    def user_turn(intent):
        hist.append({"e": "other", "ty": "UtteranceUserActionFinished"})
        if rng.random() < 0.3:
            hist.append({"e": "other", "ty": "UserMessage"})
        hist.append({"e": "user", "i": intent})

    user_turn(rng.choice(starts))
    left = False
    tail = 0
    while len(hist) < maxlen:
        r = ref_now()
        d = r.decision()
        if d is None or left:
            # random tail after leaving the flow
            tail += 1
            if tail > rng.choice([2, 4, 6, 8]):
                break
            c = rng.random()
            if c < 0.45:
                user_turn(rng.choice(intents + starts + starts + INTENTS_EXTRA[:1]))
            elif c < 0.7 and bots:
                hist.append({"e": "bot", "i": rng.choice(bots)})
            elif c < 0.8:
                hist.append({"e": "other", "ty": rng.choice(["Listen", "StartUtteranceBotAction"])})
            elif c < 0.85:
                hist.append({"e": "hide"})
            elif c < 0.9:
                hist.append({"e": "ctx", "d": [[rng.choice(VARS), {"i": rng.choice([0, 1, 2])}]]})
            else:
                hist.append({"e": "fin", "name": "a1", "ok": True})
            continue
        decisions_made += 1
        deviate = leave_at is not None and decisions_made == leave_at
        step = [x for x in d if x[0] != "ctx"]
        for x in d:
            if x[0] == "ctx":
                hist.append({"e": "ctx", "d": x[1]})
        if not step:
            # the flow waits for the user (or is over)
            hist.append({"e": "other", "ty": "Listen"})
            if r.run is None:
                if rng.random() < 0.5 or len(hist) > maxlen - 8:
                    # maybe set a variable from outside and start again
                    if rng.random() < 0.5:
                        hist.append({"e": "ctx", "d": [[rng.choice(VARS), {"i": rng.choice([0, 1, 2, 3])}]]})
                    user_turn(rng.choice(starts))
                    if rng.random() < 0.5:
                        break
                else:
                    break
                continue
            want = r.pending[1]
            if deviate:
                left = True
                c = rng.random()
                if c < 0.35:
                    user_turn(INTENTS_EXTRA[0])
                elif c < 0.7:
                    user_turn(rng.choice(starts))
                elif c < 0.85:
                    user_turn(rng.choice(intents))
                else:
                    hist.append({"e": "hide"})
            else:
                user_turn(want)
            continue
        x = step[0]
        if x[0] == "bot":
            if deviate:
                left = True
                c = rng.random()
                if c < 0.4:
                    hist.append({"e": "bot", "i": rng.choice(bots + ["zz other bot"])})
                elif c < 0.6:
                    user_turn(rng.choice(intents + starts))
                elif c < 0.8:
                    hist.append({"e": "bot", "i": x[1]})
                    hist.append({"e": "other", "ty": "StartUtteranceBotAction"})
                    hist.append({"e": "hide"})
                else:
                    hist.append({"e": "bot", "i": "stop"})
            else:
                hist.append({"e": "bot", "i": x[1]})
                if rng.random() < 0.35:
                    hist.append({"e": "other", "ty": "StartUtteranceBotAction"})
        else:
            hist.append({"e": "start"})
            rk = x[3]
            ok = True
            if deviate:
                left = True
                ok = rng.random() < 0.3
            if rk and rng.random() < 0.9:
                val = rng.choice([{"i": 0}, {"i": 1}, {"i": 2}, True, False, None, {"s": "a"}, {"s": ""}])
                hist.append({"e": "ctx", "d": [[rk, val]]})
            name = x[1] if (ok or rng.random() < 0.5) else "zz other action"
            hist.append({"e": "fin", "name": name, "ok": ok})
    return hist


def g_reentry_history(rng, flows):
    """Condensed histories (UserIntent / BotIntent / action events only, no Listen or utterance events in between)
    with IMMEDIATE re-entry: the event right after the one on which a flow ended — by running to its last statement
    or by being left at a bot/execute statement (aborted) — is the intent that starts the same flow again."""
    hist = []
    starts = [f["body"][0]["u"] for f in flows if not f["sub"]]
    bots = sorted({s for f in flows for s in _bots(f["body"])})

    def ref_now():
        r = Ref(flows)
        for ev in hist:
            r.feed(ev)
        return r

    cur = rng.choice(starts)
    hist.append({"e": "user", "i": cur})
    reentries = 0
    keep_ctx = rng.random() < 0.7
    while len(hist) < 44:
        r = ref_now()
        d = r.decision()
        if d is None:
            break
        step = [x for x in d if x[0] != "ctx"]
        if keep_ctx:
            for x in d:
                if x[0] == "ctx":
                    hist.append({"e": "ctx", "d": x[1]})
        if not step:
            if r.run is None:
                if reentries >= 4:
                    break
                reentries += 1
                if rng.random() < 0.8 or len(starts) == 1:
                    hist.append({"e": "user", "i": cur})  # the same flow again, at once
                else:
                    cur = rng.choice(starts)
                    hist.append({"e": "user", "i": cur})
                continue
            hist.append({"e": "user", "i": r.pending[1]})
            continue
        x = step[0]
        leave = rng.random() < 0.22 and reentries < 4
        if x[0] == "bot":
            if leave:
                reentries += 1
                c = rng.random()
                if c < 0.4:
                    hist.append({"e": "user", "i": INTENTS_EXTRA[0]})
                elif c < 0.7:
                    hist.append({"e": "bot", "i": rng.choice(bots + ["zz other bot"])})
                    if hist[-1]["i"] == x[1]:
                        continue
                else:
                    hist.append({"e": "user", "i": cur})  # the start intent while the flow waits on a bot step …
                hist.append({"e": "user", "i": cur})      # … and (again) right after it was aborted
            else:
                hist.append({"e": "bot", "i": x[1]})
        else:
            hist.append({"e": "start"})
            if x[3] and rng.random() < 0.9:
                hist.append({"e": "ctx", "d": [[x[3], rng.choice([{"i": 0}, {"i": 1}, {"i": 2}, True, False])]]})
            if leave:
                reentries += 1
                hist.append({"e": "fin", "name": x[1], "ok": False})
                hist.append({"e": "user", "i": cur})
            else:
                hist.append({"e": "fin", "name": x[1], "ok": True})
    return hist


def _intents(stmts):
    for s in stmts:
        if "u" in s:
            yield s["u"]
        elif "if" in s:
            yield from _intents(s["if"][1])
            yield from _intents(s["if"][2])
        elif "while" in s:
            yield from _intents(s["while"][1])


def _bots(stmts):
    for s in stmts:
        if "b" in s:
            yield s["b"]
        elif "if" in s:
            yield from _bots(s["if"][1])
            yield from _bots(s["if"][2])
        elif "while" in s:
            yield from _bots(s["while"][1])


def gen_cases(rng, tier):
    n_prog = 170 if tier == "quick" else 4000
    n_chain = 45 if tier == "quick" else 900
    n_comp = 45 if tier == "quick" else 900
    n_llm = 70 if tier == "quick" else 1500
    cases = []
    for i in range(n_prog + n_chain):
        chain = i >= n_prog
        flows = g_chain_program(rng, tier) if chain else g_program(rng, tier)
        for mode in (("follow", "follow", "leave") if chain else ("follow", "leave", "leave", "leave")):
            if mode == "leave" and rng.random() < 0.15:
                continue
            h = g_history(rng, flows, mode)
            kind = "rt" if rng.random() < 0.12 else "fn"
            cases.append({"kind": kind, "flows": flows, "history": h, "seed": rng.randrange(1 << 30)})
    sub = random.Random(rng.randrange(1 << 30))
    cases.extend(g_llm_case(sub) for _ in range(n_llm))
    sub3 = random.Random(rng.randrange(1 << 30))
    n_re = 60 if tier == "quick" else 1200
    for i in range(n_re):
        flows = [g_program, g_program, g_chain_program, g_compute_program][i % 4](sub3, tier)
        for _ in range(2):
            cases.append({"kind": "fn", "flows": flows, "history": g_reentry_history(sub3, flows), "seed": sub3.randrange(1 << 30)})
    sub4 = random.Random(rng.randrange(1 << 30))
    for _ in range(40 if tier == "quick" else 500):
        flows = g_competing_program(sub4, tier)
        for mode in ("follow", "leave"):
            cases.append({"kind": "fn", "flows": flows, "history": g_history(sub4, flows, mode), "seed": sub4.randrange(1 << 30)})
    sub2 = random.Random(rng.randrange(1 << 30))
    for _ in range(n_comp):
        flows = g_compute_program(sub2, tier)
        for mode in ("follow", "follow", "leave"):
            cases.append({"kind": "fn" if sub2.random() < 0.9 else "rt", "flows": flows, "history": g_history(sub2, flows, mode), "seed": sub2.randrange(1 << 30)})
    # conditionals inside loops, every nesting depth, both condition values while the loop runs
    sub5 = random.Random(rng.randrange(1 << 30))
    for _ in range(45 if tier == "quick" else 450):
        flows = g_ifwhile_program(sub5, tier)
        for mode in ("follow", "follow", "leave"):
            cases.append({"kind": "fn" if sub5.random() < 0.88 else "rt", "flows": flows, "history": g_history(sub5, flows, mode), "seed": sub5.randrange(1 << 30)})
        cases.append({"kind": "fn", "flows": flows, "history": g_reentry_history(sub5, flows), "seed": sub5.randrange(1 << 30)})
    # the second use of a subflow whose behaviour depends on the context
    sub6 = random.Random(rng.randrange(1 << 30))
    for _ in range(40 if tier == "quick" else 350):
        flows = g_subcall_program(sub6, tier)
        for mode in ("follow", "follow", "leave"):
            cases.append({"kind": "fn" if sub6.random() < 0.88 else "rt", "flows": flows, "history": g_history(sub6, flows, mode), "seed": sub6.randrange(1 << 30)})
        cases.append({"kind": "fn", "flows": flows, "history": g_reentry_history(sub6, flows), "seed": sub6.randrange(1 << 30)})
    # the same `do` executed again within one event (blocking subflows called in loops with nothing blocking in between)
    sub7 = random.Random(rng.randrange(1 << 30))
    for _ in range(60 if tier == "quick" else 700):
        flows = g_doloop_program(sub7, tier)
        for mode in ("follow", "follow", "leave"):
            cases.append({"kind": "fn" if sub7.random() < 0.88 else "rt", "flows": flows, "history": g_history(sub7, flows, mode), "seed": sub7.randrange(1 << 30)})
        cases.append({"kind": "fn", "flows": flows, "history": g_reentry_history(sub7, flows), "seed": sub7.randrange(1 << 30)})
    return cases


def escalate(rng, focus, tier):
    """Focused search after a broken obligation/correspondence: the differing program with many more histories,
    then fresh programs (bounded: the full thorough generation would take minutes)."""
    cases = []
    if focus is not None:
        for _ in range(150):
            cases.append({"kind": "fn", "flows": focus["flows"], "history": g_history(rng, focus["flows"], rng.choice(["follow", "leave", "leave"])), "seed": rng.randrange(1 << 30)})
    sub = random.Random(rng.randrange(1 << 30))
    n = 500 if tier == "quick" else 2000
    for i in range(n):
        flows = (g_program, g_program, g_doloop_program, g_subcall_program, g_chain_program)[i % 5](sub, tier)
        for mode in ("follow", "leave", "leave") if i % 5 < 2 else ("follow", "follow", "leave"):
            cases.append({"kind": "fn", "flows": flows, "history": g_history(sub, flows, mode), "seed": sub.randrange(1 << 30)})
    return cases


# ----------------------------------------------------------------------------- implementation side

_M = types.SimpleNamespace()


def worker_init():
    import logging

    logging.disable(logging.CRITICAL)
    from nemoguardrails.colang import parse_colang_file
    from nemoguardrails.colang.v1_0.runtime import flows as fl
    from nemoguardrails.colang.v1_0.runtime import sliding
    from nemoguardrails.colang.v1_0.runtime.runtime import RuntimeV1_0

    _M.parse = parse_colang_file
    _M.fl = fl
    _M.sliding = sliding
    _M.RT = RuntimeV1_0
    _M.dispatcher = None



# ----------------------------------------------------------------------------- CPU-time guard around the code under test
# Every call into the code under test (parser, slide, compute_next_state / compute_next_steps, generate_events) runs
# under a CPU-time limit of THIS process (ITIMER_VIRTUAL: independent of machine load and of the runner's SIGALRM),
# in pool workers and in the main process alike (corpus, shrink candidates, the escalated search, --replay).  A call
# that does not return is an OBSERVATION ({"exc": "hang"} / {"res": "hang"}): the oracle turns it into a violation
# when the reference interpreter says that the structured program reaches its next statement (a structured program
# that terminates must make the interpreter terminate), the correspondence accepts it only where the model runs out
# of fuel as well.  After the first hang of a case the following calls get a short limit, and once HANG_TOTAL seconds
# were spent in hanging calls the remaining calls of the case are not made at all (reported as hangs).

class _Hang(BaseException):
    pass


HANG_CALL = 2.0     # s of CPU per call (normal calls: 1-20 ms)
HANG_AFTER = 0.25   # per call after the first hang of the case
HANG_TOTAL = 3.0    # CPU spent in hanging calls per case before the rest is skipped
# A tree on which hundreds of cases spin must still get its verdict within the quick budget: once this process (or the
# process it was forked from: the runner evaluates shrink candidates in fresh workers) has seen SICK_AFTER cases hang,
# the limits drop to HANG_CALL_SICK per call and one hanging call per case.  `--replay` always runs with the full limits.
SICK_AFTER = 3
HANG_CALL_SICK = 0.3
_G = types.SimpleNamespace(armed=False, hangs=0, spent=0.0, skipped=0, sick=0)


def _on_vtalrm(signum, frame):
    if _G.armed:
        f = frame
        while f is not None:
            if f.f_code.co_name == "__del__":
                return   # an exception raised inside a finalizer is swallowed ("Exception ignored in …"): wait for the next tick
            f = f.f_back
        raise _Hang()


def guard_reset():
    _G.armed = False
    _G.hangs = 0
    _G.spent = 0.0
    _G.skipped = 0


def guarded(fn, *args, _scale=1.0, _always=False, **kw):
    """fn(*args) under the CPU limit; raises _Hang when it did not return."""
    sick = _G.sick >= SICK_AFTER
    if _G.spent >= (HANG_CALL_SICK if sick else HANG_TOTAL) and not _always:
        _G.skipped += 1
        raise _Hang()
    limit = ((HANG_CALL_SICK if sick else HANG_CALL) if _G.hangs == 0 else HANG_AFTER) * _scale
    old = signal.signal(signal.SIGVTALRM, _on_vtalrm)
    _G.armed = True
    signal.setitimer(signal.ITIMER_VIRTUAL, limit, 0.2)   # repeats: a handler inside the code under test may swallow one
    try:
        try:
            return fn(*args, **kw)
        finally:
            _G.armed = False
            signal.setitimer(signal.ITIMER_VIRTUAL, 0)
    except _Hang:
        _G.hangs += 1
        _G.spent += limit
        raise
    finally:
        _G.armed = False
        signal.setitimer(signal.ITIMER_VIRTUAL, 0)
        signal.signal(signal.SIGVTALRM, old)


def is_hang(d):
    return isinstance(d, dict) and (d.get("exc") == "hang" or d.get("res") == "hang")


def same_decision(a, b):
    """REUSE comparisons make no claim about a call that did not return (the FOLLOW clause / the correspondence do)"""
    return a == b or is_hang(a) or is_hang(b)


def _load_configs_raw(src):
    r = _M.parse("gen.co", content=src, version="1.0", include_source_mapping=False)
    holder = types.SimpleNamespace(flow_configs={})
    for f in r["flows"]:
        _M.RT._load_flow_config(holder, f)
    return holder.flow_configs


def load_configs(src):
    """the repo's parser + `_load_flow_config`, under the CPU guard (raises _Hang)"""
    return guarded(_load_configs_raw, src, _scale=5.0, _always=True)


def to_real_event(ev):
    k = ev["e"]
    if k == "user":
        return {"type": "UserIntent", "intent": ev["i"]}
    if k == "bot":
        return {"type": "BotIntent", "intent": ev["i"]}
    if k == "fin":
        ok = ev.get("ok", True)
        return {"type": "InternalSystemActionFinished", "action_name": ev["name"], "status": "success" if ok else "failed", "is_success": ok, "return_value": None, "events": [], "action_params": {}}
    if k == "ctx":
        return {"type": "ContextUpdate", "data": {kk: tr.val_from_model(v) for kk, v in ev["d"]}}
    if k == "start":
        return {"type": "StartInternalSystemAction", "action_name": "a", "action_params": {}, "action_result_key": None}
    if k == "hide":
        return {"type": "hide_prev_turn"}
    ty = ev["ty"]
    if ty == "UtteranceUserActionFinished":
        return {"type": ty, "final_transcript": "hi"}
    if ty == "UserMessage":
        return {"type": ty, "text": "hi"}
    if ty == "StartUtteranceBotAction":
        return {"type": ty, "script": "hello"}
    return {"type": ty}


def canon_steps(steps):
    out = []
    for s in steps:
        t = s["type"]
        if t == "ContextUpdate":
            out.append(["ctx", sorted([k, tr.val_to_model(v)] for k, v in s["data"].items())])
        elif t == "BotIntent":
            out.append(["bot", s["intent"]])
        elif t == "StartInternalSystemAction":
            out.append(["act", s["action_name"], json.dumps(s["action_params"], sort_keys=True), s["action_result_key"]])
        else:
            out.append(["?", t])
    return out


def decide(history_real, cfgs, rails_config=None):
    try:
        return {"ok": canon_steps(guarded(_M.fl.compute_next_steps, copy.deepcopy(history_real), cfgs, rails_config, []))}
    except _Hang:
        return {"exc": "hang"}
    except (AssertionError, IndexError):
        return {"exc": "index"}
    except KeyError:
        return {"exc": "KeyError"}
    except RecursionError:
        return {"exc": "oof"}
    except Exception as e:  # noqa  eval_expression wraps everything into a plain Exception
        if type(e) is Exception and str(e).startswith("Error evaluating"):
            return {"exc": "expr"}
        return {"exc": type(e).__name__ + ":" + str(e)[:80]}


def canon_state(st):
    """the flow states of a real State up to the NAMES of the uids: [flow id, head, status, index of the FIRST flow state
    whose uid equals `interrupted_by` (what the resume loop's lookup finds); -1 = None, -2 = no such flow state]"""
    uids = [fs.uid for fs in st.flow_states]
    out = []
    for fs in st.flow_states:
        by = -1 if fs.interrupted_by is None else (uids.index(fs.interrupted_by) if fs.interrupted_by in uids else -2)
        out.append([fs.flow_id, fs.head, fs.status.name, by])
    return out


def _uid_watch(w, k, st):
    """Recorded on every state the real compute_next_state returns: the uids of its flow states (the hypothesis
    `UidsOK` of the Lean theorems: pairwise distinct), dangling `interrupted_by` references, and whether a COMPLETED and
    a live instance of the same flow sit side by side (= the same subflow was called again within the event)."""
    fl = _M.fl
    w["states"] += 1
    uids = [fs.uid for fs in st.flow_states]
    w["max_flows"] = max(w["max_flows"], len(uids))
    if len(set(uids)) != len(uids) and w["dup"] is None:
        d = next(u for u in uids if uids.count(u) > 1)
        w["dup"] = {"prefix": k, "uid": str(d)[:60], "flows": [[fs.flow_id, fs.status.name, fs.head] for fs in st.flow_states if fs.uid == d]}
    done = {fs.flow_id for fs in st.flow_states if fs.status == fl.FlowStatus.COMPLETED}
    live = {fs.flow_id for fs in st.flow_states if fs.status in (fl.FlowStatus.ACTIVE, fl.FlowStatus.INTERRUPTED)}
    if done & live:
        w["twin"] += 1
    for fs in st.flow_states:
        if fs.status == fl.FlowStatus.INTERRUPTED and fs.interrupted_by is not None and fs.interrupted_by not in uids and w["dangling"] is None:
            w["dangling"] = {"prefix": k, "flow": fs.flow_id, "head": fs.head}


def zombie_flags(history, cfgs_factory, uidw=None):
    """flags[k]: while replaying prefix k through the real compute_next_state some flow state was left ACTIVE
    with a negative head (= it ran to its end within its starting event). Structural signature of the open
    finding `flow-finished-on-start-event`, observed on the implementation's own state."""
    fl = _M.fl
    if uidw is None:
        uidw = {"states": 0, "max_flows": 0, "dup": None, "twin": 0, "dangling": None}

    # One incremental walk: the actual history of prefix k (hide_prev_turn applied) extends that of prefix k-1 by one
    # event except at a `hide` event, where the walk starts again on the shortened history (a walk per prefix made
    # histories with hidden turns quadratic in compute_next_state calls).
    w = {"st": None, "fed": [], "z": False, "dead": False, "canon": []}

    def restart():
        w.update(st=fl.State(context={}, flow_states=[], flow_configs=cfgs_factory(), rails_config=None), fed=[], z=False, dead=False, canon=[])

    def feed(ev):
        w["fed"].append(ev)
        if w["dead"]:
            return
        try:
            st = guarded(fl.compute_next_state, w["st"], copy.deepcopy(to_real_event(ev)))
            if ev == {"e": "bot", "i": "stop"}:
                st.flow_states = []
        except (Exception, _Hang):  # noqa
            w["dead"] = True       # compute_next_state raised / did not return: no state from here on
            w["canon"] = None
            return
        w["st"] = st
        w["z"] = w["z"] or any(fs.status == fl.FlowStatus.ACTIVE and isinstance(fs.head, int) and fs.head < 0 for fs in st.flow_states)
        _uid_watch(uidw, len(w["fed"]), st)
        w["canon"] = canon_state(st)

    restart()
    flags = [False]
    states = [[]]   # states[k] = canonical state after prefix k (None where compute_next_state raised / did not return)
    hidden = any(ev["e"] == "hide" for ev in history)
    for k in range(1, len(history) + 1):
        a = cut_history(history[:k]) if hidden else history[:k]
        if a is None:
            flags.append(flags[-1])
            states.append(None)
            continue
        if len(a) == len(w["fed"]) + 1 and a[:-1] == w["fed"]:
            feed(a[-1])
        elif a != w["fed"]:
            restart()
            for ev in a:
                feed(ev)
        flags.append(bool(a and w["z"]) or flags[-1])
        states.append([] if not a else (list(w["canon"]) if w["canon"] is not None else None))
    uidw["states_canon"] = states
    return flags


def model_cfgs(cfgs):
    try:
        return [tr.cfg_to_model(fc) for fc in cfgs.values()], None
    except tr.Unsupported as e:
        return None, str(e)


def run_rt(case, src):
    """Produce the history by driving RuntimeV1_0.generate_events on a fresh and on a used runtime."""
    from nemoguardrails import RailsConfig
    from nemoguardrails.actions.action_dispatcher import ActionDispatcher

    cfg = RailsConfig.from_content(colang_content=src, yaml_content="models: []\n")
    if _M.dispatcher is None:
        _M.dispatcher = ActionDispatcher(load_all_actions=False)
    # user turns + scripted action results of the case
    turns = [ev["i"] for ev in case["history"] if ev["e"] == "user"][:6]
    results = [tr.val_from_model(ev["d"][0][1]) for ev in case["history"] if ev["e"] == "ctx" and len(ev["d"]) == 1 and ev["d"][0][0] in ("r",)]

    from nemoguardrails.actions.actions import ActionResult

    # scripted behaviour of the k-th action call of a conversation (a function of k only, so that a fresh and a used
    # runtime must produce the same conversation): plain value / failure (raises) / ActionResult with context updates
    beh_rng = random.Random(case["seed"] ^ 0x5EED)
    behaviours = [beh_rng.choice(["plain"] * 7 + ["fail", "result", "result_same"]) for _ in range(64)]

    def mk():
        rt = _M.RT.__new__(_M.RT)
        rt.config = cfg
        rt.verbose = False
        rt.action_dispatcher = ActionDispatcher(load_all_actions=False)
        rt.registered_action_params = {}
        rt._init_flow_configs()
        rt.watchers = []
        rt.max_events = 500
        calls = [0]
        log = []

        async def act(**kw):
            calls[0] += 1
            k = calls[0] - 1
            v = results[k % len(results)] if results else calls[0] % 3
            b = behaviours[k % len(behaviours)]
            if b == "fail":
                log.append({"status": "failed"})
                raise RuntimeError("scripted failure")
            if b == "result":
                log.append({"status": "success", "ret": tr.val_to_model(v), "cu": [["y", tr.val_to_model(k % 2)]]})
                return ActionResult(return_value=v, context_updates={"y": k % 2})
            if b == "result_same":
                # context updates that change nothing the flows can see are not reported
                log.append({"status": "success", "ret": None, "cu": [["zz_unset", None]]})
                return ActionResult(return_value=None, context_updates={"zz_unset": None})
            log.append({"status": "success", "ret": tr.val_to_model(v)})
            return v

        for i in range(1, 40):
            rt.action_dispatcher.register_action(act, f"a{i}")
        return rt, calls, log

    strip = lambda e: {k: v for k, v in e.items() if k not in ("uid", "event_created_at", "source_uid", "action_uid", "action_finished_at")}  # noqa

    async def converse(rt, calls, turns, records=None):
        calls[0] = 0
        hist = []
        for t in turns:
            hist.append({"type": "UtteranceUserActionFinished", "final_transcript": "hi"})
            hist.append({"type": "UserIntent", "intent": t})
            before = [strip(e) for e in hist]
            try:
                new = await rt.generate_events(hist)
            except Exception as e:  # noqa
                hist.append({"type": "EXC", "what": type(e).__name__ + ":" + str(e)[:60]})
                break
            if records is not None:
                records.append({"before": before, "new": [strip(e) for e in new]})
            hist.extend(new)
        return [strip(e) for e in hist]

    loop = asyncio.new_event_loop()
    records = []
    try:
        rt1, c1, log1 = mk()
        fresh = loop.run_until_complete(converse(rt1, c1, turns, records))
        rt2, c2, _ = mk()
        rng = random.Random(case["seed"])
        for _ in range(2):
            other = [rng.choice(turns + ["zz unknown"]) for _ in range(rng.randrange(1, 5))]
            loop.run_until_complete(converse(rt2, c2, other))
        used = loop.run_until_complete(converse(rt2, c2, turns))
    finally:
        loop.close()
    # the oracle script for the Lean model of the loop: one entry per StartInternalSystemAction of the conversation
    script, it = [], iter(log1)
    for e in fresh:
        if e["type"] == "StartInternalSystemAction":
            name = e["action_name"]
            if name.startswith("a") and name[1:].isdigit() and 1 <= int(name[1:]) < 40:
                script.append(next(it, {"status": "success", "ret": None}))
            else:
                script.append({"status": "notfound"})
    _M.last_rt = {"records": records, "script": script}
    return fresh, used


def gen_canon_real(e):
    """an event appended by generate_events, reduced to what the model of the loop carries"""
    t = e["type"]
    if t == "StartInternalSystemAction":
        return ["start", e["action_name"], json.dumps(e["action_params"], sort_keys=True), e["action_result_key"]]
    if t == "ContextUpdate":
        return ["ctx", sorted([k, tr.val_to_model(v)] for k, v in e["data"].items())]
    if t == "InternalSystemActionFinished":
        return ["fin", e["action_name"], e["status"] == "success"]
    if t == "BotIntent":
        return ["bot", e["intent"]]
    if t == "UserIntent":
        return ["user", e["intent"]]
    if t == "hide_prev_turn":
        return ["hide"]
    if t == "StartUtteranceBotAction":
        return ["other", t, e.get("script")]
    return ["other", t, None]


def gen_canon_model(e):
    k = e["e"]
    if k == "start":
        return ["start", e.get("name"), e.get("params"), e.get("rk")]
    if k == "ctx":
        return ["ctx", sorted(e["d"])]
    if k == "fin":
        return ["fin", e["name"], e["ok"]]
    if k in ("bot", "user"):
        return [k, e["i"]]
    if k == "hide":
        return ["hide"]
    props = dict((a, b) for a, b in e.get("props", []))
    sc = props.get("script")
    return ["other", e["ty"], sc["s"] if isinstance(sc, dict) and "s" in sc else None]


def gen_event_for_model(e):
    """an event of the conversation so far as input of the model of the loop (`C14.gen`)"""
    t = e["type"]
    if t == "StartInternalSystemAction":
        return {"e": "start", "name": e["action_name"], "params": json.dumps(e["action_params"], sort_keys=True), "rk": e["action_result_key"]}
    if t == "StartUtteranceBotAction":
        return {"e": "other", "ty": t, "props": [["script", tr.val_to_model(e.get("script"))]]}
    if t == "UserMessage":
        return {"e": "other", "ty": t, "props": [["text", tr.val_to_model(e.get("text"))]]}
    return from_real_event(e)


def from_real_event(e):
    t = e["type"]
    if t == "UserIntent":
        return {"e": "user", "i": e["intent"]}
    if t == "BotIntent":
        return {"e": "bot", "i": e["intent"]}
    if t == "InternalSystemActionFinished":
        return {"e": "fin", "name": e["action_name"], "ok": e["status"] == "success"}
    if t == "ContextUpdate":
        return {"e": "ctx", "d": sorted([k, tr.val_to_model(v)] for k, v in e["data"].items())}
    if t == "StartInternalSystemAction":
        return {"e": "start"}
    if t == "hide_prev_turn":
        return {"e": "hide"}
    return {"e": "other", "ty": t}


# ----------------------------------------------------------------------------- kind "llm": the shipped rails pipeline

RAIL_SRC = """
define flow {name}
  $allowed = execute {act}
  if not $allowed
    if $config.enable_rails_exceptions
      create event {exc}(message="blocked by {name}")
    else
      bot refuse to respond
    stop
"""
REWRITE_SRC = """
define flow {name}
  ${var} = execute {act}
"""
DIALOG_SRC = """
define flow greeting
  user express greeting
  bot express greeting
  bot ask how are you

define flow goodbye
  user say bye
  $byes = 1
  bot say bye
"""
_SKIP_KEYS = {"uid", "event_created_at", "source_uid", "type", "action_uid", "action_finished_at", "action_params", "events", "return_value",
              "is_success", "failure_reason", "is_system_action", "action_result_key", "action_name", "status"}


def g_llm_case(rng):
    n_in, n_out = rng.choice([0, 1, 1, 2, 2, 3]), rng.choice([0, 0, 1, 1, 2])
    verd = lambda: rng.choice(["accept", "accept", "accept", "reject", "rewrite"])  # noqa: E731
    go = None
    if rng.random() < 0.4:
        go = {k: rng.random() < 0.7 for k in ("input", "output", "dialog", "retrieval")}
    return {"kind": "llm", "seed": rng.randrange(1 << 30),
            "in": [verd() for _ in range(n_in)], "out": [verd() for _ in range(n_out)],
            "retrieval": rng.random() < 0.25, "gen_opts": go, "gen_opts_event": go is not None or rng.random() < 0.3,
            "exceptions": rng.random() < 0.2, "dialog": rng.random() < 0.7,
            "turns": [rng.choice(["express greeting", "express greeting", "say bye", "unknown thing"]) for _ in range(rng.choice([1, 1, 2]))],
            "bot_message_given": rng.random() < 0.15, "flows": [], "history": []}


def llm_setup(case):
    """source (llm_flows.co + generated rails + dialog flows), flow-config factory, rails_config object"""
    src = tr.read_source(tr.LLM_FLOWS)
    in_names, out_names = [], []
    extra = ""
    for i, v in enumerate(case["in"]):
        name = f"check input {i}"
        in_names.append(name)
        extra += (REWRITE_SRC.format(name=name, var="user_message", act=f"rewrite_in_{i}") if v == "rewrite"
                  else RAIL_SRC.format(name=name, act=f"check_in_{i}", exc="InputRailException"))
    for i, v in enumerate(case["out"]):
        name = f"check output {i}"
        out_names.append(name)
        extra += (REWRITE_SRC.format(name=name, var="bot_message", act=f"rewrite_out_{i}") if v == "rewrite"
                  else RAIL_SRC.format(name=name, act=f"check_out_{i}", exc="OutputRailException"))
    ret_names = []
    if case["retrieval"]:
        ret_names = ["check retrieval"]
        extra += "\ndefine flow check retrieval\n  $relevant_chunks = execute filter_chunks\n"
    if case["dialog"]:
        extra += DIALOG_SRC
    NS = types.SimpleNamespace
    rails_config = NS(rails=NS(input=NS(flows=in_names), output=NS(flows=out_names), retrieval=NS(flows=ret_names)),
                      enable_rails_exceptions=case["exceptions"])
    return src, extra, rails_config


def llm_drive(case, cfgs, rails_config):
    """The loop of RuntimeV1_0.generate_events with scripted actions (and the repo's own create_event)."""
    from nemoguardrails.actions.core import create_event

    fl = _M.fl
    hist = []
    NS = types.SimpleNamespace
    if case["gen_opts_event"]:
        go = case["gen_opts"]
        hist.append({"type": "ContextUpdate", "data": {"generation_options": None if go is None else NS(rails=NS(**go))}})
    if case["bot_message_given"]:
        hist.append({"type": "ContextUpdate", "data": {"bot_message": "given bot message"}})
    loop = asyncio.new_event_loop()
    n_msg = [0]

    def act_result(name, params):
        """(return_value, events, context_updates)"""
        if name == "create_event":
            res = loop.run_until_complete(create_event(event=params["event"], context=fl.compute_context(hist)))
            evs = [{k: v for k, v in e.items() if k not in ("uid", "event_created_at", "source_uid")} for e in res.events]
            return None, evs, {}
        if name.startswith("check_in_"):
            return case["in"][int(name.rsplit("_", 1)[1])] != "reject", [], {}
        if name.startswith("check_out_"):
            return case["out"][int(name.rsplit("_", 1)[1])] != "reject", [], {}
        if name.startswith("rewrite_"):
            return "rewritten by " + name, [], {}
        if name == "filter_chunks":
            return "filtered chunks", [], {}
        if name == "generate_user_intent":
            return None, [{"type": "UserIntent", "intent": intent[0]}], {}
        if name == "generate_next_step":
            return None, [{"type": "BotIntent", "intent": "general response"}], {}
        if name == "retrieve_relevant_chunks":
            return None, [], {"relevant_chunks": "some chunks"}
        if name == "generate_bot_message":
            n_msg[0] += 1
            last_bot = next((e["intent"] for e in reversed(hist) if e["type"] == "BotIntent"), None)
            if last_bot == "refuse to respond":
                # like the real action for a predefined message: the text is not checked by the output rails again
                return None, [{"type": "BotMessage", "text": "I'm sorry, I can't respond to that."}], {"skip_output_rails": True}
            return None, [{"type": "BotMessage", "text": f"bot text {n_msg[0]}"}], {}
        return None, [], {}

    intent = [None]
    try:
        for t, it in enumerate(case["turns"]):
            intent[0] = it
            hist.append({"type": "UtteranceUserActionFinished", "final_transcript": f"user text {t}"})
            while len(hist) < 260:
                last = hist[-1]
                if last["type"] == "StartInternalSystemAction":
                    rv, evs, cu = act_result(last["action_name"], last["action_params"])
                    ctx = fl.compute_context(hist)
                    if last["action_result_key"]:
                        cu = dict(cu, **{last["action_result_key"]: rv})
                    nxt = []
                    if cu and any(ctx.get(k) != v for k, v in cu.items()):
                        nxt.append({"type": "ContextUpdate", "data": cu})
                    nxt.append({"type": "InternalSystemActionFinished", "action_name": last["action_name"], "status": "success",
                                "action_params": last["action_params"], "action_result_key": last["action_result_key"],
                                "is_success": True, "return_value": rv, "events": evs})
                    nxt.extend(evs)
                else:
                    steps = guarded(fl.compute_next_steps, copy.deepcopy(hist), cfgs, rails_config, [])
                    nxt = [{k: v for k, v in e.items() if k not in ("uid", "event_created_at", "source_uid")} for e in steps]
                    if not nxt:
                        nxt = [{"type": "Listen"}]
                hist.extend(nxt)
                if nxt[-1]["type"] == "Listen":
                    break
    except _Hang:
        return hist, "hang: compute_next_steps did not return within the CPU limit"
    except Exception as e:  # noqa
        return hist, type(e).__name__ + ": " + str(e)[:120]
    finally:
        loop.close()
    return hist, None


def llm_canon_event(e, paths):
    t = e["type"]
    if t == "UserIntent":
        return {"e": "user", "i": e["intent"]}
    if t == "BotIntent":
        return {"e": "bot", "i": e["intent"]}
    if t == "InternalSystemActionFinished":
        return {"e": "fin", "name": e["action_name"], "ok": e["status"] == "success"}
    if t == "StartInternalSystemAction":
        return {"e": "start"}
    if t == "ContextUpdate":
        d = []
        for k, v in e["data"].items():
            if k in tr.OBJECT_VARS:
                d.append([k, None if v is None else True])
                if v is not None:
                    d.extend(tr.flatten_object(k, v, paths))
            else:
                d.append([k, tr.val_to_model(v)])
        return {"e": "ctx", "d": d}
    return {"e": "other", "ty": t, "props": [[k, tr.val_to_model(v)] for k, v in e.items() if k not in _SKIP_KEYS]}


def run_impl_llm(case):
    obs = {"llm": True}
    with contextlib.redirect_stdout(io.StringIO()):
        src, extra, rails_config = llm_setup(case)
        obs["src"] = extra
        full = src + "\n" + extra
        try:
            used_cfgs = load_configs(full)
            n_llm = len(load_configs(src))
            mc_all, why = model_cfgs(used_cfgs)
        except _Hang:
            return dict(obs, parse_exc="hang: the parser did not return within the CPU limit")
        except Exception as e:  # noqa
            return dict(obs, parse_exc=type(e).__name__ + ": " + str(e)[:200])
        obs["unsupported"] = why
        if mc_all is None:
            obs["mcfgs"] = None
            return obs
        obs["mcfgs"] = mc_all[n_llm:]
        obs["llm_names"] = [c["id"] for c in mc_all[:n_llm]]
        paths = tr.expr_vars(mc_all, set())
        try:
            obs["config"] = tr.flatten_object("config", rails_config, paths)
            real, exc = llm_drive(case, load_configs(full), rails_config)
            obs["drive_exc"] = exc
            obs["history"] = [llm_canon_event(e, paths) for e in real]
        except tr.Unsupported as e:
            return dict(obs, unsupported="history/config value outside the model: " + str(e), mcfgs=None)
        n = len(real)
        rng = random.Random(case["seed"])
        used = [decide(real[:k], used_cfgs, rails_config) for k in range(n + 1)]
        order = list(range(n + 1))
        rng.shuffle(order)
        again = {k: decide(real[:k], used_cfgs, rails_config) for k in order}
        obs["used"] = used
        obs["again_diff"] = [k for k in range(n + 1) if not same_decision(again[k], used[k])]
        ks = range(n + 1) if n <= 25 else sorted(rng.sample(range(n + 1), 25))
        obs["fresh_diff"] = [[k, d, used[k]] for k in ks for d in [decide(real[:k], load_configs(full), rails_config)] if not same_decision(d, used[k])]
        mc2, _ = model_cfgs(used_cfgs)
        obs["cfgs_changed_by_use"] = mc2 != mc_all
        obs["zombie"] = [False] * (n + 1)
        obs["slides"] = []
        obs["types"] = sorted({e["type"] for e in real})
        turns, cur = [], None
        for e in real:
            if e["type"] == "UtteranceUserActionFinished":
                cur = []
                turns.append(cur)
            elif e["type"] == "StartInternalSystemAction" and cur is not None:
                cur.append(e["action_name"])
            elif e["type"] == "Listen" and cur is not None:
                cur.append("<listen>")
        obs["actions"] = turns
    return obs


def run_impl(case):
    guard_reset()
    try:
        obs = run_impl_llm(case) if case["kind"] == "llm" else run_impl_fn(case)
    except _Hang:
        # a guarded call outside compute_next_steps / slide / generate_events (they report their own hangs): the parser
        obs = {"parse_exc": "hang: the parser / flow loader did not return within the CPU limit on a source it had parsed before"}
    finally:
        _G.armed = False
        signal.setitimer(signal.ITIMER_VIRTUAL, 0)
    if _G.hangs or _G.skipped:
        obs["hangs"] = {"calls": _G.hangs, "skipped": _G.skipped, "limit": HANG_CALL_SICK if _G.sick >= SICK_AFTER else HANG_CALL}
        _G.sick += 1
    return obs


def run_impl_fn(case):
    obs = {}
    src = render(case["flows"])
    obs["src"] = src
    with contextlib.redirect_stdout(io.StringIO()):
        try:
            used_cfgs = load_configs(src)
        except _Hang:
            return {"parse_exc": "hang: the parser did not return within the CPU limit", "src": src}
        except Exception as e:  # noqa
            return {"parse_exc": type(e).__name__ + ": " + str(e)[:200], "src": src}
        mc, why = model_cfgs(used_cfgs)
        obs["mcfgs"] = mc
        obs["unsupported"] = why
        try:
            # the loop keys of EVERY element dict (`if`, `set`, `jump`, steps … included), before any use
            obs["akeys"] = {fid: [tr.loop_keys(e) for e in fc.elements] for fid, fc in used_cfgs.items()}
        except tr.Unsupported as e:
            obs["akeys"] = None
            obs["unsupported"] = obs["unsupported"] or str(e)
        history = case["history"]
        if case["kind"] == "rt":
            try:
                fresh, used = guarded(run_rt, case, src, _scale=6.0)
            except tr.Unsupported as e:
                return dict(obs, rt_skip=str(e))
            except _Hang:
                # generate_events did not return: go on with the generated history (kind fn); the prefix on which
                # compute_next_steps spins is then found (and judged) below
                obs["rt_hang"] = True
                _G.spent = 0.0   # keep the short per-call limit, but do look for the prefix that spins
                case = dict(case, kind="fn")
                fresh = used = None
        if case["kind"] == "rt":
            obs["rt_same"] = fresh == used
            try:
                obs["gen"] = [{"events": [gen_event_for_model(e) for e in r["before"]], "new": [gen_canon_real(e) for e in r["new"]]}
                              for r in _M.last_rt["records"]]
                obs["gen_script"] = _M.last_rt["script"]
            except tr.Unsupported as e:
                obs["gen"] = []
                obs["gen_script"] = []
            if fresh != used:
                i = next((i for i, (a, b) in enumerate(zip(fresh, used)) if a != b), min(len(fresh), len(used)))
                obs["rt_diff"] = {"at": i, "fresh": fresh[i:i + 2], "used": used[i:i + 2]}
            if any(e["type"] == "EXC" for e in fresh):
                obs["rt_exc"] = [e for e in fresh if e["type"] == "EXC"][0]["what"]
                fresh = [e for e in fresh if e["type"] != "EXC"]
            try:
                history = [from_real_event(e) for e in fresh]
            except tr.Unsupported as e:
                return dict(obs, rt_skip=str(e))
        obs["history"] = history
        real = [to_real_event(ev) for ev in history]
        n = len(real)
        rng = random.Random(case["seed"])
        # (1) one shared set of flow configs that keeps serving: prefixes in order …
        used = [decide(real[:k], used_cfgs) for k in range(n + 1)]
        # … then foreign histories and the same prefixes again in a shuffled order
        order = list(range(n + 1))
        rng.shuffle(order)
        again = {}
        for k in order:
            if rng.random() < 0.3:
                decide([to_real_event({"e": "user", "i": rng.choice(INTENTS_EXTRA)})] + real[k:], used_cfgs)
            again[k] = decide(real[:k], used_cfgs)
        obs["used"] = used
        obs["again_diff"] = [k for k in range(n + 1) if not same_decision(again[k], used[k])]
        # (2) freshly parsed flow configs for every prefix
        ks = range(n + 1) if n <= 30 else sorted(rng.sample(range(n + 1), 30))
        fresh_diff = []
        for k in ks:
            d = decide(real[:k], load_configs(src))
            if not same_decision(d, used[k]):
                fresh_diff.append([k, d, used[k]])
        obs["fresh_diff"] = fresh_diff
        uidw = {"states": 0, "max_flows": 0, "dup": None, "twin": 0, "dangling": None}
        obs["zombie"] = zombie_flags(history, lambda: load_configs(src), uidw)
        obs["uids"] = uidw
        # shared element dicts after use: still the same model elements?
        mc2, _ = model_cfgs(used_cfgs)
        obs["cfgs_changed_by_use"] = (mc2 != mc) or (list(used_cfgs) != [f["name"] for f in case["flows"]])
        # (3) slide directly, at every head of every flow, with a context taken from the case
        slides = []
        ctxs = [{}, {"x": 1, "y": 2, "z": 0, "r": True, "i": 0, "j": 0, "k": 0, "t": 0},
                {"x": rng.choice([0, 2, 3]), "y": rng.choice([None, 1]), "z": rng.choice([1, "a"]), "r": rng.choice([0, None, "a"]), "i": 1, "j": rng.choice([0, 1]), "k": 0, "t": 5}]
        fresh_cfgs = load_configs(src)
        for fid, fc in fresh_cfgs.items():
            for head in range(len(fc.elements) + 1):
                ctx = dict(ctxs[(head + len(slides)) % 3])
                st = _M.fl.State(context=ctx, flow_states=[], flow_configs=fresh_cfgs)
                try:
                    h = guarded(_M.sliding.slide, st, fc, head)
                    res = {"res": "at" if h is not None and h >= 0 else "fin", "head": h, "ctx": sorted([k, tr.val_to_model(v)] for k, v in st.context.items()), "upd": sorted([k, tr.val_to_model(v)] for k, v in st.context_updates.items())}
                except _Hang:
                    res = {"res": "hang"}
                except tr.Unsupported:
                    res = {"res": "unsupported"}
                except Exception as e:  # noqa
                    res = {"res": "err"} if str(e).startswith("Error evaluating") else {"res": "exc:" + type(e).__name__}
                slides.append({"flow": fid, "head": head, "ctx0": sorted([k, tr.val_to_model(v)] for k, v in ctxs[(head + len(slides)) % 3].items()), "out": res})
        # (3a) every `if` element that sits inside a loop (it carries `_next_on_break`), with BOTH values of its
        # condition: contexts found by evaluating the model expression with the reference evaluator
        idx0 = {c["id"]: c["elems"] for c in (mc or [])}
        cand_ctxs = [{"x": a, "y": b, "z": c, "r": r, "i": i, "j": j, "k": 0, "t": i + j}
                     for (a, b, c, r, i, j) in [(0, 0, 0, False, 0, 0), (1, 2, 0, True, 1, 0), (2, 1, 1, 0, 2, 1), (3, 0, 2, None, 3, 2), (0, 3, 1, True, 4, 3),
                                                (1, 1, 3, False, 0, 1), (2, 2, 2, 1, 1, 2), (0, 1, 0, True, 2, 0), (3, 3, 3, False, 3, 3), (1, 0, 1, True, 0, 2)]]
        if_cov = []
        for fid, fc in fresh_cfgs.items():
            for head, el in enumerate(fc.elements):
                if el.get("_type") != "if" or "_next_on_break" not in el or fid not in idx0 or len(if_cov) >= 24:
                    continue
                want = {True: None, False: None}
                for cx in cand_ctxs:
                    try:
                        v = bool(ref_eval(idx0[fid][head]["c"], cx))
                    except Exception:  # noqa  (_EvalError, or an expression form outside the reference evaluator)
                        continue
                    if want[v] is None:
                        want[v] = cx
                for v, cx in want.items():
                    if cx is None:
                        continue
                    st = _M.fl.State(context=dict(cx), flow_states=[], flow_configs=fresh_cfgs)
                    try:
                        h = guarded(_M.sliding.slide, st, fc, head)
                        res = {"res": "at" if h is not None and h >= 0 else "fin", "head": h, "ctx": sorted([k, tr.val_to_model(v2)] for k, v2 in st.context.items()), "upd": sorted([k, tr.val_to_model(v2)] for k, v2 in st.context_updates.items())}
                    except _Hang:
                        res = {"res": "hang"}
                    except tr.Unsupported:
                        res = {"res": "unsupported"}
                    except Exception as e:  # noqa
                        res = {"res": "err"} if str(e).startswith("Error evaluating") else {"res": "exc:" + type(e).__name__}
                    slides.append({"flow": fid, "head": head, "ctx0": sorted([k, tr.val_to_model(v2)] for k, v2 in cx.items()), "out": res, "if_in_loop": v})
                    if_cov.append(v)
        obs["if_in_loop"] = [sum(1 for v in if_cov if v), sum(1 for v in if_cov if not v)]
        obs["slides"] = slides
        # (3b) slide WITH its side effect: `_label` keys injected into a copy of the parsed elements (and left-over
        # `_active_label`s of "earlier slides"); which dicts get `_active_label` written, and the outcome, must be
        # what V1Mut.slideM says (mutation_benign is about that function)
        slides_m = []
        lab_rng = random.Random(case["seed"] ^ 0xABCD)
        idx = {c["id"]: c["elems"] for c in (mc or [])}
        for fid, fc in load_configs(src).items():
            n = len(fc.elements)
            if len(slides_m) >= 6 or n == 0 or fid not in idx:
                continue
            for i in lab_rng.sample(range(n), min(n, lab_rng.choice([1, 1, 2]))):
                fc.elements[i]["_label"] = lab_rng.choice(["L1", "L2", "L2", ""])
                fc.elements[i]["_label_value"] = "v"
            for i in range(n):
                if lab_rng.random() < 0.2:
                    fc.elements[i]["_active_label"] = "OLD"
            melems = [{"el": el, "label": d.get("_label"), "active": d.get("_active_label")} for el, d in zip(idx[fid], fc.elements)]
            for head in lab_rng.sample(range(n + 1), min(n + 1, 3)):
                fc2 = copy.deepcopy(fc)
                ctx0 = ctxs[1]
                st = _M.fl.State(context=dict(ctx0), flow_states=[], flow_configs={fid: fc2})
                try:
                    h = guarded(_M.sliding.slide, st, fc2, head)
                    res = {"res": "at" if h is not None and h >= 0 else "fin", "head": h, "upd": sorted([k, tr.val_to_model(v)] for k, v in st.context_updates.items())}
                except _Hang:
                    res = {"res": "hang"}
                except tr.Unsupported:
                    res = {"res": "unsupported"}
                except Exception as e:  # noqa
                    res = {"res": "err"} if str(e).startswith("Error evaluating") else {"res": "exc:" + type(e).__name__}
                res["marks"] = [d.get("_active_label") for d in fc2.elements]
                # nothing but the two private keys may have been written
                strip2 = lambda d: {k: v for k, v in d.items() if k not in ("_active_label", "_active_label_data")}  # noqa
                res["only_private"] = [strip2(a) for a in fc2.elements] == [strip2(a) for a in fc.elements]
                slides_m.append({"flow": fid, "head": head, "elems": melems, "ctx0": sorted([k, tr.val_to_model(v)] for k, v in ctx0.items()), "out": res})
        obs["slides_m"] = slides_m
    return obs


# ----------------------------------------------------------------------------- model side

def model_requests(case, obs):
    if "parse_exc" in obs or obs.get("mcfgs") is None or "rt_skip" in obs:
        return []
    if case["kind"] == "llm":
        return [{"m": "C14.steps", "llm": True, "flows": obs["mcfgs"], "history": obs["history"], "repaired": True, "config": obs["config"]}]
    reqs = [{"m": "C14.steps", "flows": obs["mcfgs"], "history": obs["history"], "repaired": True}]
    for f in case["flows"]:
        reqs.append({"m": "C14.compile", "prog": prog_for_model(f["body"])})
    idx = {c["id"]: c["elems"] for c in obs["mcfgs"]}
    for s in obs["slides"]:
        r = {"m": "C14.slide", "elems": idx[s["flow"]], "ctx": s["ctx0"], "head": s["head"]}
        if obs.get("akeys"):
            r["keys"] = obs["akeys"][s["flow"]]   # -> V1Annot.slideA on the dicts with their loop keys
        reqs.append(r)
    # the action loop: one request per turn driven through RuntimeV1_0.generate_events (kind rt)
    for g in obs.get("gen", []):
        reqs.append({"m": "C14.gen", "flows": obs["mcfgs"], "events": g["events"], "results": obs["gen_script"]})
    # slide with its side effect on the element dicts (`_active_label`)
    for sm in obs.get("slides_m", []):
        reqs.append({"m": "C14.slideM", "elems": sm["elems"], "ctx": sm["ctx0"], "head": sm["head"]})
    # the source-level reference of next_step_is_flow_statement_with_do (V1Ref.followAllK) on every prefix, for
    # programs in the theorem's setting: ONE dialog flow (default priority) + subflows
    mains = [f for f in case["flows"] if not f["sub"]]
    if len(mains) == 1 and all(f.get("prio") is None for f in case["flows"]):
        reqs.append({"m": "C14.follow", "id": mains[0]["name"], "prog": prog_for_model(mains[0]["body"]),
                     "lib": [{"name": f["name"], "prog": prog_for_model(f["body"])} for f in case["flows"] if f["sub"]],
                     "history": obs["history"]})
    # the interpreter STATE after every prefix, up to uid renaming (programs with subflow calls: where uids matter)
    if _has_do(case["flows"]) and (obs.get("uids") or {}).get("states_canon") is not None:
        reqs.append({"m": "C14.states", "flows": obs["mcfgs"], "history": obs["history"]})
    return reqs


def _has_do(flows):
    return '"do"' in json.dumps(flows)


def _norm_ctx(c):
    return sorted(c)


def compare(case, obs, mouts):
    if not mouts:
        return None
    steps = mouts[0]["res"]
    nf = len(case["flows"])
    comps = mouts[1:1 + nf]
    ns = len(obs["slides"])
    slides = mouts[1 + nf:1 + nf + ns]
    ng = len(obs.get("gen", []))
    gens = mouts[1 + nf + ns:1 + nf + ns + ng]
    nsm = len(obs.get("slides_m", []))
    slides_m = mouts[1 + nf + ns + ng:1 + nf + ns + ng + nsm]
    rest = mouts[1 + nf + ns + ng + nsm:]
    states_m = rest[-1:] if (rest and _has_do(case["flows"]) and (obs.get("uids") or {}).get("states_canon") is not None) else []
    follow = rest[:len(rest) - len(states_m)]
    # compiler tie: parser output == compile(AST) == comp none (AST)
    for f, c, mc in zip(case["flows"], comps, obs["mcfgs"]):
        if c["compile"] != mc["elems"]:
            i = next((i for i, (a, b) in enumerate(zip(c["compile"], mc["elems"])) if a != b), min(len(c["compile"]), len(mc["elems"])))
            return f"compile(AST) differs from the parser's elements in flow {f['name']} at {i}: model {c['compile'][i:i+1]} parser {mc['elems'][i:i+1]}"
        if c["comp"] != c["compile"]:
            return f"comp none differs from compile in flow {f['name']}"
        if c.get("compileA") is not None and c["compileA"] != c["compile"]:
            return f"compileA (annotated compiler) does not project onto compile in flow {f['name']}"
        ak = (obs.get("akeys") or {}).get(f["name"])
        if ak is not None and c.get("keys") is not None and c["keys"] != ak:
            i = next((i for i, (a, b) in enumerate(zip(c["keys"], ak)) if a != b), min(len(c["keys"]), len(ak)))
            return (f"annotation pass: `_next_on_break` / `_next_on_continue` of element {i} of flow {f['name']}: "
                    f"model compileA {c['keys'][i:i+1]} parser {ak[i:i+1]}")
    # uid tie: the Lean model hands out uids from a counter, and its theorems about calls and returns (call_subflow_uid_fresh,
    # uids_pairwise_distinct, resume_unwinds_stack, next_step_is_flow_statement_with_do) rest on `UidsOK`: the uids of the
    # flow states of every state are pairwise distinct.  Checked here on every state the real compute_next_state returned
    # while replaying the history (uuid4 in the code as it is).
    uw = obs.get("uids")
    if uw and uw.get("dup"):
        d = uw["dup"]
        return (f"uid tie: the state after event {d['prefix']} holds several flow states with the SAME uid {d['uid']!r}: {d['flows']} "
                f"(the model allocates fresh uids: call_subflow_uid_fresh / uids_pairwise_distinct; with equal uids the resume loop's "
                f"lookup of `interrupted_by` can hit a COMPLETED older instance: call_site_uid_counterexample)")
    # state tie: the flow states of the real State after every prefix == the model's (`replay`), up to the names of the uids
    # (flow id, head, status, and WHICH flow state the `interrupted_by` lookup finds); the model's states satisfy UidsOK
    # (uids_pairwise_distinct).  Not compared inside the region of the open finding (zombie flow states).
    if states_m and not any(obs.get("zombie", [])):
        for k, (a, b) in enumerate(zip(obs["uids"]["states_canon"], states_m[0]["res"])):
            if a is None or b is None:
                continue
            if b.get("uids_ok") is not True:
                return f"state tie: prefix {k}: the MODEL's state violates UidsOK (theorem uids_pairwise_distinct): {b}"
            if a != b["flows"]:
                return f"state tie: prefix {k}: flow states (flow, head, status, index of the interrupter found) impl {a} model {b['flows']}"
    # slide tie
    for s, m in zip(obs["slides"], slides):
        o = s["out"]
        if o["res"] == "unsupported":
            continue
        if m.get("same_as_plain") is False:
            return f"slide({s['flow']}, head={s['head']}): the model's slide on the dicts WITH their loop keys (slideA) differs from slide without them: {m}"
        if o["res"] == "hang" and m["res"] == "oof":
            continue   # the real loop spins, the model's fuel runs out: both do not terminate from here
        if o["res"] != m["res"]:
            return f"slide({s['flow']}, head={s['head']}): impl {o} model {m}" + (f" [`if` inside a loop, condition {s['if_in_loop']}]" if "if_in_loop" in s else "")
        if o["res"] in ("at", "fin"):
            if o["head"] != m["head"] or o["ctx"] != _norm_ctx(m["ctx"]) or o["upd"] != _norm_ctx(m["upd"]):
                return f"slide({s['flow']}, head={s['head']}): impl {o} model {m}"
    # decisions on every prefix
    for k, (a, b) in enumerate(zip(obs["used"], steps)):
        b = _canon_model_res(b)
        if is_hang(a) and b == {"exc": "oof"}:
            continue   # compute_next_steps spins, the model's fuel runs out
        if a != b:
            return f"prefix {k}: impl {a} model {b}"
    # the action loop (generate_events) turn by turn; not compared inside the region of an open finding
    if not any(obs.get("zombie", [])):
        for t, (g, m) in enumerate(zip(obs.get("gen", []), gens)):
            if "exc" in m:
                continue    # the model's slide fuel ran out (the real loop ran into the >100 events valve instead)
            mm = [gen_canon_model(e) for e in m["new"]]
            if mm != g["new"]:
                i = next((i for i, (a, b) in enumerate(zip(g["new"], mm)) if a != b), min(len(mm), len(g["new"])))
                return f"generate_events turn {t}: event {i}: impl {g['new'][i:i+2]} model {mm[i:i+2]}"
    # slide and its mutation of the element dicts
    for sm, m in zip(obs.get("slides_m", []), slides_m):
        o = sm["out"]
        if o["res"] in ("unsupported",):
            continue
        if o["res"] == "hang" and m["res"] == "oof":
            continue
        if o["res"] != m["res"]:
            return f"slide+labels({sm['flow']}, head={sm['head']}): impl {o} model {m}"
        if o["res"] in ("at", "fin") and (o["head"] != m["head"] or o["upd"] != _norm_ctx(m["upd"])):
            return f"slide+labels({sm['flow']}, head={sm['head']}): impl {o} model {m}"
        if o["res"] != "oof" and o.get("marks") != m.get("marks"):
            return f"slide+labels({sm['flow']}, head={sm['head']}): `_active_label` written to {o.get('marks')}, model {m.get('marks')}"
    # the theorem's source-level reference (followAllK) against the implementation, wherever it is defined
    if follow and not any(obs.get("zombie", [])):
        for k, (a, b) in enumerate(zip(obs["used"], follow[0]["res"])):
            if b is None or "exc" in a:
                continue
            bb = [([d[0], sorted(d[1])] if d[0] == "ctx" else d) for d in b["dec"]]
            if a["ok"] != bb:
                return f"followAllK (reference of next_step_is_flow_statement_with_do) prefix {k}: impl {a['ok']} reference {bb}"
    return None


def _canon_model_res(b):
    if "ok" in b:
        return {"ok": [([d[0], sorted(d[1])] if d[0] == "ctx" else d) for d in b["ok"]]}
    if b["exc"] in ("hide_prev_turn", "IndexError"):
        return {"exc": "index"}
    return b


# ----------------------------------------------------------------------------- oracle

def oracle_llm(case, obs):
    """reuse + the documented order of the pipeline: input rails run in the configured order, stop at the first
    rejecting one, and a rejected input is never handed to generate_user_intent (guardrails-process docs)."""
    if "parse_exc" in obs:
        return "llm_flows.co + generated rails do not parse: " + obs["parse_exc"]
    if obs.get("unsupported"):
        return "the shipped llm_flows.co pipeline uses a construct outside the model: " + obs["unsupported"]
    if obs.get("drive_exc"):
        return "FOLLOW: compute_next_steps raised while driving the rails pipeline: " + obs["drive_exc"]
    if obs.get("cfgs_changed_by_use"):
        return "REUSE: serving histories changed the shared flow configs"
    if obs["again_diff"]:
        return f"REUSE: the same history decided differently on a used flow-config set (prefix {obs['again_diff'][0]})"
    if obs["fresh_diff"]:
        k, d, u = obs["fresh_diff"][0]
        return f"REUSE: prefix {k}: fresh flow configs decide {d}, used ones {u}"
    go = case["gen_opts"] if case["gen_opts_event"] else None
    enabled = bool(case["in"]) and (go is None or go["input"])
    exp = []
    rejected = False
    if enabled:
        for i, v in enumerate(case["in"]):
            exp.append(("rewrite_in_%d" if v == "rewrite" else "check_in_%d") % i)
            if v == "reject":
                rejected = True
                break
    for t, acts in enumerate(obs["actions"]):
        if "<listen>" not in acts:
            continue  # the event cap of the driver cut this turn short
        got = [a for a in acts if a.startswith("check_in_") or a.startswith("rewrite_in_")]
        if got != exp:
            return f"FOLLOW: turn {t}: input rails run {got}, configured order up to the first reject is {exp}"
        if rejected and "generate_user_intent" in acts:
            return f"FOLLOW: turn {t}: a rejected input reached generate_user_intent"
    return None


def oracle(case, obs):
    if case["kind"] == "llm":
        return oracle_llm(case, obs)
    if "parse_exc" in obs:
        return "generated structured source does not parse: " + obs["parse_exc"]
    if obs.get("unsupported"):
        return "parser produced elements outside the structured fragment for a structured program: " + obs["unsupported"]
    if "rt_skip" in obs:
        return None
    # (b) function of the history alone
    if obs.get("cfgs_changed_by_use"):
        return "REUSE: serving histories changed the shared flow configs"
    if obs["again_diff"]:
        return f"REUSE: the same history decided differently on a used flow-config set (prefix {obs['again_diff'][0]})"
    if obs["fresh_diff"]:
        k, d, u = obs["fresh_diff"][0]
        return f"REUSE: prefix {k}: fresh flow configs decide {d}, used ones {u}"
    if case["kind"] == "rt" and not obs.get("rt_same", True):
        return f"REUSE: a used RuntimeV1_0 continues the same conversation differently: {obs['rt_diff']}"
    # (c) the action loop: `$r = execute a` assigns the action's return value BEFORE the flow goes on — in every turn
    # driven through generate_events, the Finished event of a successful action with a result key is preceded by a
    # ContextUpdate carrying that value, unless the context already holds it
    msg = oracle_assign(obs)
    if msg:
        return msg
    for sm in obs.get("slides_m", []):
        if not sm["out"].get("only_private", True):
            return f"REUSE: slide({sm['flow']}, head={sm['head']}) changed an element dict beyond `_active_label` / `_active_label_data`"
    # (a) the flow's next statement
    exp, flags = ref_decisions(case["flows"], obs["history"])
    for k, (e, got) in enumerate(zip(exp, obs["used"])):
        if e is None:
            continue
        if "exc" in got:
            if got["exc"] == "expr":
                continue  # an expression raised: documented as an exception, nothing decided
            if got["exc"] == "hang":
                # the reference ran the structured program up to its next statement, so the program terminates from
                # here: an interpreter that follows it statement by statement terminates as well
                _G.sick += 1   # (main process: inherited by the workers that evaluate the shrink candidates)
                return (f"FOLLOW: prefix {k}: compute_next_steps did not terminate (no return within {(obs.get('hangs') or {}).get('limit', HANG_CALL)} s of CPU time; "
                        f"the call takes milliseconds) on a terminating structured program: the flow's next statement gives {e}")
            return f"FOLLOW: prefix {k}: compute_next_steps raised {got['exc']}, expected {e}"
        if got["ok"] != e:
            return ("ZOMBIE" if (flags[k] or obs["zombie"][k]) else "FOLLOW") + f": prefix {k}: decided {got['ok']}, the flow's next statement gives {e}"
    return None


def oracle_assign(obs):
    script = obs.get("gen_script") or []
    call = 0
    for t, g in enumerate(obs.get("gen", [])):
        ctx = {}
        for e in g["events"]:
            if e["e"] == "ctx":
                for k, v in e["d"]:
                    ctx[k] = v
            if e["e"] == "hide":
                ctx = None   # what the flows see was rebuilt from a shortened history: no claim in this turn
                break
        pending = None
        for e in g["new"]:
            if e[0] == "start":
                res = script[call] if call < len(script) else None
                call += 1
                pending = (e[1], e[3], res)
                seen = None
            elif e[0] == "ctx":
                if ctx is not None:
                    for k, v in e[1]:
                        ctx[k] = v
                if pending is not None:
                    seen = dict((k, json.dumps(v, sort_keys=True)) for k, v in e[1])
            elif e[0] == "fin" and pending is not None:
                name, rk, res = pending
                pending = None
                if ctx is None or res is None or res.get("status") != "success" or not rk or not e[2] or e[1] != name:
                    continue
                want = res.get("ret")
                have = ctx.get(rk)
                if json.dumps(have, sort_keys=True) != json.dumps(want, sort_keys=True) and not _py_equal(have, want):
                    return (f"ASSIGN: generate_events turn {t}: `${rk} = execute {name}` returned {want} but the flow went on "
                            f"(InternalSystemActionFinished) while ${rk} was {have}")
            elif e[0] == "hide":
                ctx = None
    return None


def _py_equal(a, b):
    try:
        return tr.val_from_model(a) == tr.val_from_model(b)
    except Exception:  # noqa
        return False


def zombie_region(case, obs):
    try:
        _, flags = ref_decisions(case["flows"], obs.get("history", case["history"]))
    except Exception:  # noqa
        return False
    return any(flags)


def _after_do_steps(flows):
    """step statements that directly follow a `do` inside a SUBFLOW body (any nesting)."""
    out = set()

    def walk(stmts):
        for i, s in enumerate(stmts):
            if "do" in s and i + 1 < len(stmts):
                n = stmts[i + 1]
                if "b" in n:
                    out.add(("bot", n["b"]))
                elif "x" in n:
                    out.add(("act", n["x"][0]))
            if "if" in s:
                walk(s["if"][1])
                walk(s["if"][2])
            if "while" in s:
                walk(s["while"][1])

    for f in flows:
        if f["sub"]:
            walk(f["body"])
    return out


def _subflow_ends_with_do(flows):
    def ends(stmts):
        if not stmts:
            return False
        last = stmts[-1]
        if "do" in last:
            return True
        if "if" in last:
            return ends(last["if"][1]) or ends(last["if"][2])
        return False

    return any(f["sub"] and ends(f["body"]) for f in flows)


def nested_do_region(case, obs, k):
    """Prefix k decides a statement that directly follows a nested `do` (a subflow calling a subflow) although
    nothing or something else was expected: the structural region of `nested-subflow-decides-early`."""
    try:
        got = obs["used"][k]
        if got.get("exc") == "index":
            # variant: the nested `do` is the LAST statement of the calling subflow's block -> elements[head] IndexError
            return _subflow_ends_with_do(case["flows"])
        if "ok" not in got:
            return False
        after = _after_do_steps(case["flows"])
        return any((d[0], d[1]) in after for d in got["ok"] if d[0] in ("bot", "act"))
    except Exception:  # noqa
        return False


def signature(case, obs, msg):
    if msg.startswith("FOLLOW: prefix ") or msg.startswith("prefix "):
        try:
            k = int(msg.split("prefix ")[1].split(":")[0])
            if not obs["zombie"][k] and nested_do_region(case, obs, k):
                return "nested-subflow-decides-early"
        except Exception:  # noqa
            pass
    if msg.startswith("ZOMBIE"):
        return "flow-finished-on-start-event"
    if msg.startswith("prefix "):
        # model (repaired) vs implementation (as is) inside the finding's region
        try:
            k = int(msg.split()[1].rstrip(":"))
            if obs["zombie"][k]:
                return "flow-finished-on-start-event"
        except Exception:  # noqa
            pass
        return "corr-prefix"
    # classes that are not known findings still get a class name, so that shrinking keeps the class
    if msg.startswith("REUSE"):
        return "reuse"
    if msg.startswith("FOLLOW"):
        return "follow"
    if msg.startswith("generated structured source") or msg.startswith("parser produced"):
        return "parse"
    if msg.startswith("uid tie"):
        return "uid-tie"
    if msg.startswith("state tie"):
        try:
            k = int(msg.split("prefix ")[1].split(":")[0])
            if obs["zombie"][k]:
                return "flow-finished-on-start-event"
        except Exception:  # noqa
            pass
        return "state-tie"
    return None


def nontrivial(case, obs):
    if "used" not in obs:
        return False
    if case["kind"] == "llm":
        return len(case["in"]) + len(case["out"]) >= 1 and sum(1 for d in obs["used"] if "ok" in d and d["ok"]) >= 5
    s = json.dumps(case["flows"])
    structured = '"if"' in s or '"while"' in s or '"do"' in s
    nd = sum(1 for d in obs["used"] if "ok" in d and d["ok"])
    return structured and nd >= 3


def tags(case, obs):
    t = ["kind:" + case["kind"]]
    if case["kind"] == "llm":
        if "used" not in obs:
            return t + ["llm:skipped"]
        t += ["llm:in%d" % len(case["in"]), "llm:out%d" % len(case["out"]), "llm:hist%d" % (len(obs["history"]) // 20 * 20)]
        t += ["llm:verdict:" + v for v in sorted(set(case["in"] + case["out"]))]
        t += ["llm:genopts" if case["gen_opts"] else "llm:nogenopts", "llm:dialog" if case["dialog"] else "llm:nodialog"]
        t += ["llm:ev:" + x for x in obs.get("types", []) if x in ("BotMessage", "StartUtteranceBotAction", "UserMessage", "InputRailException", "OutputRailException")]
        return t
    if "used" not in obs:
        return t + ["skipped"]
    s = json.dumps(case["flows"])
    for k in ("if", "while", "do", "break", "continue", "set", "x"):
        if f'"{k}"' in s:
            t.append("has:" + k)
    t.append("flows:%d" % len(case["flows"]))
    t.append("hist:%d" % (len(obs["history"]) // 10 * 10))
    exp, flags = ref_decisions(case["flows"], obs["history"])
    claims = sum(1 for e in exp if e is not None)
    t.append("claims:%d" % (claims // 5 * 5))
    if any(e is None for e in exp[1:]) and claims:
        t.append("leaves")
    if any(obs.get("zombie", [])):
        t.append("zombie-region")
    if any("exc" in d for d in obs["used"]):
        t.append("exc:" + next(d["exc"] for d in obs["used"] if "exc" in d))
    if obs.get("hangs"):
        t.append("hang-observed")
    t += sorted(same_do_again_profile(case["flows"]))
    uw = obs.get("uids") or {}
    if uw.get("twin"):
        t.append("state:completed+live-instance-of-same-flow")
    if uw.get("max_flows", 0) >= 3:
        t.append("state:flows>=3")
    if uw.get("dangling"):
        t.append("state:dangling-interrupted_by")
    for wd, idp in sorted(if_in_while_profile(case["flows"])):
        t.append("if-in-while:w%d-i%d" % (min(wd, 3), min(idp, 4)))
    if obs.get("if_in_loop"):
        if obs["if_in_loop"][0]:
            t.append("slide@if-in-loop:cond-true")
        if obs["if_in_loop"][1]:
            t.append("slide@if-in-loop:cond-false")
    if any(ev["e"] == "hide" for ev in obs["history"]):
        t.append("hide")
    if obs.get("gen"):
        t.append("gen:turns%d" % min(len(obs["gen"]), 6))
        t.append("gen:events%d" % (max(len(g["new"]) for g in obs["gen"]) // 5 * 5))
        for st in sorted({x.get("status", "success") + ("+cu" if x.get("cu") else "") for x in obs.get("gen_script", [])}):
            t.append("gen:act:" + st)
    if obs.get("follow_depth") is not None:
        t.append("followK:depth%d" % obs["follow_depth"])
    if obs.get("slides_m"):
        marks = [m for sm in obs["slides_m"] for m in sm["out"].get("marks", [])]
        t.append("labels:" + ("written" if any(m not in (None, "OLD") for m in marks) else "none-written"))
    return t


def _wild_loops(stmts):
    """number of `while` loops whose termination is not evident from their shape: neither a body that starts with a
    step statement (every iteration stops there) nor a counter loop (`while ($c < K)`, `$c = $c + n` (n >= 1) at the top
    level of the body, no other assignment to $c and no `continue` before it)."""
    def assigns(ss, v):
        n = 0
        for s in ss:
            if "set" in s and s["set"][0] == v:
                n += 1
            elif "x" in s and s["x"][2] == v:
                n += 1
            elif "if" in s:
                n += assigns(s["if"][1], v) + assigns(s["if"][2], v)
            elif "while" in s:
                n += assigns(s["while"][1], v)
        return n

    def has_continue(ss):
        for s in ss:
            if "continue" in s:
                return True
            if "if" in s and (has_continue(s["if"][1]) or has_continue(s["if"][2])):
                return True
        return False

    n = 0
    for s in stmts:
        if "if" in s:
            n += _wild_loops(s["if"][1]) + _wild_loops(s["if"][2])
        elif "while" in s:
            c, b = s["while"]
            n += _wild_loops(b)
            if b and ("u" in b[0] or "b" in b[0] or "x" in b[0]):
                continue
            ok = False
            if "bin" in c and c["bin"][0] in ("lt", "le") and "var" in c["bin"][1] and "lit" in c["bin"][2]:
                v = c["bin"][1]["var"]
                for i, t in enumerate(b):
                    if "set" in t and t["set"][0] == v:
                        e = t["set"][1]
                        inc = ("bin" in e and e["bin"][0] == "add" and e["bin"][1] == {"var": v} and "lit" in e["bin"][2]
                               and isinstance(e["bin"][2]["lit"], dict) and e["bin"][2]["lit"].get("i", 0) >= 1)
                        ok = inc and assigns(b, v) == 1 and not has_continue(b[:i])
                        break
            if not ok:
                n += 1
    return n


def _terminates(case):
    """the reference interpreter walks the candidate's history without running out of its statement budget"""
    try:
        r = Ref(case["flows"])
        for ev in cut_history(case["history"]) or []:
            r.feed(ev)
            if r.budget_out:
                return False
        return True
    except Exception:  # noqa
        return True


def shrink(case):
    """Smaller cases.  A candidate must still be a TERMINATING structured program (a loop that lost its blocking first
    statement or its counter increment spins forever in the reference, in the model and in the code under test alike —
    that is no failing input): no new loop of non-evident termination, and the reference interpreter must get through
    the candidate's history within its statement budget."""
    wild = sum(_wild_loops(f["body"]) for f in case.get("flows", []))
    for c in _shrink_raw(case):
        if c["kind"] != "llm":
            if sum(_wild_loops(f["body"]) for f in c["flows"]) > wild or not _terminates(c):
                continue
        yield c


def _shrink_raw(case):
    if case["kind"] == "llm":
        if len(case["turns"]) > 1:
            yield dict(case, turns=case["turns"][:-1])
        if case["in"]:
            yield dict(case, **{"in": case["in"][:-1]})
        if case["out"]:
            yield dict(case, out=case["out"][:-1])
        for k in ("retrieval", "exceptions", "dialog", "bot_message_given"):
            if case[k]:
                yield dict(case, **{k: False})
        if case["gen_opts"]:
            yield dict(case, gen_opts=None)
        return
    h = case["history"]
    for i in range(len(h) - 1, -1, -1):
        yield dict(case, history=h[:i] + h[i + 1:])
    for cut in (len(h) // 2, len(h) - 1):
        if cut > 0:
            yield dict(case, history=h[:cut])
    fl = case["flows"]
    for fi, f in enumerate(fl):
        if len(fl) > 1 and not any(('"do": "%s"' % f["name"]) in json.dumps(g) for g in fl):
            if f["sub"] or sum(1 for g in fl if not g["sub"]) > 1:
                yield dict(case, flows=fl[:fi] + fl[fi + 1:])
        for nb in _shrink_block(f["body"], top=not f["sub"]):
            yield dict(case, flows=fl[:fi] + [dict(f, body=nb)] + fl[fi + 1:])


def _shrink_block(stmts, top=False, may_empty=False):
    """smaller blocks; never an empty flow body / then-branch / loop body (that would not be valid source)"""
    for i, s in enumerate(stmts):
        if not (top and i == 0) and (len(stmts) > 1 or may_empty):
            yield stmts[:i] + stmts[i + 1:]
        if "if" in s:
            yield stmts[:i] + s["if"][1] + stmts[i + 1:]
            for nb in _shrink_block(s["if"][1]):
                yield stmts[:i] + [{"if": [s["if"][0], nb, s["if"][2]]}] + stmts[i + 1:]
            for nb in _shrink_block(s["if"][2], may_empty=True):
                yield stmts[:i] + [{"if": [s["if"][0], s["if"][1], nb]}] + stmts[i + 1:]
        if "while" in s:
            for nb in _shrink_block(s["while"][1], top=True):
                yield stmts[:i] + [{"while": [s["while"][0], nb]}] + stmts[i + 1:]
