"""C13 — Parsing ignores meaningless layout and reports every bad file as a parsing error.  (partial proof)

Case kinds
  tok    generated line list (not necessarily a valid program; tabs, CRLF, brackets over lines, comment lines,
         wrong dedents) + one layout edit.  impl: the real lexer + PythonIndenter (`Lark.lex`) on both texts.
         model: `Layout.layout` on the piece segmentation of both texts (and Lean's own `scaleP` for scale edits).
         oracle: the erased token streams before/after the edit are equal (what the LALR parser can see).
  v2     a Colang 2.x program (shipped file or generated) + layout edits, through `parse_colang_file`:
         oracle = AST equality modulo positions/source fields; model/compare as for `tok`.
  v1     a Colang 1.0 program + layout edits, through `parse_colang_file`; model = `NumberedLines` vs the real
         `get_numbered_lines`.
  err    arbitrary text (mutations / truncations / token soups) through `RailsConfig.from_path` on a temp dir in a
         forked child under a timeout; oracle: loads, or raises ColangParsingError naming the file, in time.
         model: `ErrWrap.wrapCur` on the record of the exception the parser raised.
  cfg    a whole configuration DIRECTORY (several .co files + config.yml; a library directory on the COLANGPATH with modules,
         packages, packages with their own config.yml) with imports - repeated in one file, repeated across files, circular,
         self-imports, of the standard library, of local modules, of a missing module, the same flow in two files, Colang 2.x
         and 1.0 - plus an edit of the tree that cannot change its meaning (harness/impl/c13_cfg.py).  Each tree through
         `RailsConfig.from_path` (sometimes `from_content`) in a forked child under a CPU-time and a wall-clock limit, twice in
         one process.  oracle: ends in time with success or ColangParsingError naming a file; the loaded flows are exactly the
         flows of the files of the tree (composition); the edit does not change them; a second load gives the same result.
         model: `ImportLoop.fromPath` (the import fix-point and the parse loop) on the world read off the tree.
  str    every STRING FORM of Colang 2.x (STRING / LONG_STRING of both quote kinds, single- and multi-line, lone quotes of the other
         kind, escapes, `#`, interpolations, line tails of 30-200 characters; COMMENT forms) in every position where a string may
         stand, plus a layout variant (harness/impl/c13_str.py); also: such programs with one quote character mutated, and "pumped"
         lines (one short text x 30-60 + a breaking character) in every kind of place of a 2.x / 1.0 file.  Loaded with
         `RailsConfig.from_path` in ONE forked child under a CPU-time limit: a decoy configuration, the program, the variant, the
         program again.  oracle: ends in time with success or ColangParsingError naming the file; loads exactly the flows it defines;
         the variant changes neither the flows nor the comment-free `source_code`; the second load equals the first.
         model: `CommentStrip.strip` on every call `ColangTransformer._remove_source_code_comments` received.
  fmt    synthetic exception objects (with/without line/column, odd values) raised by a patched
         `parse_colang_file` inside the real `_parse_colang_files_recursively`; same oracle and model.
"""
import contextlib
import functools
import glob
import io
import json
import os
import random
import re
import select
import shutil
import signal
import tempfile
import time
import traceback

from ..impl import c13_cfg as cfgk
from ..impl import c13_str as strk
from ..translate import c13 as tr
from ..translate import c13raise as tr_raise
from ..translate import c13imports as tr_imp
from ..translate import c13regex as tr_rx

PROPERTY = "C13"
THEOREM_MODULE = "NemoVerif.Theorems.C13"
RULE = ("layout cases: a source (one of the ~210 shipped .co files of the tree under test, a generated Colang 2.x / 1.0 program, or "
        "a generated token-line list with tabs/CRLF/brackets/comment lines/bad dedents) plus 1-3 edits drawn from {blank line "
        "(empty / blanks / CRLF) after any line, trailing blanks, end-of-line comment (2.x), indentation x k (k in 2..4)}; "
        "error-path cases: truncation / insertion of a token-soup fragment / deletion / replacement at random positions of shipped "
        "files and pure token soups (valid Unicode), plus synthetic exception objects through the real wrapper. non-trivial = the "
        "original parses to at least one flow/message and the edit changed the text (layout), or the loader raised (error path); "
        "configuration directories: 1-3 .co files + config.yml (+ a COLANGPATH library of modules / packages) with imports drawn from "
        "the standard library, the local modules, missing modules; repeated / circular / self imports; one edit of the tree from "
        "{import line written twice, import lines re-ordered, import copied to another file, config.yml entry twice / also as import, "
        "blank line / trailing blanks / end-of-line comment / CRLF at an import line}. "
        "string forms: 1-3 flows of 1-5 statements, each a string (quote kind x single/triple x one-line/multi-line x 14 ingredients x long tail) in "
        "one of 22 positions, comment lines / end-of-line comments, + one layout variant at a statement end; the same with one quote character "
        "mutated; pumped lines (32 atoms + the bodies of flagged regex repeats, x 30-60, 11 breakers, 10 opening delimiters) in 21 places of a 2.x "
        "and 26 of a 1.0 file; non-trivial = the program loads to at least one flow (pumps: the load ended). "
        "distinct = distinct case JSON.")
TRUSTED_BASE = [
    "translator harness/translate/c13.py (colang.lark _NEWLINE / COMMENT / %ignore shapes, PythonIndenter constants, shape of the try/except and of the formatter)",
    "correspondence harness harness/props/C13.py (piece segmentation by the grammar's own lexer with dont_ignore; exception records) + Lean driver Drive/C13.lean",
    "translator harness/translate/c13imports.py (shape of _join_config's import_paths part, _load_imported_paths, the loop of _parse_colang_files_recursively, from_path) and the world extraction of harness/impl/c13_cfg.py (os.walk order, yaml import_paths, resolution rule) for Models/ImportLoop.lean",
    "translator harness/translate/c13regex.py (shape and pattern of ColangTransformer._remove_source_code_comments for Models/CommentStrip.lean; the set of quote-initial terminals of colang.lark; static + dynamic inventory of the regexes run over file content with the nested-quantifier analysis) and the recording wrapper around _remove_source_code_comments (harness/impl/c13_str.py)",
    "Lark's LALR engine and ColangTransformer are functions of the token stream (types, texts of non-`_` terminals); the Colang 1.0 parser uses get_numbered_lines' indentation only through comparisons - both only searched, not proved",
]
ASSUMPTIONS = [
    "file content is valid Unicode text; edits are made outside tokens (not inside multi-line strings, not inside the line break absorbed by `and`/`or` continuation keywords)",
    "CPython str.strip()/split('\\n')/splitlines() semantics as modelled (whitespace set of str.isspace)",
    "exceptions that do not derive from Exception (KeyboardInterrupt, SystemExit) pass through the loader by design",
]
SERIAL = False
ERR_TIMEOUT = float(os.environ.get("VERIF_C13_TIMEOUT", "10"))
ERR_CPU = int(os.environ.get("VERIF_C13_ERR_CPU", "5"))
N_STR_QUICK = int(os.environ.get("VERIF_C13_NSTR", "500"))


def translate():
    info = tr.run()
    info["raise_sites"] = tr_raise.run()
    info.update(tr_imp.run())
    info["regexes"] = tr_rx.run()
    return info


# ============================================================================================ sources

REPO = os.environ.get("VERIF_REPO", "/repo")
_FILES = None


def shipped():
    """(relative path, version) of every .co file of the tree under test."""
    global _FILES
    if _FILES is None:
        out = []
        for p in sorted(glob.glob(os.path.join(REPO, "**", "*.co"), recursive=True)):
            if "/.git/" in p or "/node_modules/" in p:
                continue
            out.append(os.path.relpath(p, REPO))
        _FILES = out
    return _FILES


def read_src(src):
    if "file" in src:
        with open(os.path.join(REPO, src["file"]), encoding="utf-8") as f:
            text = f.read()
    else:
        text = src["text"]
    if src.get("deblank"):
        # the same program without its removable blank lines (Colang 1.0): the edits then put blank lines back, also
        # where the shipped file already has one (e.g. between a comment and the `$var = ...` it documents)
        text = deblank_v1(text)
    return text


# ---------------------------------------------------------------- generated programs

NAMES = ["a", "b", "c", "greet", "user said", "bot say", "wait", "x1", "Ev", "UtteranceBotAction", "is", "inner flow", "andy", "orca", "iffy"]
EXPRS = ['"to define it"', '1', '"hi"', '$x', '$x + 1', '"a # b"', "'q'", '[1, 2]', '{"k": 1}', 'len($x)', 'True', 'None', '"it\'s"', '3.5']


def _ind(rng, style):
    return style


def gen_v2_program(rng):
    """A small valid Colang 2.x program as text. Each block picks its own indentation width."""
    lines = []

    def unit(rng):
        return rng.choice([" ", "  ", "   ", "    "]) * 1

    def stmt_simple(rng):
        r = rng.random()
        nm = rng.choice(["a", "b", "c", "greet", "Ev", "wait"])
        if r < 0.2:
            return f"match {nm}"
        if r < 0.35:
            return f"send {nm}(x={rng.choice(EXPRS)})"
        if r < 0.5:
            return f"await {nm} {rng.choice(EXPRS)}"
        if r < 0.6:
            return f"$x = {rng.choice(EXPRS)}"
        if r < 0.7:
            return f"start {nm} as $r"
        if r < 0.8:
            return rng.choice(["pass", "abort", "return", "break" if False else "pass", 'log "m"'])
        if r < 0.9:
            return f"{nm} {rng.choice(EXPRS)}"
        return f"match {nm}.Finished()"

    def block(rng, indent, depth, n):
        for _ in range(n):
            r = rng.random()
            if depth < 3 and r < 0.14:
                lines.append(indent + f"if $x == {rng.randrange(3)}")
                block(rng, indent + unit(rng), depth + 1, rng.randrange(1, 3))
                if rng.random() < 0.5:
                    lines.append(indent + "else")
                    block(rng, indent + unit(rng), depth + 1, rng.randrange(1, 3))
            elif depth < 3 and r < 0.24:
                lines.append(indent + f"when {rng.choice(['a', 'b', 'Ev'])}")
                block(rng, indent + unit(rng), depth + 1, rng.randrange(1, 3))
                if rng.random() < 0.6:
                    lines.append(indent + f"or when {rng.choice(['c', 'greet'])}")
                    block(rng, indent + unit(rng), depth + 1, 1)
                if rng.random() < 0.3:
                    lines.append(indent + "else")
                    block(rng, indent + unit(rng), depth + 1, 1)
            elif depth < 3 and r < 0.3:
                lines.append(indent + "while $x < 3")
                block(rng, indent + unit(rng), depth + 1, rng.randrange(1, 3))
            elif r < 0.4:
                # continuation keyword on the next line (the line break is part of the `_AND`/`_OR` token)
                kw = rng.choice(["and", "or"])
                lines.append(indent + f"match {rng.choice(['a', 'b'])}")
                lines.append(indent + unit(rng) + f"{kw} {rng.choice(['c', 'Ev'])}")
            elif r < 0.5:
                # bracketed argument list over several lines (line breaks inside brackets are not tokens)
                lines.append(indent + "send Ev(x=1,")
                lines.append(rng.choice(["", " ", indent + "      "]) + "y=[1,")
                lines.append(indent + "  2], z=" + rng.choice(EXPRS) + ")")
            elif r < 0.56:
                lines.append(indent + rng.choice(['"""doc string"""', '"""two', ]))
                if lines[-1].endswith("two"):
                    lines.append(indent + '   lines"""')
            elif r < 0.62:
                lines.append(indent + "# a comment line at block level")
                lines.append(indent + stmt_simple(rng))
            else:
                lines.append(indent + stmt_simple(rng))

    for f in range(rng.randrange(1, 4)):
        if rng.random() < 0.2:
            lines.append("@active")
        params = rng.choice(["", " $x", " $x $y=1", "($x, $y=2)"])
        lines.append(f"flow {rng.choice(['main', 'f', 'g', 'user said', 'h'])}{f}{params}")
        block(rng, unit(rng), 1, rng.randrange(1, 5))
        if rng.random() < 0.5:
            lines.append("")
    return "\n".join(lines) + ("\n" if rng.random() < 0.8 else "")


def gen_cont_program(rng):
    """Valid Colang 2.x programs whose statements are and/or groups broken over several lines (the line break before a
    continuation line is swallowed by the `_AND` / `_OR` keyword token), nested with brackets, as in the shipped library."""
    lines = []
    specs = ["a", "b", "c.Finished()", "Ev(x=1)", 'UtteranceUserAction.Finished(final_transcript="hi")', "wait 2", 'user said "yes"', "$r.Finished()", "greet $x"]

    def group(rng, indent, head, depth=0):
        """head + first spec, then 1-3 continuation lines"""
        u = rng.choice(["  ", "    ", " ", "      "])
        first = rng.choice(specs)
        if depth < 2 and rng.random() < 0.3:
            first = "(" + rng.choice(specs) + " " + rng.choice(["and", "or"]) + " " + rng.choice(specs) + ")"
        out = [indent + head + " " + first]
        kw = rng.choice(["and", "or"])
        for _ in range(rng.randrange(1, 4)):
            nxt = rng.choice(specs)
            r = rng.random()
            if depth < 2 and r < 0.2:
                # nested group in brackets, itself broken over lines (line breaks inside brackets are plain `_NEWLINE`s or keywords)
                inner_kw = "or" if kw == "and" else "and"
                out.append(indent + u + kw + " (" + rng.choice(specs))
                out.append(indent + u + u + inner_kw + " " + rng.choice(specs) + ")")
                continue
            if r < 0.3:
                out.append("")  # blank line inside the group (already part of the keyword token)
            out.append(indent + u + kw + " " + nxt + (" as $r" if head in ("start", "await") and rng.random() < 0.3 and "(" not in nxt and " " not in nxt else ""))
        return out

    for f in range(rng.randrange(1, 4)):
        lines.append(f"flow g{f}" + rng.choice(["", " $x"]))
        ind = rng.choice(["  ", "    ", "   "])
        for _ in range(rng.randrange(1, 4)):
            r = rng.random()
            if r < 0.55:
                lines.extend(group(rng, ind, rng.choice(["match", "match", "await", "start", "send", "activate"])))
            elif r < 0.8:
                lines.extend(group(rng, ind, "when"))
                body = ind + rng.choice(["  ", "    "])
                lines.append(body + rng.choice(["send d", "pass", "match e"]))
                if rng.random() < 0.5:
                    g = group(rng, ind, "or when")
                    lines.extend(g)
                    lines.append(body + "send f")
                if rng.random() < 0.3:
                    lines.append(ind + "else")
                    lines.append(body + "pass")
            elif r < 0.9:
                lines.append(ind + rng.choice(["a", "greet $x", "wait 1"]))
                lines.append(ind + "  " + rng.choice(["and", "or"]) + " " + rng.choice(["b", "c"]))
            else:
                lines.append(ind + rng.choice(["send d", "$x = 1", "match e", "# comment line"]))
                if lines[-1].endswith("comment line"):
                    lines.append(ind + "pass")
        if rng.random() < 0.4:
            lines.append("")
    return "\n".join(lines) + "\n"


def gen_pre_program(rng):
    """Valid Colang 2.x programs that exercise the line-based `_apply_pre_parsing_expansions`: the stand-alone `...` statement
    (in flow bodies, nested blocks, first / middle / last statement), `$x = ..."instruction"` values, one-line and multi-line
    docstrings (also directly before a `...`), multi-line string values."""
    lines = []
    for f in range(rng.randrange(1, 4)):
        lines.append(f"flow p{f}" + rng.choice(["", " $x"]))
        ind = rng.choice(["  ", "    ", "   ", " "])
        r = rng.random()
        if r < 0.35:
            lines.append(ind + '"""' + rng.choice(["doc", "A one-line docstring.", "say ... nothing"]) + '"""')
        elif r < 0.6:
            lines.append(ind + '"""' + rng.choice(["First line", ""]))
            lines.append(ind + rng.choice(["more text", "  ... inside the docstring", "x = 1"]))
            if rng.random() < 0.4:
                lines.append("")
                lines.append(ind + "last paragraph")
            lines.append(ind + rng.choice(['"""', 'end."""']))
        for _ in range(rng.randrange(1, 5)):
            r = rng.random()
            if r < 0.3:
                lines.append(ind + "...")
            elif r < 0.45:
                lines.append(ind + "$v = ..." + rng.choice(['"give me a number"', "'an instruction'", ' "with a space"', '"""a long\n' + ind + '  instruction"""']))
            elif r < 0.6:
                inner = ind + rng.choice(["  ", "    "])
                lines.append(ind + rng.choice(["if $x", "when a", "while $x"]))
                if rng.random() < 0.5:
                    lines.append(inner + rng.choice(["match b", "send c"]))
                lines.append(inner + "...")
                if rng.random() < 0.4:
                    lines.append(inner + "send d")
            elif r < 0.7:
                lines.append(ind + '$s = """multi')
                lines.append(ind + '   line"""')
            elif r < 0.8:
                lines.append(ind + "# a comment line")
                lines.append(ind + "...")
            else:
                lines.append(ind + rng.choice(["match a", "send b(x=1)", "$x = 2", "await c"]))
        if rng.random() < 0.5:
            lines.append("")
    return "\n".join(lines) + ("\n" if rng.random() < 0.8 else "")


def gen_v1_program(rng):
    lines = []
    u = rng.choice(["  ", "    ", "   "])
    for i in range(rng.randrange(1, 3)):
        lines.append(f"define user intent{i}")
        for j in range(rng.randrange(1, 3)):
            lines.append(u + json.dumps(rng.choice(["hello", "hi there", "what # is", "a or b", "bye"])))
        lines.append("")
    for i in range(rng.randrange(1, 3)):
        lines.append(f"define bot reply{i}")
        lines.append(u + json.dumps(rng.choice(["ok", "sure thing", "no"])))
        if rng.random() < 0.3:
            lines.append(u + '"multi')
            lines.append(u + 'line"')
        lines.append("")
    for i in range(rng.randrange(1, 3)):
        lines.append(f"define flow f{i}")
        lines.append(u + f"user intent{rng.randrange(2)}")
        if rng.random() < 0.5:
            lines.append(u + "# comment")
        if rng.random() < 0.6:
            lines.append(u + "if $x > 1")
            lines.append(u + u + "bot reply0")
            if rng.random() < 0.5:
                lines.append(u + "else")
                lines.append(u + u + "bot reply1")
        if rng.random() < 0.4:
            lines.append(u + "$y = execute act(a=1)")
        if rng.random() < 0.4:
            lines.append(u + "when user intent0")
            lines.append(u + u + "bot reply0")
            lines.append(u + "else when user intent1")
            lines.append(u + u + "bot reply1")
        if rng.random() < 0.3:
            lines.extend(_v1_continuation(rng, u, u))
        lines.append(u + f"bot reply{rng.randrange(2)}")
        lines.append("")
    return "\n".join(lines)


def _v1_continuation(rng, ind, u):
    """a statement continued on the next line(s): a line ending in `\\` or in the operator ` or` (get_numbered_lines joins them)"""
    r = rng.random()
    if r < 0.35:
        return [ind + "$y = execute act(a=1, \\", ind + u + rng.choice(["", " "]) + "b=2)"]
    if r < 0.7:
        return [ind + "if $x > 1 or" + rng.choice(["", " \\"]), ind + u + u + "$x < 0", ind + u + "bot reply0"]
    return [ind + "if $x > 1 or", ind + u + "$x < 0 or \\", ind + "$x == 7", ind + u + "bot reply0"]


V1_INSTR = ["Extract the math question from the user's input.", "Greet the user warmly,", "and mention the weather.", "Summarize: all of it", "a \"quoted\" word",
            "x", "use $name here", "two  blanks", "ünï ✓", "ends with or", "1 + 1 = 2"]


def gen_v1_comment_program(rng):
    """Valid Colang 1.0 programs in which comments CARRY MEANING: `# ...` lines (one or several) and `\"\"\" ... \"\"\"` blocks (one line
    or several) directly above `$var = ...` (-> `instructions` of `generate_value`), above bot steps (-> generation instructions
    at run time), above other steps, above `define`; some already separated from the statement by a blank line."""
    lines = []
    u = rng.choice(["  ", "    ", "   "])

    def comment(ind):
        r = rng.random()
        if r < 0.4:
            out = [ind + "# " + rng.choice(V1_INSTR)]
        elif r < 0.6:
            out = [ind + "# " + rng.choice(V1_INSTR) for _ in range(rng.choice([2, 2, 3]))]
        elif r < 0.7:
            out = [ind + rng.choice(["#", "#x", "#  padded  "]), ind + "# " + rng.choice(V1_INSTR)]
        elif r < 0.82:
            out = [ind + '"""' + rng.choice(V1_INSTR).replace('"', "'") + '"""']
        elif r < 0.92:
            out = [ind + '"""' + rng.choice(["", "First line"]), ind + rng.choice(["", " "]) + rng.choice(V1_INSTR).replace('"', "'"), ind + rng.choice(["more", "  indented more"]), ind + '"""']
        else:
            out = [ind + '"""Open', ind + 'closed here"""']
        if rng.random() < 0.15:
            out.append("")  # the shipped generate_value config has the blank line already
        return out

    lines.append("define user ask")
    lines.append(u + json.dumps(rng.choice(["hello", "what # is", "a or b"])))
    lines.append("")
    if rng.random() < 0.5:
        lines.extend(comment(""))
    lines.append("define bot reply0")
    lines.append(u + json.dumps(rng.choice(["ok", "sure thing"])))
    lines.append("")
    for i in range(rng.randrange(1, 4)):
        if rng.random() < 0.3:
            lines.extend(comment(""))
        lines.append(rng.choice([f"define flow c{i}", f"define flow c{i}", "define flow", f"define subflow s{i}"]) if i else f"define flow c{i}")
        lines.append(u + "user ask")
        for _ in range(rng.randrange(1, 5)):
            r = rng.random()
            ind = u
            if r < 0.15:
                lines.append(u + "if $x > 1")
                ind = u + u
            if rng.random() < 0.8:
                lines.extend(comment(ind))
            r = rng.random()
            if r < 0.4:
                lines.append(ind + f"${rng.choice(['q', 'name', 'full_query'])} = ...")
            elif r < 0.7:
                lines.append(ind + rng.choice(["bot reply0", "bot answer", "bot $q", 'bot "literal"']))
            elif r < 0.8:
                lines.append(ind + "$y = execute act(a=$q)")
            elif r < 0.9:
                lines.extend(_v1_continuation(rng, ind, u))
            else:
                lines.append(ind + "$z = 1")
        lines.append(u + "bot reply0")
        lines.append("")
    return "\n".join(lines)


TOKLINE_VOCAB = ["flow", "a", "b", "match", "send", "(", ")", "[", "]", "{", "}", ",", "x=1", '"s # t"', "$v", "=", "1", "if", "else", "and", "or when", "foo", ":", "..."]


def gen_tok_lines(rng):
    """Random line list: [indent string, [words], trailing blanks, comment|None, eol]."""
    n = rng.randrange(1, 9)
    levels = [""]
    out = []
    for i in range(n):
        r = rng.random()
        if r < 0.35 and out:
            levels = levels + [levels[-1] + rng.choice([" ", "  ", "\t", "    ", " \t"])]
        elif r < 0.6 and len(levels) > 1:
            levels = levels[: rng.randrange(1, len(levels))]
        ind = levels[-1]
        if rng.random() < 0.08:
            ind = rng.choice([" ", "   ", "\t ", "     "])  # arbitrary (possibly inconsistent) indentation
        kind = rng.random()
        if kind < 0.12:
            words = []  # blank or comment-only line
        else:
            words = [rng.choice(TOKLINE_VOCAB) for _ in range(rng.randrange(1, 5))]
        trail = rng.choice(["", "", "", " ", "  "])
        comment = rng.choice([None, None, None, "# c", "#", "# x # y \"q"])
        eol = "\r\n" if rng.random() < 0.08 else "\n"
        out.append([ind, words, trail, comment, eol])
    return out


def render_tok_lines(lines):
    s = []
    for ind, words, trail, comment, eol in lines:
        s.append(ind + " ".join(words) + trail + ((" " if words else "") + comment if comment else "") + eol)
    return "".join(s)


# ============================================================================================ pieces and edits

_RT = {}


def worker_init():
    import logging

    logging.disable(logging.CRITICAL)
    from lark.lexer import LexerThread
    from nemoguardrails.colang.v2_x.lang.parser import ColangParser

    p = ColangParser()
    L = p._lark_parser
    _RT["L"] = L
    _RT["raw"] = L._build_lexer(dont_ignore=True)
    _RT["ignore"] = set(L.ignore_tokens)
    _RT["LexerThread"] = LexerThread


def _rt():
    if not _RT:
        worker_init()
    return _RT


_STANDALONE_DOTS = re.compile(r"^ +(\.\.\.)(?=[ \t\r]*$)", re.M)


def segment(text):
    """Split `text` into pieces with the grammar's own terminals (ignored ones kept).  Returns (pieces, problem)."""
    rt = _rt()
    from lark.exceptions import UnexpectedCharacters

    # The stand-alone `...` statement is rewritten by `_apply_pre_parsing_expansions` before the lexer runs; lexed raw, its dots
    # would glue to a following quoted line (`STRING: /(\.\.\.\s*)?"…"/`).  Lex up to the end of such dots separately.
    cuts = [m.end(1) for m in _STANDALONE_DOTS.finditer(text)]
    pieces = []
    pos = 0
    while pos <= len(text):
        end = next((c for c in cuts if c > pos), len(text))
        chunk = text[pos:end]
        if not chunk:
            break
        nxt = end
        try:
            for t in rt["LexerThread"].from_text(rt["raw"], chunk).lex(None):
                v = str(t)
                if t.type == "COMMENT" and "COMMENT" in rt["ignore"]:
                    pieces.append(["c", v])
                elif t.type in rt["ignore"]:
                    if any(ch not in " \t" for ch in v):
                        return pieces, "ignored terminal with unexpected text"
                    pieces.extend(["s"] if ch == " " else ["b"] for ch in v)
                elif t.type == "_NEWLINE":
                    i = 0
                    while i < len(v):
                        if v.startswith("\r\n", i):
                            pieces.append(["n", True])
                            i += 2
                        elif v[i] == "\n":
                            pieces.append(["n", False])
                            i += 1
                        elif v[i] == " ":
                            pieces.append(["s"])
                            i += 1
                        elif v[i] == "\t":
                            pieces.append(["b"])
                            i += 1
                        elif v[i] == "#":
                            # a grammar whose _NEWLINE also covers comments (as Lark's Python grammar does): the text is
                            # still split into the same kinds of pieces, so that the edits and the AST oracle keep working
                            j = v.find("\n", i)
                            j = len(v) if j < 0 else (j - 1 if v[j - 1] == "\r" else j)
                            pieces.append(["c", v[i:j]])
                            i = j
                        else:
                            return pieces, "unexpected character in _NEWLINE"
                else:
                    pieces.append(["t", t.type, v])
            if nxt >= len(text):
                break
            pos = nxt
        except UnexpectedCharacters as e:
            bad = pos + e.pos_in_stream
            if text[bad] == "\t":
                pieces.append(["b"])
                pos = bad + 1
                continue
            return pieces, "unlexable character " + repr(text[bad])
    return pieces, None


def render(pieces):
    out = []
    for p in pieces:
        k = p[0]
        out.append(p[2] if k == "t" else " " if k == "s" else "\t" if k == "b" else p[1] if k == "c" else ("\r\n" if p[1] else "\n"))
    return "".join(out)


def in_run_flags(pieces):
    """flags[i] = piece i lies inside a `_NEWLINE` run (it is a newline, or a blank after one)."""
    flags, run = [], False
    for p in pieces:
        if p[0] == "n":
            run = True
        elif p[0] in ("s", "b"):
            pass
        else:
            run = False
        flags.append(run if p[0] in ("n", "s", "b") else False)
    return flags


def ws_pieces(s):
    return [["s"] if ch == " " else ["b"] for ch in s]


def scale_ws_in_text(v, k):
    """scale the blanks that follow line breaks inside a multi-line keyword token (`_AND` / `_OR`)."""
    return re.sub(r"(?<=\n)[ \t]+", lambda m: "".join(ch * k for ch in m.group(0)), v)


OPEN_T = ("LPAR", "LSQB", "LBRACE")
CLOSE_T = ("RPAR", "RSQB", "RBRACE")


KW_T = ("_AND", "_OR")
SPEC_HEADS = ("MATCH", "AWAIT", "START", "STOP", "ACTIVATE", "DEACTIVATE", "SEND", "WHEN", "_OR_WHEN", "NAME", "LPAR")


def is_kw_break(p):
    """a continuation keyword token that swallowed the line break(s) before it: `(\r?\n[\t ]*)+and ` / `...or `"""
    return p[0] == "t" and p[1] in KW_T and (p[2].startswith("\n") or p[2].startswith("\r\n"))


def _pre_sensitive(pieces, at):
    """the line that ends at break `at` ends with the `...` statement, a docstring / triple-quoted string, or an `..."instruction"`"""
    j = at - 1
    while j >= 0 and pieces[j][0] in ("s", "b", "c"):
        j -= 1
    if j < 0 or pieces[j][0] != "t":
        return False
    ty, v = pieces[j][1], pieces[j][2]
    return ty in ("DOT", "LONG_STRING") or (ty == "STRING" and v.startswith("..."))


def break_positions(pieces, kw_only=False, aim=None):
    """indices of the line breaks of the text: newline pieces and continuation-keyword tokens.  `kw_only`: only the latter;
    aim="pre": only the ends of lines the pre-parsing expansion looks at (`...`, docstrings) and of their neighbours."""
    allp = [i for i, p in enumerate(pieces) if p[0] == "n" or is_kw_break(p)]
    if aim == "pre":
        hot = [k for k, i in enumerate(allp) if _pre_sensitive(pieces, i)]
        ks = sorted({k + d for k in hot for d in (-1, 0, 0, 1) if 0 <= k + d < len(allp)})
        if ks:
            return [allp[k] for k in ks]
    kws = [i for i in allp if pieces[i][0] == "t"]
    if kw_only and kws:
        return kws
    return allp


def _statement_head(pieces, at):
    """type of the first token of the statement that contains position `at` (walk back to the previous newline piece)"""
    j = at - 1
    head = None
    while j >= 0 and pieces[j][0] != "n":
        if pieces[j][0] == "t":
            head = pieces[j][1]
        j -= 1
    return head


def apply_edit_v2(pieces, e):
    """Edits on the segmentation of `content + "\\n"`. Mirrors the list surgery of the theorems; a line break that a
    continuation keyword swallowed (`match a⏎  or b`) is edited inside / in front of that keyword token."""
    op = e["op"]
    if op == "scale":
        k = e["k"]
        out, flags = [], in_run_flags(pieces)
        for p, f in zip(pieces, flags):
            if p[0] in ("s", "b") and f:
                out.extend([p] * k)
            elif p[0] == "t" and p[1] in ("_AND", "_OR", "_OR_WHEN", "_ELSE_IF") and "\n" in p[2]:
                out.append(["t", p[1], scale_ws_in_text(p[2], k)])
            else:
                out.append(p)
        return out
    if op == "crlf":  # the whole file with CRLF line ends (a `\r` in front of every line break outside tokens = trailing whitespace)
        return [["n", True] if p[0] == "n" else p for p in pieces]
    if op == "blank0":  # blank line before the first line
        return ws_pieces(e["ws"]) + [["n", e.get("cr", False)]] + pieces
    pos = break_positions(pieces, e.get("kw", False), e.get("aim"))
    if not pos:
        return pieces
    at = pos[e["at"] % len(pos)]
    kw = pieces[at][0] == "t"
    if op == "blank":
        if kw:
            p = pieces[at]
            return pieces[:at] + [["t", p[1], ("\r\n" if e.get("cr", False) else "\n") + e["ws"] + p[2]]] + pieces[at + 1:]
        return pieces[:at] + [["n", e.get("cr", False)]] + ws_pieces(e["ws"]) + pieces[at:]
    if op == "trail":
        return pieces[:at] + ws_pieces(e["ws"]) + pieces[at:]
    if op == "comment":
        # only an END-OF-LINE comment: the piece before the line break (ignoring blanks) must be a body token
        j = at - 1
        while j >= 0 and pieces[j][0] == "s":
            j -= 1
        if j < 0 or pieces[j][0] != "t":
            return pieces
        # not inside an open bracket: argument expressions are kept as source slices, a comment there would become part
        # of the expression text (evaluated by Python's own parser) - outside what "end-of-line comment" means here
        depth = 0
        for p in pieces[:at]:
            if p[0] == "t":
                depth += 1 if p[1] in OPEN_T else -1 if p[1] in CLOSE_T else 0
        if depth > 0:
            return pieces
        # before a continuation keyword: only in and/or groups of specs (match / await / start / when ...), not inside a
        # multi-line *expression* (`if $x⏎ and $y`), whose text is again a source slice
        if kw and _statement_head(pieces, at) not in SPEC_HEADS:
            return pieces
        return pieces[:at] + ws_pieces(e["gap"]) + [["c", e["text"]]] + pieces[at:]
    raise ValueError(op)


def gen_edit_v2(rng, allow_tab=True, kw=None, aim=None):
    e = _gen_edit_v2(rng, allow_tab, kw)
    if aim and e["op"] in ("blank", "trail", "comment"):
        e["aim"] = aim
        e["kw"] = False
    return e


def _gen_edit_v2(rng, allow_tab=True, kw=None):
    r = rng.random()
    blanks = ["", "", " ", "    ", "  \t", "\t"] if allow_tab else ["", " ", "    "]
    kw = (rng.random() < 0.25) if kw is None else kw  # aim at a line break swallowed by an `and` / `or` continuation keyword
    if r < 0.3:
        return {"op": "blank", "at": rng.randrange(10 ** 6), "ws": rng.choice(blanks), "cr": rng.random() < 0.1, "kw": kw}
    if r < 0.55:
        return {"op": "trail", "at": rng.randrange(10 ** 6), "kw": kw, "ws": rng.choice([" ", "  ", "     "] + (["\t", " \t"] if allow_tab and rng.random() < 0.3 else []))}
    if r < 0.8:
        return {"op": "comment", "at": rng.randrange(10 ** 6), "kw": kw, "gap": rng.choice(["", " ", "  "]),
                "text": rng.choice(["# note", "#", "# flow x", "#  define y ", "# \"quoted\" 'x'", "# tab\there", "# ünï ✓", "## $v = 1 (", "# ...", "# meta: exclude from llm"])}
    if r < 0.94:
        return {"op": "scale", "k": rng.choice([2, 2, 3, 4])}
    if r < 0.97:
        return {"op": "crlf"}
    return {"op": "blank0", "ws": rng.choice(["", " ", "  "]), "cr": False}


# ---- Colang 1.0 edits work on raw lines

_V1_CONT = re.compile(r"(\\|(?<![^\s])or)\s*(#.*)?$")


def _v1_string_lines(raw, recs):
    """indices of the raw lines that belong to a multi-line string (first to last line), from the REAL records"""
    inside = set()
    for r in recs:
        if "\n" in r["text"]:
            span = r["text"].count("\n") + 1
            inside.update(range(r["number"] - span, r["number"]))
    return inside


def v1_comment_lines(raw, in_string=()):
    """indices of the comment lines of a Colang 1.0 text: `# ...` lines and the lines of `\"\"\" ... \"\"\"` blocks (one line or
    several).  Written from the language description (used to AIM edits only, never to judge)."""
    out, in_block = set(), False
    for i, l in enumerate(raw):
        if i in in_string:
            continue
        t = l.strip()
        if in_block:
            out.add(i)
            if t.split("#")[0].rstrip().endswith('"""'):
                in_block = False
            continue
        if t.startswith("#"):
            out.add(i)
        elif t.startswith('"""'):
            out.add(i)
            t0 = t.split("#")[0].rstrip()
            if t0 == '"""' or not t0.endswith('"""'):
                in_block = True
    return out


def v1_boundaries(content):
    return _v1_boundaries(content)


@functools.lru_cache(maxsize=64)
def _v1_boundaries(content):
    """(safe insertion indices for a blank line, indices of lines that may get trailing blanks).  A blank line is meaningless
    layout everywhere except inside a multi-line string (taken from the REAL numbered lines) and between a line ending in
    `\\` / ` or` and its continuation (syntactic, conservative).  In particular it IS layout between a comment and the statement
    the comment documents, between two comment lines, and inside a `\"\"\"` comment block."""
    from nemoguardrails.colang.v1_0.lang.utils import get_numbered_lines

    raw = content.split("\n")
    try:
        recs = get_numbered_lines(content)
    except Exception:  # noqa
        return [], []
    in_string = _v1_string_lines(raw, recs)
    unsafe = {j for j in range(1, len(raw)) if j in in_string and (j - 1) in in_string}
    # an unterminated multi-line string swallows the rest of the file without a record: nothing is safe after its first line
    opener = _v1_unterminated_string(raw, in_string)
    if opener is not None:
        unsafe.update(range(opener + 1, len(raw) + 1))
        in_string = set(in_string) | set(range(opener, len(raw)))
    for j in range(1, len(raw) + 1):
        if _V1_CONT.search(raw[j - 1]):
            unsafe.add(j)
    safe = [j for j in range(len(raw) + 1) if j not in unsafe]
    trail_ok = [i for i in range(len(raw)) if i not in in_string]
    return safe, trail_ok


def _v1_unterminated_string(raw, in_string):
    """index of the first line that opens a multi-line string which is never closed (no record is produced for it)"""
    comment = v1_comment_lines(raw, in_string)
    for i, l in enumerate(raw):
        if i in in_string or i in comment:
            continue
        t = l.strip()
        if t.startswith('"') and not t.startswith('"""') and not t.endswith('"'):
            return i
    return None


def deblank_v1(content):
    """drop every blank line that is meaningless layout (see v1_boundaries)"""
    raw = content.split("\n")
    safe, _ = v1_boundaries(content)
    ok = set(safe)
    keep = [l for i, l in enumerate(raw) if not (l.strip() == "" and i in ok and i < len(raw) - 1)]
    return "\n".join(keep)


def v1_comment_positions(content):
    return _v1_comment_positions(content)


@functools.lru_cache(maxsize=64)
def _v1_comment_positions(content):
    """(insertion indices next to a comment line, comment lines and their neighbours) - where the 1.0 layout edits are aimed"""
    raw = content.split("\n")
    safe, trail_ok = v1_boundaries(content)
    try:
        from nemoguardrails.colang.v1_0.lang.utils import get_numbered_lines

        in_string = _v1_string_lines(raw, get_numbered_lines(content))
    except Exception:  # noqa
        return [], []
    cl = v1_comment_lines(raw, in_string)
    pos = [j for j in safe if (j - 1) in cl or j in cl]
    tl = [i for i in trail_ok if i in cl or (i - 1) in cl or (i + 1) in cl]
    return pos, tl


def apply_edit_v1(content, e):
    raw = content.split("\n")
    op = e["op"]
    if op == "scale":
        out = []
        for l in raw:
            n = len(l) - len(l.lstrip(" "))
            out.append(" " * (n * e["k"]) + l[n:])
        return "\n".join(out)
    safe, trail_ok = v1_boundaries(content)
    if op == "crlf":  # CRLF line ends: a trailing `\r` on every line outside multi-line strings
        ok = set(trail_ok)
        return "\n".join(l + "\r" if i in ok and i < len(raw) - 1 and not l.endswith("\r") else l for i, l in enumerate(raw))
    if e.get("aim") == "comment":
        # next to a comment line: between a comment and the statement it documents, between two comment lines, inside a block
        cpos, ctl = v1_comment_positions(content)
        safe, trail_ok = (cpos or safe), (ctl or trail_ok)
    if op == "blank":
        if not safe:
            return content
        j = safe[e["at"] % len(safe)]
        return "\n".join(raw[:j] + [e["ws"]] + raw[j:])
    if op == "trail":
        if not trail_ok:
            return content
        j = trail_ok[e["at"] % len(trail_ok)]
        raw[j] = raw[j] + e["ws"]
        return "\n".join(raw)
    raise ValueError(op)


def gen_edit_v1(rng, aim=None):
    e = _gen_edit_v1(rng)
    if aim and e["op"] in ("blank", "trail"):
        e["aim"] = aim
    return e


def _gen_edit_v1(rng):
    r = rng.random()
    if r < 0.4:
        return {"op": "blank", "at": rng.randrange(10 ** 6), "ws": rng.choice(["", "", " ", "    ", "\t", " \t "])}
    if r < 0.72:
        return {"op": "trail", "at": rng.randrange(10 ** 6), "ws": rng.choice([" ", "  ", "\t", " \t", "\r"])}
    if r < 0.77:
        return {"op": "crlf"}
    return {"op": "scale", "k": rng.choice([2, 3, 4])}


# ============================================================================================ cases

SOUP = ["flow", "define", "user", "bot", "match", "send", "await", "(", ")", "\"", "\"\"\"", "$x", "=", "\n", "\n  ", "\n    ", "\n ",
        "if", "else", "when", "or", "and", "#", "\\", "\t", "...", "import", "a", "1", ":", ",", "[", "]", "{", "}", "é", "'", " ", "execute",
        "\r\n", "  ", "@", "->", ".", "✓", "(x=1, 2)", "\n  send Ev(x=1, $y)", "\u2028", "\x0c", "0", "flow a\n  b\n", " or", "!", "?", "%", "**", "as", "$", "\u00a0"]


def mutate_text(rng, s):
    r = rng.random()
    if r < 0.25 and s:
        return s[: rng.randrange(len(s) + 1)]
    if r < 0.55:
        i = rng.randrange(len(s) + 1)
        return s[:i] + "".join(rng.choice(SOUP) for _ in range(rng.choice([1, 1, 1, 2, 3]))) + s[i:]
    if r < 0.75 and s:
        i = rng.randrange(len(s))
        return s[:i] + s[min(len(s), i + rng.randrange(1, 8)):]
    if r < 0.85 and s:
        i = rng.randrange(len(s))
        return s[:i] + rng.choice(SOUP) + s[i + 1:]
    return "".join(rng.choice(SOUP) for _ in range(rng.randrange(1, 40)))


def mutate_quote(rng, s):
    """one quote character removed / doubled / replaced by the other kind / a backslash put in front: unterminated, mis-nested and
    re-paired strings (what is left of the line, often 30-200 characters, is what a matcher has to give up on)"""
    pos = [i for i, ch in enumerate(s) if ch in "\"'"]
    if not pos:
        return mutate_text(rng, s)
    i = rng.choice(pos)
    r = rng.random()
    if r < 0.45:
        return s[:i] + s[i + 1:]
    if r < 0.6:
        return s[:i] + s[i] + s[i:]
    if r < 0.8:
        return s[:i] + ("'" if s[i] == '"' else '"') + s[i + 1:]
    if r < 0.9:
        return s[:i] + "\\" + s[i:]
    return s[:i] + s[i] * 3 + s[i + 1:]


EXC_CLASSES = ["Exception", "ValueError", "KeyError", "AssertionError", "IndexError", "SyntaxError", "UnicodeError", "RecursionError",
               "DedentError", "UnexpectedToken", "UnexpectedCharacters", "UnexpectedEOF", "VisitError", "BaseOnly"]
ATTR_VALUES = ["missing", None, 0, 1, 2, 3, 4, 7, -1, -2, -9, True, {"other": "str"}, {"other": "float"}]


def gen_fmt_case(rng):
    n = rng.randrange(0, 5)
    lines = [rng.choice(["flow a", "  match b", "", "  x", "define user q"]) for _ in range(n)]
    content = "\n".join(lines) + rng.choice(["", "\n"])
    return {"kind": "fmt", "cls": rng.choice(EXC_CLASSES), "line": rng.choice(ATTR_VALUES), "column": rng.choice(ATTR_VALUES + ["missing", "missing"]),
            "msg": rng.choice(["boom", "", "Unexpected token", "ü: x"]), "content": content, "version": rng.choice(["1.0", "2.x"])}


def gen_cases(rng, tier):
    quick = tier == "quick"
    files = shipped()
    cases = []
    n_tok, n_v2gen, n_v2file, n_v1gen, n_v1file, n_err, n_fmt = (700, 500, 500, 200, 300, 900, 300) if quick else (8000, 6000, 3500, 2000, 1500, 12000, 3000)
    for _ in range(n_tok):
        cases.append({"kind": "tok", "lines": gen_tok_lines(rng), "edits": [gen_edit_v2(rng)]})
    for _ in range(n_v2gen):
        cases.append({"kind": "v2", "src": {"text": gen_v2_program(rng)}, "edits": [gen_edit_v2(rng, allow_tab=rng.random() < 0.3) for _ in range(rng.choice([1, 1, 2, 3]))]})
    for _ in range(n_v2gen // 2):
        # and/or groups over several lines x every layout edit, half of them aimed at the line break before a continuation line
        cases.append({"kind": "v2", "src": {"text": gen_cont_program(rng)},
                      "edits": [gen_edit_v2(rng, allow_tab=False, kw=rng.random() < 0.6) for _ in range(rng.choice([1, 1, 2, 3]))]})
    for _ in range(n_v2gen // 2):
        # `...` statements, docstrings, `..."instruction"` values x every layout edit, most of them aimed at those very lines / neighbours
        cases.append({"kind": "v2", "src": {"text": gen_pre_program(rng)},
                      "edits": [gen_edit_v2(rng, allow_tab=False, aim="pre" if rng.random() < 0.7 else None) for _ in range(rng.choice([1, 1, 2, 3]))]})
    ps = pre_sweep_cases()
    cases.extend(ps if not quick else rng.sample(ps, min(len(ps), 120)))
    for _ in range(n_v2file + n_v1file):
        cases.append({"kind": "file", "src": {"file": rng.choice(files)}, "seed": rng.randrange(10 ** 9), "n": rng.choice([1, 1, 2, 3])})
    for _ in range(n_v1gen):
        cases.append({"kind": "v1", "src": {"text": gen_v1_program(rng)}, "edits": [gen_edit_v1(rng) for _ in range(rng.choice([1, 1, 2]))]})
    for _ in range(n_v1gen):
        # comments that carry meaning x every 1.0 layout edit, most of them aimed at the comment lines and their neighbours
        cases.append({"kind": "v1", "src": {"text": gen_v1_comment_program(rng)},
                      "edits": [gen_edit_v1(rng, aim="comment" if rng.random() < 0.7 else None) for _ in range(rng.choice([1, 1, 2]))]})
    cm = comment_sweep_cases()
    cases.extend(cm if not quick else rng.sample(cm, min(len(cm), 160)))
    cs = cont_sweep_cases()
    cases.extend(cs if not quick else rng.sample(cs, min(len(cs), 90)))
    if not quick:
        # exhaustive sub-space: every single-line blank / trailing-space edit and scale 2,3 of every shipped file
        for f in files:
            cases.append({"kind": "file", "src": {"file": f}, "sweep": True})
    for _ in range(n_err):
        r = rng.random()
        if r < 0.8:
            cases.append({"kind": "err", "src": {"file": rng.choice(files)}, "seed": rng.randrange(10 ** 9), "n": rng.choice([1, 1, 2, 3])})
        else:
            cases.append({"kind": "err", "src": {"text": ""}, "seed": rng.randrange(10 ** 9), "n": 1, "version": rng.choice(["1.0", "2.x"])})
    for _ in range(n_fmt):
        cases.append(gen_fmt_case(rng))
    for _ in range(300 if quick else 2500):
        # whole configuration directories: several .co files + config.yml + imports (repeated, circular, missing, standard
        # library, local modules), Colang 2.x and 1.0, each with an edit that cannot change the meaning
        cases.append(cfgk.gen_cfg_case(rng))
    for _ in range(N_STR_QUICK if quick else 3000):
        # every string form (STRING / LONG_STRING of either quote kind, single- and multi-line, escapes, lone quotes of the other kind,
        # `#`, interpolations, long line tails) in every position where a string may stand, loaded under a CPU-time limit
        cases.append(strk.gen_str_case(rng))
    for _ in range(300 if quick else 3000):
        # back-tracking candidates: one short text repeated 30-60 times + a character that ends it, in every kind of place a line can
        # stand (2.x and 1.0); the bodies of the repeats the static scan flagged are among the repeated texts
        cases.append(strk.gen_pump_case(rng, tr_rx.flagged_bodies()))
    for _ in range(200 if quick else 2000):
        # error path aimed at the string forms: one quote character of such a program removed / doubled / swapped / escaped (unterminated
        # and mis-nested strings with long line tails), loaded under the CPU-time limit
        cases.append({"kind": "str", "text": mutate_quote(rng, strk.texts_of(strk.gen_str_case(rng))[0]), "vtext": None, "pump": True, "mut": "quote"})
    return cases


# ============================================================================================ implementation side

def _is_v2(content):
    from nemoguardrails.colang import _is_colang_v2

    return _is_colang_v2(content)


def real_stream(text):
    """post-lexer token stream of the real lexer + PythonIndenter on `text` -> {"ok": [...]} | {"err": cls}"""
    rt = _rt()
    out = []
    try:
        for t in rt["L"].lex(text):
            v = str(t)
            if t.type == "_NEWLINE":
                out.append(["n", v.rsplit("\n", 1)[1]])
            elif t.type == "_INDENT":
                out.append(["i", v])
            elif t.type == "_DEDENT":
                out.append(["d", v])
            else:
                out.append(["b", t.type, v])
        return {"ok": out}
    except Exception as e:  # noqa
        return {"err": type(e).__name__, "n": len(out)}


_NL_LAYOUT = re.compile(r"[ \t]*(?:\r?\n[ \t]*)+")
DROP_KEYS = {"_source", "source_code", "_source_mapping"}


def canon_ast(x):
    from dataclasses import fields, is_dataclass

    if is_dataclass(x) and not isinstance(x, type):
        d = {f.name: getattr(x, f.name) for f in fields(x)}
        d["_cls"] = type(x).__name__
        return canon_ast(d)
    if isinstance(x, dict):
        out = {}
        for k, v in x.items():
            if k == "_source_mapping" and isinstance(v, dict) and v.get("comment") is not None:
                # positions and source text are dropped, but the comment is CONTENT: the Colang 1.0 runtime hands the comment above
                # a step to the LLM as instructions (`compute_next_state`: `next_step_comment`), `_process_ellipsis` turns the
                # comment above `$v = ...` into the `instructions` of `generate_value`
                out["_comment"] = v["comment"]
            if k in DROP_KEYS:
                continue
            if k == "file_info" and isinstance(v, dict):
                v = {kk: vv for kk, vv in v.items() if kk == "exclude_from_llm"}
            out[str(k)] = canon_ast(v)
        return out
    if isinstance(x, (list, tuple)):
        return [canon_ast(v) for v in x]
    if isinstance(x, str):
        # expression / argument texts are source slices: layout inside a bracketed multi-line expression is kept verbatim
        # (and ignored by the evaluator) - compared modulo blanks around line breaks
        return _NL_LAYOUT.sub("\n", x) if "\n" in x else x
    if isinstance(x, (int, float, bool)) or x is None:
        return x
    return repr(x)


def parse_real(content, version, strip_calls=None):
    from nemoguardrails.colang import parse_colang_file

    try:
        with contextlib.redirect_stdout(io.StringIO()), (strk.recording_strip(strip_calls) if strip_calls is not None else contextlib.nullcontext()):
            r = parse_colang_file("f.co", content=content, version=version)
        c = canon_ast(r)
        n = len(c.get("flows", []) or []) + len(c.get("user_messages", {}) or {}) + len(c.get("bot_messages", {}) or {})
        return {"ok": json.dumps(c, sort_keys=True, ensure_ascii=False, default=str), "n": n}
    except Exception as e:  # noqa
        return {"exc": type(e).__name__, "msg": str(e)[:200]}


def expanded_text(content):
    from nemoguardrails.colang.v2_x.lang.parser import ColangParser

    try:
        return ColangParser._apply_pre_parsing_expansions(content)
    except Exception:  # noqa
        return content


def pre_real(content):
    from nemoguardrails.colang.v2_x.lang.parser import ColangParser

    try:
        return {"ok": ColangParser._apply_pre_parsing_expansions(content).split("\n")}
    except Exception as e:  # noqa
        return {"err": type(e).__name__}


def numbered_real(content):
    from nemoguardrails.colang.v1_0.lang.utils import get_numbered_lines

    try:
        return {"ok": [[r["text"], r["indentation"], r["comment"], r["number"]] for r in get_numbered_lines(content)]}
    except Exception as e:  # noqa
        return {"err": type(e).__name__}


def expand_file_case(case):
    """A `file` case carries a seed instead of explicit edits (the position space depends on the file)."""
    content = read_src(case["src"])
    version = "2.x" if _is_v2(content) else "1.0"
    if case.get("sweep"):
        return content, version, None
    rng = random.Random(case["seed"])
    if version == "2.x":
        edits = [gen_edit_v2(rng, allow_tab=rng.random() < 0.25) for _ in range(case["n"])]
    else:
        edits = [gen_edit_v1(rng) for _ in range(case["n"])]
    return content, version, edits


def run_layout_v2(content, edits, want_ast):
    """original/edited text, real streams, segmentation; optionally ASTs."""
    pieces, prob = segment(content + "\n")
    obs = {"version": "2.x", "pieces": pieces, "seg_problem": prob}
    if prob:
        return obs
    if render(pieces) != content + "\n":
        obs["seg_problem"] = "segmentation does not render back to the text"
        return obs
    ep = pieces
    for e in edits:
        ep = apply_edit_v2(ep, e)
    etext = render(ep)
    if not etext.endswith("\n"):
        obs["seg_problem"] = "edited text lost its final newline"
        return obs
    econtent = etext[:-1]
    obs["changed"] = econtent != content
    obs["epieces"] = ep
    # the lexer sees the text AFTER `_apply_pre_parsing_expansions`: streams and model pieces are taken from the expanded texts
    x, ex = expanded_text(content), expanded_text(econtent)
    obs["stream"] = real_stream(x + "\n")
    obs["estream"] = real_stream(ex + "\n")
    mp, mprob = (pieces, None) if x == content else segment(x + "\n")
    mep, meprob = segment(ex + "\n")
    if mprob or meprob:
        obs["model_seg_problem"] = mprob or meprob
    else:
        obs["mpieces"], obs["mepieces"] = mp, mep
        if len(x) <= MAX_TEXTSEG_CHARS and len(ex) <= MAX_TEXTSEG_CHARS:
            obs["mtext"], obs["metext"] = x + "\n", ex + "\n"  # what the lexer gets, character level (TextLayout.seg)
    # the edited text is re-segmented by the real lexer: it must give back the edited pieces (else the edit fell inside a token)
    rp, rprob = segment(econtent + "\n")
    obs["reseg_same"] = (rprob is None and rp == ep)
    if rprob is None and rp != ep:
        obs["epieces"] = rp  # the model is always asked about what the real lexer sees
    elif rprob is not None:
        obs["seg_problem"] = "edited: " + rprob
    if ("..." in content or '"""' in content) and len(content) < 12000:
        obs["pre"] = [pre_real(content), pre_real(econtent)]
        obs["pre_in"] = [content.split("\n"), econtent.split("\n")]
    if want_ast:
        # every call the transformer's comment stripper receives on the original goes to the Lean scanner too (CommentStrip)
        obs["strip"] = []
        obs["ast"] = parse_real(content, "2.x", obs["strip"])
        obs["east"] = parse_real(econtent, "2.x")
        obs["etext_tail"] = econtent[-160:]
    return obs


def run_layout_v1(content, edits):
    obs = {"version": "1.0"}
    econtent = content
    for e in edits:
        econtent = apply_edit_v1(econtent, e)
    obs["changed"] = econtent != content
    obs["raw"] = content.split("\n")
    obs["eraw"] = econtent.split("\n")
    obs["num"] = numbered_real(content)
    obs["enum"] = numbered_real(econtent)
    obs["ast"] = parse_real(content, "1.0")
    obs["east"] = parse_real(econtent, "1.0")
    return obs


def sweep_file(content, version):
    """every single-line blank / trailing-space edit and scaling by 2 and 3: count of AST differences (first kept)."""
    base = parse_real(content, version)
    res = {"version": version, "sweep": True, "ast": {k: v for k, v in base.items() if k != "ok"}, "tried": 0, "bad": None}
    if "ok" not in base:
        return res
    variants = []
    if version == "2.x":
        pieces, prob = segment(content + "\n")
        if prob or render(pieces) != content + "\n":
            res["seg_problem"] = prob or "render"
            return res
        nl_idx = break_positions(pieces)
        nn = len(nl_idx)
        for at in range(nn):
            variants.append({"op": "blank", "at": at, "ws": "", "cr": False})
            variants.append({"op": "trail", "at": at, "ws": "  "})
            variants.append({"op": "comment", "at": at, "gap": " ", "text": "# c"})
        variants += [{"op": "scale", "k": 2}, {"op": "scale", "k": 3}]
        for e in variants:
            t = render(apply_edit_v2(pieces, e))[:-1]
            r = parse_real(t, version)
            res["tried"] += 1
            if r.get("ok") != base["ok"]:
                b = {"edit": e, "east": {k: v for k, v in r.items() if k != "ok"}}
                if e["op"] == "comment":
                    j = nl_idx[e["at"]] - 1
                    while j >= 0 and pieces[j][0] == "s":
                        j -= 1
                    if j >= 0 and pieces[j][0] == "t" and pieces[j][1] in ("LONG_STRING", "DOT"):
                        # the structural class of the open finding eol-comment-pre-expansion-v2: kept apart so that it cannot hide another one
                        res.setdefault("known_bad", b)
                        continue
                if res["bad"] is None:
                    res["bad"] = b
    else:
        safe, trail_ok = v1_boundaries(content)
        for at in range(len(safe)):
            variants.append({"op": "blank", "at": at, "ws": ""})
        for at in range(len(trail_ok)):
            variants.append({"op": "trail", "at": at, "ws": "  "})
        variants += [{"op": "scale", "k": 2}, {"op": "scale", "k": 3}]
        for e in variants:
            r = parse_real(apply_edit_v1(content, e), version)
            res["tried"] += 1
            if r.get("ok") != base["ok"] and res["bad"] is None:
                res["bad"] = {"edit": e, "east": {k: v for k, v in r.items() if k != "ok"}}
    return res


# ---------------------------------------------------------------- error path

def attr_of(e, name):
    if not hasattr(e, name):
        return "missing"
    v = getattr(e, name)
    if v is None:
        return None
    if isinstance(v, int):
        return int(v)
    return "other"


def exc_record(e):
    try:
        s = f"{e}"
    except Exception as e2:  # noqa
        s = "<str failed: " + type(e2).__name__ + ">"
    return {"cls": type(e).__name__, "isException": isinstance(e, Exception), "isValueError": isinstance(e, ValueError),
            "line": attr_of(e, "line"), "column": attr_of(e, "column"), "str": s}


def _site(e):
    tb = traceback.extract_tb(e.__traceback__)
    return tb[-1].name if tb else "?"


def raise_site(e):
    """where the parser exception came from, set against the static scan of raise sites (translate/c13raise.py):
    explicit = the innermost frame stands on a `raise` / `assert` statement of a scanned parser module (then `static` = the class
    the scan resolved there); implicit = a scanned module, but an ordinary statement (IndexError from indexing, ...);
    engine = raised inside lark; outside = elsewhere."""
    try:
        tb = traceback.extract_tb(e.__traceback__)
        if not tb:
            return {"kind": "none"}
        last = tb[-1]
        fn = os.path.realpath(last.filename)
        root = os.path.realpath(REPO) + os.sep
        if fn.startswith(root):
            rel = fn[len(root):]
            if rel in tr_raise.scanned_files():
                st = tr_raise.site_index().get((rel, last.lineno))
                if st is None:
                    return {"kind": "implicit", "file": rel, "line": last.lineno}
                classes = sorted({x["cls"] for x in tr_raise.scan() if x["file"] == rel and x["line"] == last.lineno})
                return {"kind": "explicit", "file": rel, "line": last.lineno, "static": classes}
            return {"kind": "outside", "file": rel}
        if os.sep + "lark" + os.sep in fn:
            return {"kind": "engine", "known": type(e).__name__ in {x["cls"] for x in tr_raise.scan() if x["kind"] == "engine"}}
        return {"kind": "outside", "file": os.path.basename(fn)}
    except Exception as ex:  # noqa
        return {"kind": "error", "msg": f"{type(ex).__name__}: {ex}"[:120]}


def observe_load(fn, path):
    """Run fn() (a loader call); describe the outcome, and the parser exception the wrapper handled (if any)."""
    from nemoguardrails.colang.v2_x.runtime.errors import ColangParsingError

    try:
        fn()
        return {"outcome": "ok"}
    except BaseException as e:  # noqa
        inner = e.__cause__ if isinstance(e, ColangParsingError) and e.__cause__ is not None else e.__context__
        names = [f.name for f in traceback.extract_tb(e.__traceback__)]
        o = {"outcome": "raised", "cls": type(e).__name__, "is_cpe": type(e) is ColangParsingError, "msg": str(e), "names_file": path in str(e),
             "site": _site(e), "in_wrapper": "_parse_colang_files_recursively" in names,
             "at_wrapper": names[-1] in ("_parse_colang_files_recursively", "format_colang_parsing_error_message") if names else False}
        if inner is not None:
            o["inner"] = exc_record(inner)
            o["raise_site"] = raise_site(inner)
        return o


def in_child(fn, timeout):
    """Run fn() -> JSON-able in a forked child; kill it after `timeout` seconds (regex back-tracking cannot be interrupted in-process)."""
    r, w = os.pipe()
    pid = os.fork()
    if pid == 0:
        try:
            os.close(r)
            try:
                res = fn()
            except BaseException as e:  # noqa
                res = {"outcome": "adapter", "cls": type(e).__name__, "msg": str(e)[:200]}
            data = json.dumps(res, ensure_ascii=False, default=str).encode("utf-8", "surrogatepass")
            with os.fdopen(w, "wb") as f:
                f.write(data)
        finally:
            os._exit(0)
    os.close(w)
    buf = b""
    deadline = time.time() + timeout
    timed_out = False
    with os.fdopen(r, "rb") as f:
        while True:
            left = deadline - time.time()
            if left <= 0:
                timed_out = True
                break
            ready, _, _ = select.select([f], [], [], left)
            if not ready:
                timed_out = True
                break
            chunk = os.read(f.fileno(), 1 << 16)
            if not chunk:
                break
            buf += chunk
    if timed_out:
        try:
            os.kill(pid, signal.SIGKILL)
        except OSError:
            pass
    os.waitpid(pid, 0)
    if timed_out:
        return {"outcome": "timeout", "timeout_s": timeout}
    try:
        return json.loads(buf.decode("utf-8", "surrogatepass"))
    except Exception:  # noqa
        return {"outcome": "adapter", "cls": "ChildDied", "msg": buf[-200:].decode("utf-8", "replace")}


def load_config_dir(content, version):
    from nemoguardrails import RailsConfig

    d = tempfile.mkdtemp(prefix="c13-")
    try:
        with open(os.path.join(d, "config.yml"), "w") as f:
            f.write('colang_version: "2.x"\nmodels: []\n' if version == "2.x" else "models: []\n")
        path = os.path.join(d, "rails.co")
        with open(path, "w", encoding="utf-8", newline="") as f:
            f.write(content)
        with contextlib.redirect_stdout(io.StringIO()), contextlib.redirect_stderr(io.StringIO()):
            o = observe_load(lambda: RailsConfig.from_path(d), path)
        o["path"] = path
        return o
    finally:
        shutil.rmtree(d, ignore_errors=True)


def run_err(case):
    base = read_src(case["src"])
    version = case.get("version") or ("2.x" if _is_v2(base) else "1.0")
    if len(base) > 4000 and case["n"] > 0:
        base = base[:4000]
    rng = random.Random(case["seed"])
    content = base
    for _ in range(case["n"]):
        content = mutate_text(rng, content)
    content = content.encode("utf-8", "replace").decode("utf-8")  # valid Unicode text only
    # one forked child under a CPU-time limit (a normal load needs < 1 s of CPU): a spinning parser is recognised independently of the
    # machine load, without a retry; sleeping hangs are caught by the wall-clock limit
    obs = cfgk.in_child_cpu([lambda: load_config_dir(content, version)], ERR_CPU, 120.0)[0]
    if obs.get("outcome") == "timeout":
        obs["timeout_s"] = obs.get("limit")
    obs["version"] = version
    obs["content"] = content
    obs["lines"] = content.splitlines()
    if version == "1.0":
        # the mutated text also exercises the odd corners of get_numbered_lines (continuations, `"""`, `#` in strings, IndexError)
        obs["raw"] = content.split("\n")
        obs["num"] = numbered_real(content)
    return obs


class BaseOnly(BaseException):
    pass


def make_exc(case):
    import lark
    from lark.indenter import DedentError

    cls = case["cls"]
    msg = case["msg"]
    if cls == "BaseOnly":
        e = BaseOnly(msg)
    elif cls == "DedentError":
        e = DedentError(msg)
    elif cls == "UnexpectedToken":
        e = lark.exceptions.UnexpectedToken(lark.Token("NAME", "x"), {"A"})
    elif cls == "UnexpectedCharacters":
        e = lark.exceptions.UnexpectedCharacters("abc", 1, 1, 2)
    elif cls == "UnexpectedEOF":
        e = lark.exceptions.UnexpectedEOF(["A"])
    elif cls == "VisitError":
        e = lark.exceptions.VisitError("rule", None, ValueError(msg))
    elif cls == "UnicodeError":
        e = UnicodeError(msg)
    else:
        e = __builtins__[cls](msg) if isinstance(__builtins__, dict) else getattr(__builtins__, cls)(msg)
    for name in ("line", "column"):
        v = case[name]
        if v == "missing":
            if hasattr(e, name) and cls in ("Exception", "ValueError", "KeyError", "AssertionError", "IndexError", "RecursionError", "BaseOnly", "DedentError", "UnicodeError"):
                pass
            continue
        if isinstance(v, dict):
            v = "3" if v["other"] == "str" else 2.0
        try:
            setattr(e, name, v)
        except Exception:  # noqa
            pass
    return e


def run_fmt(case):
    import nemoguardrails.rails.llm.config as cfgmod

    d = tempfile.mkdtemp(prefix="c13f-")
    try:
        path = os.path.join(d, "rails.co")
        with open(path, "w", encoding="utf-8", newline="") as f:
            f.write(case["content"])
        exc = make_exc(case)
        rec = exc_record(exc)
        if rec["str"].startswith("<str failed"):
            # an artefact of the synthetic object (lark formats line/column with %d in __str__), not a loader question
            return {"outcome": "skip", "version": case["version"], "inner": rec}

        def fake_parse(*a, **k):
            raise exc

        orig = cfgmod.parse_colang_file
        cfgmod.parse_colang_file = fake_parse
        try:
            raw = {"colang_version": case["version"]}
            o = observe_load(lambda: cfgmod._parse_colang_files_recursively(raw, [("rails.co", path)], []), path)
        finally:
            cfgmod.parse_colang_file = orig
        o["inner"] = rec
        o["path"] = path
        o["version"] = case["version"]
        o["lines"] = case["content"].splitlines()
        return o
    finally:
        shutil.rmtree(d, ignore_errors=True)


def count_flow_headers(text):
    """number of `flow ...` definitions written in a Colang 2.x text (start of a line, outside triple-quoted strings)"""
    t = re.sub(r'"""[\s\S]*?"""', '""', text)
    t = re.sub(r"'''[\s\S]*?'''", "''", t)
    return len(re.findall(r"^flow[ \t]+\S", t, re.M))


IN_PROCESS_LIMIT = float(os.environ.get("VERIF_C13_INPROC", "60"))   # wall-clock seconds for one in-process layout case (normally < 2 s)
SWEEP_LIMIT = float(os.environ.get("VERIF_C13_SWEEP", "1200"))
FORKED_KIND_LIMIT = float(os.environ.get("VERIF_C13_FORKED", "120"))
_HANGS = 0


class _InProcessHang(BaseException):
    pass


def run_impl(case):
    """the in-process kinds (real lexer / parser called directly) run under a wall-clock watchdog: a change that makes the parser spin
    on ordinary input must end as a verdict about THAT case, not as a time-out of the whole check.  (sre checks for signals while
    it back-tracks, so the alarm does interrupt a regex.)  After two hangs a worker waits 5 s only, after six 1.5 s."""
    global _HANGS
    k = case["kind"]
    if k in ("tok", "v2", "v1", "file"):
        limit = SWEEP_LIMIT if case.get("sweep") else IN_PROCESS_LIMIT
        if _HANGS >= 6:
            limit = min(limit, 1.5)
        elif _HANGS >= 2:
            limit = min(limit, 5)
    else:
        # the kinds that load in forked children (own CPU / wall limits) also call the real parser in the worker itself (the world of a
        # `cfg` tree, the token types of a `str` program, get_numbered_lines of an `err` text): the whole case gets a generous limit
        limit = FORKED_KIND_LIMIT if _HANGS < 2 else (20 if _HANGS < 6 else 8)

    def on_alarm(signum, frame):
        raise _InProcessHang()

    old_handler = signal.signal(signal.SIGALRM, on_alarm)
    t0 = time.time()
    old_timer = signal.setitimer(signal.ITIMER_REAL, limit, 2.0)
    try:
        try:
            return _run_impl(case)
        finally:
            signal.setitimer(signal.ITIMER_REAL, 0)
    except _InProcessHang:
        _HANGS += 1
        return {"inproc_hang": limit, "version": "?"}
    finally:
        signal.signal(signal.SIGALRM, old_handler)
        if old_timer[0] > 0:  # the run budget of the main process (replay / serial mode)
            signal.setitimer(signal.ITIMER_REAL, max(old_timer[0] - (time.time() - t0), 0.5))


def _run_impl(case):
    k = case["kind"]
    if k == "tok":
        text = render_tok_lines(case["lines"])
        content = text[:-1] if text.endswith("\n") and not text.endswith("\r\n") else text
        return run_layout_v2(content, case["edits"], want_ast=False)
    if k in ("v2", "v1"):
        content = read_src(case["src"])
        obs = run_layout_v2(content, case["edits"], want_ast=True) if k == "v2" else run_layout_v1(content, case["edits"])
        if k == "v2":
            obs["headers"] = count_flow_headers(content)
        if "ast" in obs and "ok" not in obs["ast"]:
            # generated programs are valid by construction and contain blank lines: does the same text without them parse?
            obs["deblank_ok"] = "ok" in parse_real("\n".join(l for l in content.split("\n") if l.strip()), "2.x" if k == "v2" else "1.0")
        return obs
    if k == "file":
        content, version, edits = expand_file_case(case)
        if edits is None:
            return sweep_file(content, version)
        obs = run_layout_v2(content, edits, want_ast=True) if version == "2.x" else run_layout_v1(content, edits)
        obs["edits"] = edits
        if version == "2.x":
            obs["headers"] = count_flow_headers(content)
        # keep observations small: the piece lists of big files are only needed by the model requests
        return obs
    if k == "err":
        return run_err(case)
    if k == "fmt":
        return run_fmt(case)
    if k == "cfg":
        return cfgk.run_cfg(case, canon_ast)
    if k == "str":
        obs = strk.run_str(case, canon_ast)
        if obs.get("base", {}).get("outcome") == "ok":
            # which string-like terminals the real lexer produced (coverage tags `str-term:*`)
            st = real_stream(expanded_text(obs["text"]) + "\n")
            obs["terms"] = sorted({t[1] for t in st.get("ok", []) if t[0] == "b" and t[1] in tr_rx.STRING_LIKE | {"COMMENT"}})
        return obs
    raise ValueError(k)


# ============================================================================================ model side

MAX_MODEL_PIECES = 6000
MAX_TEXTSEG_CHARS = int(os.environ.get("VERIF_C13_TEXTSEG", "4000"))


def scale_text_py(text, k):
    """every blank of the run of blanks directly after a line break, k times (what `TextLayout.scaleText k false` does)"""
    return re.sub(r"(?<=\n)[ \t]+", lambda m: "".join(ch * k for ch in m.group(0)), text)


def token_table(pieces):
    """[offset, type, length] of the body tokens of a segmentation = the oracle of the character-level scanner"""
    out, pos = [], 0
    for p in pieces:
        k = p[0]
        if k == "t":
            out.append([pos, p[1], len(p[2])])
            pos += len(p[2])
        elif k == "c":
            pos += len(p[1])
        elif k == "n":
            pos += 2 if p[1] else 1
        else:
            pos += 1
    return out


def _edits_of(case, obs):
    return case.get("edits") or obs.get("edits") or []


def model_requests(case, obs):
    if "inproc_hang" in obs:
        return []
    k = case["kind"]
    if k == "cfg":
        return cfgk.model_requests_cfg(case, obs)
    if k == "str":
        return strk.model_requests_str(case, obs)
    if obs.get("sweep"):
        return []
    if obs.get("version") == "2.x" and k in ("tok", "v2", "file"):
        if obs.get("seg_problem") or "mpieces" not in obs or len(obs["mpieces"]) > MAX_MODEL_PIECES:
            return []
        reqs = [{"m": "C13.layout", "pieces": obs["mpieces"]}, {"m": "C13.layout", "pieces": obs["mepieces"]}]
        edits = _edits_of(case, obs)
        if len(edits) == 1 and edits[0]["op"] == "scale":
            reqs.append({"m": "C13.layout", "pieces": obs["mpieces"], "k": edits[0]["k"]})
        if "pre" in obs:
            reqs += [{"m": "C13.preexpand", "lines": obs["pre_in"][0]}, {"m": "C13.preexpand", "lines": obs["pre_in"][1]}]
        if "mtext" in obs:
            # character level: Lean scans the text itself; only WHICH body terminal starts where (and how long it is) comes from the real lexer
            reqs += [{"m": "C13.textseg", "text": obs["mtext"], "toks": token_table(obs["mpieces"])},
                     {"m": "C13.textseg", "text": obs["metext"], "toks": token_table(obs["mepieces"])}]
            if len(edits) == 1 and edits[0]["op"] == "scale" and scale_text_py(obs["mtext"], edits[0]["k"]) == obs["metext"]:
                # `text_layout_scale`: Lean's own `scaleText k` of the original text must be the edited text and scan to its pieces
                reqs.append({"m": "C13.textseg", "text": obs["mtext"], "k": edits[0]["k"], "toks": token_table(obs["mepieces"])})
        reqs += [{"m": "C13.strip", "text": c["in"]} for c in obs.get("strip", [])]  # always last
        return reqs
    if obs.get("version") == "1.0" and k in ("v1", "file"):
        if not HAVE_NUMBERED:
            return []
        # the original goes in as CONTENT (Lean's own `splitNL` = `content.split("\n")`, theorems `numbered_content_*`), the edited text as lines
        reqs = [{"m": "C13.numbered", "text": "\n".join(obs["raw"])}, {"m": "C13.numbered", "lines": obs["eraw"]}]
        edits = _edits_of(case, obs)
        if len(edits) == 1 and edits[0]["op"] == "scale":
            # Lean's own `scaleLine k` on the original lines (the edit of `numbered_lines_scale_partial`)
            reqs.append({"m": "C13.numbered", "text": "\n".join(obs["raw"]), "k": edits[0]["k"]})  # Lean's `scaleContent` on the content
        return reqs
    if k in ("err", "fmt"):
        reqs = _errwrap_requests(k, obs)
        if "num" in obs and HAVE_NUMBERED:
            reqs = reqs + [{"m": "C13.numbered", "lines": obs["raw"]}]
        return reqs
    return []


def _errwrap_requests(k, obs):
    if obs.get("outcome") in ("timeout", "adapter", "skip"):
        return []
    if obs.get("outcome") == "raised" and not obs.get("at_wrapper"):
        return []  # raised outside the modelled try/except (e.g. import resolution): only the oracle speaks
    if obs.get("outcome") == "ok" and k == "err":
        return [{"m": "C13.errwrap", "exc": None, "version": obs["version"], "path": obs["path"], "lines": obs["lines"]}]
    if "inner" not in obs:
        return []
    return [{"m": "C13.errwrap", "exc": obs["inner"], "version": obs["version"], "path": obs["path"], "lines": obs["lines"]}]


HAVE_NUMBERED = os.path.exists(os.path.join(os.path.dirname(os.path.dirname(os.path.dirname(os.path.abspath(__file__)))), "lean", "NemoVerif", "Models", "NumberedLines.lean"))

ERRMAP = {"UnexpectedCharacters": "badChar", "DedentError": "dedent", "AssertionError": "parenAssert"}


def _cmp_stream(real, model, what):
    if "err" in real:
        exp = ERRMAP.get(real["err"])
        if exp is None:
            return f"{what}: real lexer raised {real['err']} which the Layout model does not know"
        if model.get("err") != exp:
            return f"{what}: real lexer+indenter raised {real['err']}, model says {json.dumps(model)[:120]}"
        return None
    if "err" in model:
        return f"{what}: model says {model['err']}, real lexer+indenter produced {len(real['ok'])} tokens"
    r, m = real["ok"], model["ok"]
    m2 = [t if t[0] != "d" or t[1] is not None else ["d", ""] for t in m]
    if r != m2:
        for i, (a, b) in enumerate(zip(r, m2)):
            if a != b:
                return f"{what}: token {i} differs: real {a} model {b}"
        return f"{what}: stream lengths differ: real {len(r)} model {len(m2)}"
    return None


_REC_FIELDS = ("text", "indentation", "comment")


def _cmp_numbered(real, m, what):
    """real get_numbered_lines vs the NumberedLines model; names the first record AND field that differ"""
    if "err" in real or "err" in m:
        if real.get("err") != m.get("err"):
            return f"get_numbered_lines ({what}): real {json.dumps(real)[:100]} model {json.dumps({k: v for k, v in m.items() if k != 'tight'})[:100]}"
        return None
    rr = [r[:3] for r in real["ok"]]
    if rr != m["ok"]:
        for i, (a, b) in enumerate(zip(rr, m["ok"])):
            if a != b:
                f = next(j for j in range(3) if a[j] != b[j])
                return (f"get_numbered_lines ({what}) record {i} (source line {real['ok'][i][3]}, text {a[0][:40]!r}) field `{_REC_FIELDS[f]}`: "
                        f"real {a[f]!r} model {b[f]!r}")
        return f"get_numbered_lines ({what}): {len(rr)} records vs model {len(m['ok'])}"
    return None


def erased(stream):
    if "ok" not in stream:
        return {"err": stream["err"]}
    return {"ok": [[t[0]] if t[0] != "b" else (["b", t[1], ""] if t[1].startswith("_") else t) for t in stream["ok"]]}


_UNSAFE = {"\ue085": "\x85", "\ue028": "\u2028", "\ue029": "\u2029"}


def _unsafe(x):
    """undo Drive/C13.lean `safeStr` (the runner splits driver output with str.splitlines())."""
    if isinstance(x, str):
        for a, b in _UNSAFE.items():
            if a in x:
                x = x.replace(a, b)
        return x
    if isinstance(x, list):
        return [_unsafe(v) for v in x]
    if isinstance(x, dict):
        return {k: _unsafe(v) for k, v in x.items()}
    return x


def compare(case, obs, mouts):
    if "inproc_hang" in obs:
        return None
    k = case["kind"]
    if k == "cfg":
        return cfgk.compare_cfg(case, obs, mouts)
    if k == "str":
        return strk.compare_str(case, obs, _unsafe(mouts))
    mouts = _unsafe(mouts)
    if obs.get("version") == "2.x" and k in ("tok", "v2", "file"):
        ns = len(obs.get("strip", []))
        if ns and len(mouts) >= ns and all("steps" in m for m in mouts[-ns:]):
            d = strk.compare_calls(obs["strip"], mouts[-ns:])
            if d:
                return d
            mouts = mouts[:-ns]
        if mouts and "text" in mouts[-1]:
            m = mouts[-1]
            mouts = mouts[:-1]
            if m["text"] != obs["metext"]:
                return "Lean's scaleText of the original text is not the scaled text"
            if m.get("seg") != obs["mepieces"]:
                return "character-level scanner on Lean's scaled text does not give the pieces of the scaled text: " + json.dumps(m.get("segerr") or "pieces differ")
        if "mtext" in obs and len(mouts) >= 2 and all(("seg" in m or "segerr" in m) for m in mouts[-2:]):
            for m, real, what in zip(mouts[-2:], (obs["mpieces"], obs["mepieces"]), ("original", "edited")):
                if "segerr" in m:
                    return f"character-level scanner ({what} text): model says {m['segerr']}, the real lexer segmented the text into {len(real)} pieces"
                if m["seg"] != real:
                    i = next((i for i, (a, b) in enumerate(zip(real, m["seg"])) if a != b), min(len(real), len(m["seg"])))
                    return f"character-level scanner ({what} text): piece {i}: real lexer {real[i:i+2]} model {m['seg'][i:i+2]}"
            mouts = mouts[:-2]
        d = _cmp_stream(obs["stream"], mouts[0], "original text") or _cmp_stream(obs["estream"], mouts[1], "edited text")
        if d:
            return d
        if "pre" in obs:
            for real, m, what in zip(obs["pre"], mouts[-2:], ("original", "edited")):
                if real.get("ok") != m.get("ok"):
                    ro, mo = real.get("ok") or [], m.get("ok") or []
                    i = next((i for i, (a, b) in enumerate(zip(ro, mo)) if a != b), min(len(ro), len(mo)))
                    return f"_apply_pre_parsing_expansions ({what}): output line {i}: real {ro[i:i+1]!r} model {mo[i:i+1]!r} ({len(ro)} vs {len(mo)} lines)"
            mouts = mouts[:-2]
        if len(mouts) == 3:
            # Lean's own scaleP on the original pieces must give what the real lexer gives on the scaled text (erased)
            me = mouts[2]
            me = erased({"ok": [t if t[0] != "d" or t[1] is not None else ["d", ""] for t in me["ok"]]}) if "ok" in me else {"err": me["err"]}
            re_ = erased(obs["estream"])
            if "err" in re_:
                re_ = {"err": ERRMAP.get(re_["err"], re_["err"])}
            if me != re_:
                return "Lean scaleP stream differs from the real stream of the scaled text"
        return None
    if obs.get("version") == "1.0" and k in ("v1", "file"):
        checks = [(obs["num"], mouts[0], "original"), (obs["enum"], mouts[1], "edited")]
        if len(mouts) == 3:
            # Lean's `scaleLine k` + `numbered` vs the real function on the Python-scaled text
            checks.append((obs["enum"], mouts[2], "scaled by Lean's scaleLine"))
        for real, m, what in checks:
            d = _cmp_numbered(real, m, what)
            if d:
                return d
        if len(mouts) == 3 and mouts[0].get("tight"):
            # instance of `numbered_lines_scale_partial` on the REAL function: the hypothesis holds (every possible first line of a
            # multi-line string is tight), so the real records of the scaled text are the real records with indentation x k
            kk = _edits_of(case, obs)[0]["k"]
            a, b = obs["num"], obs["enum"]
            if "err" in a or "err" in b:
                if a.get("err") != b.get("err"):
                    return f"numbered_lines_scale_partial instance: real get_numbered_lines raises {a.get('err')} on the original, {b.get('err')} on the scaled text"
            elif [[r[0], kk * r[1], r[2]] for r in a["ok"]] != [r[:3] for r in b["ok"]]:
                return "numbered_lines_scale_partial instance fails on the real get_numbered_lines: " + first_difference([[r[0], kk * r[1], r[2]] for r in a["ok"]], [r[:3] for r in b["ok"]], "records")
        return None
    if k in ("err", "fmt"):
        if "num" in obs and HAVE_NUMBERED:
            real, mn = obs["num"], mouts[-1]
            mouts = mouts[:-1]
            d = _cmp_numbered(real, mn, "mutated text")
            if d:
                return d
            if not mouts:
                return None
        m = mouts[0]
        # NOTE: the raise-site cross-check (obs["raise_site"]) is a coverage statistic only (tags): a `raise` / `assert` line can
        # also raise while its own condition or message is evaluated (`assert params_str[-1] == ")"` -> IndexError), and lark can
        # raise builtin errors of its own - neither contradicts the scan.
        if obs["outcome"] == "ok":
            return None if m.get("returned") else f"loader returned, model says {json.dumps(m)[:160]}"
        if m.get("returned"):
            return f"loader raised {obs['cls']}, model says it returns"
        if m["raised"] != obs["cls"]:
            return f"loader raised {obs['cls']} ({obs['msg'][:80]!r}), model says {m['raised']}"
        if obs.get("is_cpe") and m["msg"] != obs["msg"]:
            return f"ColangParsingError message differs: real {obs['msg'][:200]!r} model {m['msg'][:200]!r}"
        return None
    return None


# ============================================================================================ oracle (the property)

def oracle(case, obs):
    if "inproc_hang" in obs:
        return f"parsing (lexer / parser / transformer called in-process on the files of the case) did not finish within {obs['inproc_hang']:g} s: a hang"
    k = case["kind"]
    if k == "cfg":
        return cfgk.oracle_cfg(case, obs)
    if k == "str":
        return strk.oracle_str(case, obs)
    if obs.get("sweep"):
        b = obs.get("bad") or obs.get("known_bad")
        if b:
            return f"single-line layout edit {json.dumps(b['edit'])} changes what the shipped file parses to: {json.dumps(b['east'])[:200]}"
        return None
    if k == "tok":
        if obs.get("seg_problem") or "stream" not in obs or not obs.get("reseg_same"):
            return None
        exp = erased(obs["stream"])
        edits = case["edits"]
        if edits[0]["op"] == "blank0":
            if not obs["pieces"] or obs["pieces"][0][0] != "t":
                return None  # first line indented / empty: `layout_blank_at_start` does not apply
            if "ok" in exp:
                exp = {"ok": [["n"]] + exp["ok"]}  # one extra _NEWLINE in front (grammar: `stmt: _NEWLINE`)
        if exp != erased(obs["estream"]):
            return f"layout edit changes the token stream the parser sees: {json.dumps(erased(obs['stream']))[:150]} vs {json.dumps(erased(obs['estream']))[:150]}"
        return None
    if k in ("v2", "v1", "file"):
        if obs.get("deblank_ok"):
            return f"the program parses without its blank lines but not with them: {obs['ast'].get('exc')}: {obs['ast'].get('msg', '')[:120]}"
        if "ast" not in obs or "ok" not in obs["ast"]:
            return None  # the original is not a valid program: nothing is claimed
        if obs.get("headers") is not None and obs["ast"].get("n") != obs["headers"]:
            # (a file that is silently skipped / cut short parses "successfully" to nothing - on both sides of every layout edit)
            return f"the file defines {obs['headers']} flows (`flow ...` at the start of a line) but parses to {obs['ast'].get('n')}"
        # NOTE: whether the edited text re-segments to the edited pieces (`reseg_same`) is NOT a precondition here: it is computed
        # with the lexer under test, and a lexer change that glues an end-of-line comment to the following line break would
        # excuse itself.  The edits are layout edits by construction (apply_edit_v2 checks the neighbouring pieces).
        e = obs["east"]
        if "ok" not in e:
            return f"layout edit makes a valid file unparsable: {e.get('exc')}: {e.get('msg', '')[:160]}"
        if e["ok"] != obs["ast"]["ok"]:
            return "layout edit changes the flows the file parses to: " + first_difference(json.loads(obs["ast"]["ok"]), json.loads(e["ok"]))[:300]
        return None
    if k in ("err", "fmt"):
        o = obs["outcome"]
        if o in ("ok", "skip"):
            return None
        if o == "timeout":
            return f"loading did not finish within {obs['timeout_s']}" + (" s" if not isinstance(obs['timeout_s'], str) else "") + ": a hang"
        if o == "adapter":
            return f"adapter failure {obs.get('cls')}: {obs.get('msg')}"
        if obs.get("is_cpe"):
            return None if obs.get("names_file") else "ColangParsingError does not name the file: " + obs["msg"][:120]
        if k == "fmt" and not obs["inner"]["isException"]:
            return None  # BaseException subclasses pass through by design
        return f"loader raised {obs['cls']} (in {obs['site']}) instead of ColangParsingError: {obs['msg'][:160]}"
    return None


def first_difference(a, b, path="ast"):
    """where two canonical parse results differ first (path: original value != edited value)"""
    if type(a) is not type(b):
        return f"{path}: {a!r} != {b!r}"
    if isinstance(a, dict):
        for k in sorted(set(a) | set(b)):
            if k not in a or k not in b:
                return f"{path}.{k}: {a.get(k, '<missing>')!r} != {b.get(k, '<missing>')!r}"
            d = first_difference(a[k], b[k], f"{path}.{k}")
            if d:
                return d
        return ""
    if isinstance(a, list):
        for i, (x, y) in enumerate(zip(a, b)):
            d = first_difference(x, y, f"{path}[{i}]")
            if d:
                return d
        return "" if len(a) == len(b) else f"{path}: {len(a)} items != {len(b)} items"
    return "" if a == b else f"{path}: {a!r} != {b!r}"


def _comment_after_long_string(obs, edits):
    """an inserted end-of-line comment directly follows a `LONG_STRING` token (docstring / multi-line string end) or the
    `...` statement (three DOT tokens): the two places where the line-based `_apply_pre_parsing_expansions` looks at line ends"""
    texts = {e["text"] for e in edits if e["op"] == "comment"}
    ps = obs.get("epieces") or []
    # a comment that is already in the source after `...` / a docstring is the same situation, exposed by any other edit
    # (e.g. scaling: the comment stays behind on a line of its own with ONE blank of indentation)
    in_source = {p[1] for p in (obs.get("pieces") or []) if p[0] == "c"}
    for i, p in enumerate(ps):
        if p[0] == "c" and (p[1] in in_source or any(p[1].startswith(t) for t in texts)):  # (blanks appended later merge into the comment)
            j = i - 1
            while j >= 0 and ps[j][0] == "s":
                j -= 1
            if j >= 0 and ps[j][0] == "t" and ps[j][1] in ("LONG_STRING", "DOT"):
                return True
    return False


def _dots_with_rest(pieces):
    """a line that starts with blanks + `...` and goes on (comment or tokens): the pre-expansion leaves that rest behind on a line
    of its own, indented by ONE blank whatever the indentation of the `...` was"""
    for i in range(len(pieces) - 2):
        if all(pieces[i + d][0] == "t" and pieces[i + d][1] == "DOT" for d in range(3)):
            j = i - 1
            while j >= 0 and pieces[j][0] == "s":
                j -= 1
            if (j < 0 or pieces[j][0] == "n") and j < i - 1:
                t = i + 3
                while t < len(pieces) and pieces[t][0] == "s":
                    t += 1
                if t < len(pieces) and pieces[t][0] != "n":
                    return True
    return False


def _last_line_is_bodyless_define(content):
    ls = [l.strip() for l in content.split("\n")]
    ls = [l for l in ls if l and not l.startswith("#")]
    return bool(ls) and re.match(r"(define|def)\s+(?!user\b)\S", ls[-1]) is not None


def signature(case, obs, msg):
    if "inproc_hang" in obs:
        return None
    k = case["kind"]
    if k == "cfg":
        return cfgk.signature_cfg(case, obs, msg)
    if k == "str":
        return strk.signature_str(case, obs, msg)
    if obs.get("sweep"):
        return "eol-comment-pre-expansion-v2" if obs.get("known_bad") and not obs.get("bad") else None
    if k in ("err", "fmt") and obs.get("outcome") == "raised":
        if obs.get("site") == "format_colang_parsing_error_message" and obs.get("cls") in ("AttributeError", "TypeError", "IndexError"):
            return "error-formatter-attribute-assumption"
        if obs.get("site") == "_load_imported_paths" and obs.get("cls") == "ValueError":
            m = re.search(r"Import path `(.*)` could not be resolved", obs.get("msg", ""))
            if m and cfgk.resolves_by_rule(m.group(1)):
                return None  # the loader fails to resolve an import that the documented rule resolves: not the open finding
            return "unresolved-import-valueerror"
        return None
    if k == "err" and obs.get("outcome") == "timeout":
        recs = (obs.get("num") or {}).get("ok")
        last_is_define = (bool(recs) and re.match(r"(define|def)\s+(?!user\b)\S", recs[-1][0]) is not None) if recs is not None \
            else _last_line_is_bodyless_define(obs.get("content", ""))
        # the last *numbered* line (what the parser sees: blank lines, comments and an unterminated `"""` comment are gone)
        if obs.get("version") == "1.0" and last_is_define:
            return "v1-define-without-body-at-eof-hang"
        return None
    if k in ("tok", "v2", "file") and obs.get("version") == "2.x" and not obs.get("sweep"):
        edits = _edits_of(case, obs)
        if any(e["op"] == "trail" and "\t" in e["ws"] for e in edits):
            if k == "tok":
                if obs.get("estream", {}).get("err") == "UnexpectedCharacters":
                    return "trailing-tab-v2"
            elif obs.get("east", {}).get("exc") == "UnexpectedCharacters" and "No terminal matches '\t'" in obs["east"].get("msg", ""):
                return "trailing-tab-v2"
        if _comment_after_long_string(obs, edits) or _dots_with_rest(obs.get("pieces") or []) or _dots_with_rest(obs.get("epieces") or []):
            return "eol-comment-pre-expansion-v2"
    return None


def nontrivial(case, obs):
    if "inproc_hang" in obs:
        return False
    k = case["kind"]
    if k == "cfg":
        return obs["base"]["outcome"] == "ok" and len(obs["base"].get("parsed", [])) >= 2 or obs["base"]["outcome"] == "raised"
    if k == "str":
        return strk.nontrivial_str(case, obs)
    if obs.get("sweep"):
        return obs.get("tried", 0) > 0
    if k == "tok":
        return bool(obs.get("changed")) and "stream" in obs and "ok" in obs["stream"] and len(obs["stream"]["ok"]) > 3
    if k in ("v2", "v1", "file"):
        return bool(obs.get("changed")) and "ok" in obs.get("ast", {}) and obs["ast"].get("n", 0) > 0
    if k in ("err", "fmt"):
        return obs.get("outcome") == "raised"
    return False


def tags(case, obs):
    if "inproc_hang" in obs:
        return ["kind:" + case["kind"], "in-process-hang"]
    k = case["kind"]
    if k == "cfg":
        return cfgk.tags_cfg(case, obs)
    if k == "str":
        return strk.tags_str(case, obs)
    t = ["kind:" + k + (":" + obs["version"] if "version" in obs and k == "file" else "")]
    if obs.get("sweep"):
        t.append("sweep-variants:%d" % (obs.get("tried", 0) // 50 * 50))
        return t
    for e in _edits_of(case, obs):
        t.append("edit:" + e["op"])
    if obs.get("seg_problem"):
        t.append("seg-problem")
    if "stream" in obs:
        t.append("stream:" + (obs["stream"].get("err") or "ok"))
        t.append("estream:" + (obs["estream"].get("err") or "ok"))
    if "ast" in obs:
        t.append("orig:" + ("parses" if "ok" in obs["ast"] else "unparsable:" + str(obs["ast"].get("exc"))))
    if obs.get("reseg_same") is False:
        t.append("edit-inside-token")
    if "mtext" in obs:
        t.append("textseg")
        ed = _edits_of(case, obs)
        if len(ed) == 1 and ed[0]["op"] == "scale":
            t.append("text-scale-instance:" + ("checked" if scale_text_py(obs["mtext"], ed[0]["k"]) == obs["metext"] else "not-applicable(multi-line token)"))
    if k in ("err", "fmt"):
        t.append("outcome:" + obs.get("outcome", "?") + (":" + obs.get("cls", "") if obs.get("outcome") == "raised" else ""))
        if "raise_site" in obs:
            rs = obs["raise_site"]
            t.append("raise-site:" + rs.get("kind", "?"))
            if rs.get("kind") == "explicit":
                t.append("raise-site-hit:%s:%s" % (rs.get("file", "?").rsplit("/", 1)[-1], rs.get("line")))  # which static sites the search reached
            if rs.get("kind") == "explicit" and "inner" in obs:
                t.append("raise-site:explicit:" + ("listed-class" if obs["inner"]["cls"] in rs.get("static", []) else "other-class-while-evaluating-the-statement"))
            if rs.get("kind") == "engine" and not rs.get("known"):
                t.append("raise-site:engine:builtin-error-inside-lark")
        if "inner" in obs:
            t.append("inner:" + obs["inner"]["cls"] + ":line=" + ("int" if isinstance(obs["inner"]["line"], int) else str(obs["inner"]["line"])))
    return t


def shrink(case):
    k = case["kind"]
    if k == "cfg":
        # few candidates per round, the most aggressive first: the runner evaluates every candidate of a round, and a candidate
        # that still hangs costs the whole CPU limit
        import itertools
        yield from itertools.islice(cfgk.shrink_cfg(case), 12)
        return
    if k == "str":
        import itertools
        yield from itertools.islice(strk.shrink_str(case), 12)
        return
    if k == "file" and not case.get("sweep"):
        # explicit form: the same source with the edits spelled out (then the edits and the text can be shrunk)
        try:
            content, version, edits = expand_file_case(case)
            yield {"kind": "v2" if version == "2.x" else "v1", "src": case["src"], "edits": edits}
        except Exception:  # noqa
            pass
    if k in ("v2", "v1") and "file" in case["src"]:
        try:
            text = read_src(case["src"])
            if len(text) < 8000:
                yield dict(case, src={"text": text})
        except Exception:  # noqa
            pass
    if k in ("tok", "v2", "v1") and len(case.get("edits", [])) > 1:
        for i in range(len(case["edits"])):
            yield dict(case, edits=case["edits"][:i] + case["edits"][i + 1:])
    if k == "tok":
        for i in range(len(case["lines"])):
            yield dict(case, lines=case["lines"][:i] + case["lines"][i + 1:])
        for i, l in enumerate(case["lines"]):
            if len(l[1]) > 1:
                for j in range(len(l[1])):
                    yield dict(case, lines=case["lines"][:i] + [[l[0], l[1][:j] + l[1][j + 1:], l[2], l[3], l[4]]] + case["lines"][i + 1:])
    if k in ("v2", "v1") and "text" in case["src"]:
        ls = case["src"]["text"].split("\n")
        for i in range(len(ls)):
            yield dict(case, src={"text": "\n".join(ls[:i] + ls[i + 1:])})
    if k == "err" and case.get("n", 1) > 1:
        yield dict(case, n=case["n"] - 1)


def cont_sweep_cases():
    """every line break swallowed by a continuation keyword, in every shipped 2.x file that has one, x {comment, blank, trailing blanks}"""
    out = []
    for f in shipped():
        try:
            content = read_src({"file": f})
            if not _is_v2(content) or not re.search(r"\n[ \t]*(and|or)[ \t]", content):
                continue
            pieces, prob = segment(content + "\n")
        except Exception:  # noqa
            continue
        if prob:
            continue
        nk = sum(1 for p in pieces if is_kw_break(p))
        for at in range(min(nk, 40)):
            out.append({"kind": "v2", "src": {"file": f}, "edits": [{"op": "comment", "at": at, "kw": True, "gap": " ", "text": "# c"}]})
            out.append({"kind": "v2", "src": {"file": f}, "edits": [{"op": "blank", "at": at, "kw": True, "ws": "  ", "cr": False}]})
            out.append({"kind": "v2", "src": {"file": f}, "edits": [{"op": "trail", "at": at, "kw": True, "ws": "  "}]})
    return out


_CM_SWEEP = None


def comment_sweep_cases():
    """every line boundary next to a comment line (`#` lines, `\"\"\"` blocks) of every shipped Colang 1.0 file - as shipped and
    with its blank lines removed first - x {empty line, blanks-only line, trailing blanks on the line before}"""
    global _CM_SWEEP
    if _CM_SWEEP is not None:
        return _CM_SWEEP
    out = []
    for f in shipped():
        try:
            content = read_src({"file": f})
            if _is_v2(content) or not ("#" in content or '"""' in content):
                continue
            variants = [{"file": f}]
            if deblank_v1(content) != content:
                variants.append({"file": f, "deblank": True})
            for src in variants:
                pos, tl = v1_comment_positions(read_src(src))
                for at in range(len(pos)):
                    out.append({"kind": "v1", "src": src, "edits": [{"op": "blank", "at": at, "ws": "", "aim": "comment"}]})
                    out.append({"kind": "v1", "src": src, "edits": [{"op": "blank", "at": at, "ws": "  ", "aim": "comment"}]})
                for at in range(len(tl)):
                    out.append({"kind": "v1", "src": src, "edits": [{"op": "trail", "at": at, "ws": " \t", "aim": "comment"}]})
        except Exception:  # noqa
            continue
    _CM_SWEEP = out
    return out


def pre_sweep_cases():
    """every line end that the pre-parsing expansion looks at (stand-alone `...`, docstrings) and its neighbours, in every shipped
    2.x file that has one, x {trailing blanks, blank line, end-of-line comment}"""
    out = []
    for f in shipped():
        try:
            content = read_src({"file": f})
            if not _is_v2(content) or not ("..." in content or '"""' in content):
                continue
            pieces, prob = segment(content + "\n")
        except Exception:  # noqa
            continue
        if prob:
            continue
        n = len(break_positions(pieces, aim="pre"))
        if n == len(break_positions(pieces)):
            continue  # nothing to aim at
        has_dots = re.search(r"^ +\.\.\.\s*$", content, re.M) is not None
        for at in range(min(n, 60 if has_dots else 9)):
            out.append({"kind": "v2", "src": {"file": f}, "edits": [{"op": "trail", "at": at, "aim": "pre", "ws": "  "}]})
            out.append({"kind": "v2", "src": {"file": f}, "edits": [{"op": "blank", "at": at, "aim": "pre", "ws": " ", "cr": False}]})
            out.append({"kind": "v2", "src": {"file": f}, "edits": [{"op": "comment", "at": at, "aim": "pre", "gap": " ", "text": "# c"}]})
    return out


def escalate(rng, focus, tier):
    """focused search after a broken tie/proof: the generic quick mix, plus and/or continuation groups (generated, and every
    continuation line of the shipped files) under every layout edit"""
    cases = gen_cases(rng, "quick")
    for _ in range(600):
        cases.append({"kind": "v2", "src": {"text": gen_cont_program(rng)},
                      "edits": [gen_edit_v2(rng, allow_tab=False, kw=True) for _ in range(rng.choice([1, 1, 2]))]})
    for _ in range(600):
        cases.append({"kind": "v2", "src": {"text": gen_pre_program(rng)},
                      "edits": [gen_edit_v2(rng, allow_tab=False, aim="pre") for _ in range(rng.choice([1, 1, 2]))]})
    for _ in range(600):
        cases.append({"kind": "v1", "src": {"text": gen_v1_comment_program(rng)},
                      "edits": [gen_edit_v1(rng, aim="comment") for _ in range(rng.choice([1, 1, 2]))]})
    cases = [cfgk.gen_cfg_case(rng) for _ in range(400)] + cases
    cases = [strk.gen_str_case(rng) for _ in range(400)] + cases
    nb = tr_rx.flagged_bodies(only_new=True)
    if nb:
        # a new / changed regex with a back-tracking shape: inputs aimed at that very repeat come first
        cases = [strk.gen_pump_case(rng, nb * 20) for _ in range(600)] + cases
    return comment_sweep_cases() + cont_sweep_cases() + pre_sweep_cases() + cases
