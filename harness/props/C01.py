"""C01 — input rails gate every user message before anything else sees it.

Tie: translator (llm_flows.co / guardrails.co / self-check flows parsed by the repo's own parsers ->
Generated/C01.lean, structural facts checked by kernel-evaluated examples) + correspondence by
execution: the REAL `LLMRails.generate_async` is driven over generated multi-turn conversations with
scripted rail actions (accept / reject / rewrite / raise), a prompt-recording fake LLM and
deterministic embeddings; the recorded action order, prompts and replies are compared with the
`Pipeline` model's trace.
Oracle: a literal transcription of the property text evaluated on the recorded observations only
(never on the model).
"""
from ..impl import pipeline_cases as G
from ..translate import c01 as tr

PROPERTY = "C01"
CASE_TIMEOUT = 300  # s of wall clock per case in pool workers (runner watchdog): a case that spins forever is a verdict, not exit 2
THEOREM_MODULE = "NemoVerif.Theorems.C01"
METHOD = "C01.conv"
RULE = ("case = (Colang version, Colang 1.0 generation mode (task prompts / passthrough chat, completion, function / single call), system+context message in front, dialog rails on/off, enable_rails_exceptions, ordered input/output rail lists incl. permuted and repeated "
        "rails, history carried by messages or by state, 1-4 turns, per turn and rail a verdict accept/reject/rewrite/raise, an intent "
        "(flow / LLM-generated next step / flow with custom action), optional faults of the dialog and retrieval actions). "
        "non-trivial = at least one rail configured AND (an invoked rail answered something other than accept OR the conversation has >= 2 turns); "
        "distinct = distinct case JSON.")
TRUSTED_BASE = [
    "translator harness/translate/c01.py (repo parsers for llm_flows.co, guardrails.co, self-check flows; AST scan of the runtimes)",
    "adapter harness/impl/pipeline.py (scripted rail actions, recording fake LLM, fake embeddings) + Lean driver Drive/C01.lean",
    "prompt rendering (LLMTaskManager/Jinja), LangChain, the Colang parsers and both interpreters are executed, not modelled; the bridge "
    "'interpreter running the shipped flows refines Pipeline for every number of rails' is validated by execution, not proved",
]
ASSUMPTIONS = [
    "rails are flows of the shape of the shipped library rails (check action + `if not $allowed` + refuse/exception + stop|abort; mask action assigning $user_message/$bot_message)",
    "Colang 1.0 stops a turn after 100 new events (`Too many events.`): configurations are kept below the cap (<= 4 scripted rails in total)",
    "rewriting is a Colang 1.0 notion (guardrails.co passes the text by value)",
]
EXHAUSTIVE = {"quick": False, "thorough": True}

worker_init = G.worker_init
run_impl = G.run_impl
compare = G.compare
tags = G.tags
nontrivial = G.nontrivial
shrink = G.shrink


def translate():
    return tr.run()


def static_tie():
    return tr.static_tie()


def model_requests(case, obs):
    return G.model_requests(case, obs, METHOD)


IN_SHAPES = [([0], [0]), ([0, 1], [0]), ([1, 0], [0, 1]), ([0, 1, 2], [0]), ([2, 0, 1], []), ([1, 1], [0]), ([], [0])]


def gen_cases(rng, tier):
    cases = []
    w_in = (0.55, 0.17, 0.2, 0.08)
    w_out = (0.85, 0.05, 0.07, 0.03)
    n_random = 140 if tier == "quick" else 2500
    for _ in range(n_random):
        cfg = G.gen_cfg(rng)
        if not cfg["in"] and rng.random() < 0.8:
            cfg["in"] = [0, 1]
            if not G.fits(cfg["ver"], cfg["dialog"], 2, len(cfg["out"])):
                cfg["out"] = cfg["out"][:1]
        cfg["turns"] = [G.gen_turn(rng, cfg, k + 1, w_in, w_out) for k in range(rng.choice([1, 2, 2, 3, 4]))]
        if rng.random() < 0.12 and G.fits(cfg["ver"], cfg["dialog"], len(cfg["in"]), len(cfg["out"]), sc=True):
            G.add_selfcheck(rng, cfg)
        elif cfg["ver"] == "1.0" and rng.random() < 0.2:
            G.purify(rng, cfg, "in")  # the last input rail becomes a pure-Colang rail (reads the flows' view of $user_message)
        if rng.random() < 0.3:
            G.collapse_texts(rng, cfg, p_bot=0.3, p_user=0.5)  # user texts / rewrites that repeat earlier ones
        if rng.random() < 0.25:
            G.random_opts(rng, cfg)  # 1.0: random per-call generation options
        if rng.random() < 0.15:
            G.inject_propagating(rng, cfg)  # one turn ends by a propagated failure (LLMCallException / cancellation), the conversation goes on
        cases.append(cfg)
    # user texts that REPEAT around a turn hidden by a fault after `$user_message` was set (see pipeline_cases.REPEAT_PATTERNS)
    cases.extend(G.repeat_cases(rng, tier, "in"))
    cases.extend(G.repeat_cases(rng, tier, "in", patterns=G.REFUSAL_REPEAT[:2]))
    # calls that end by a failure which propagates out of `generate` mid-turn (LLMCallException, cancellation); the caller goes on from
    # the last state it was given on the same LLMRails instance: every later user message passes all input rails before anything else
    cases.extend(G.propagating_cases(rng, tier, "in"))
    # Colang 1.0 generation options per CALL: conversations (state API and messages) that mix calls switching the input rails off
    # with calls that pass no options - every call whose options (explicit or default) enable the input rails runs all of them
    cases.extend(G.options_cases(rng, tier, "in"))
    # every (version, dialog, exceptions) x rail shape, every turn position rejected / rewritten once
    for cfg in G.all_cfgs(IN_SHAPES if tier == "thorough" else IN_SHAPES[:3], carries=("messages", "state") if tier == "thorough" else ("messages",)):
        if not cfg["in"] or not G.fits(cfg["ver"], cfg["dialog"], len(cfg["in"]), len(cfg["out"])):
            continue
        for pos in range(3):
            for what in (("r", "w") if cfg["ver"] == "1.0" else ("r",)):
                c = dict(cfg)
                c["turns"] = [G.clean_turn(rng, cfg, k + 1) for k in range(3)]
                rid = rng.choice(cfg["in"])
                v = "r" if what == "r" else ["w", G.rewrite_text(rng, "in", pos + 1)]
                c["turns"][pos]["vin"] = [[i, (v if i == rid else vv)] for i, vv in c["turns"][pos]["vin"]]
                cases.append(c)
    # Colang 1.0: every way a user message reaches an LLM prompt (task prompts, passthrough chat / completion / function,
    # single call; with and without a system+context message in front; history by messages or state), a rewrite by the
    # first or the last input rail at each turn position
    for var in G.gen_variants(("messages", "state") if tier == "thorough" else ("messages",)):
        for ins, outs in (([0, 1], [0]), ([1, 0], [])) if tier == "thorough" else (([0, 1], [0]),):
            for exc in ((False, True) if tier == "thorough" else (False,)):
                cfg = dict(var, exc=exc, **{"in": list(ins), "out": list(outs)})
                if not G.fits("1.0", cfg["dialog"], len(ins), len(outs)):
                    continue
                for pos in range(2):
                    c = dict(cfg)
                    c["turns"] = [G.clean_turn(rng, cfg, k + 1) for k in range(2)]
                    rid = ins[0] if pos == 0 else ins[-1]
                    v = ["w", G.rewrite_text(rng, "in", pos + 1)]
                    c["turns"][pos]["vin"] = [[i, (v if i == rid else vv)] for i, vv in c["turns"][pos]["vin"]]
                    cases.append(c)
    # Colang 1.0: the new user message is not the LAST element of the request (a system / context message follows it), with the
    # history carried by messages+cache and by state: the message must go through the input rails all the same
    for trail in ("system", "context"):
        for carry in ("messages", "state"):
            for dialog in (False, True):
                for what in (("r", "w", "a") if tier == "thorough" else ("r", "w")):
                    cfg = {"ver": "1.0", "dialog": dialog, "exc": False, "in": [0, 1], "out": [0], "carry": carry, "gen": "std", "trail": trail}
                    c = dict(cfg)
                    c["turns"] = [G.clean_turn(rng, cfg, k + 1) for k in range(2)]
                    for k in (0, 1):
                        v = ["w", G.rewrite_text(rng, "in", k + 1)] if what == "w" else what
                        c["turns"][k]["vin"] = [[i, (v if i == 1 - k else vv)] for i, vv in c["turns"][k]["vin"]]
                    cases.append(c)
    # Colang 2.x: every way the answering flow waits for the user (`user said something` / a literal / a regular
    # expression; the unexpected-utterance path is the dialog configuration): accepted, then rejected by each rail
    for usaid in ("something", "plain", "regex"):
        for exc in (False, True):
            for ins in ([0], [1, 0]):
                cfg = {"ver": "2.x", "dialog": False, "exc": exc, "in": list(ins), "out": [0], "carry": "state", "usaid": usaid}
                for rid in ins:
                    c = dict(cfg)
                    c["turns"] = [G.clean_turn(rng, cfg, k + 1) for k in range(3)]
                    c["turns"][1]["vin"] = [[i, ("r" if i == rid else vv)] for i, vv in c["turns"][1]["vin"]]
                    cases.append(c)
    if tier == "thorough":
        # all 3^n verdict tables (accept / reject / rewrite) for n <= 3 input rails at every turn position <= 3
        import itertools

        for cfg in G.all_cfgs([([0], [0]), ([0, 1], [0]), ([0, 1, 2], [0])]):
            if not G.fits(cfg["ver"], cfg["dialog"], len(cfg["in"]), len(cfg["out"])):
                continue
            opts = ["a", "r", "w"] if cfg["ver"] == "1.0" else ["a", "r"]
            for table in itertools.product(opts, repeat=len(cfg["in"])):
                for pos in range(3):
                    c = dict(cfg)
                    c["turns"] = [G.clean_turn(rng, cfg, k + 1) for k in range(pos + 2 if pos < 2 else 3)]
                    c["turns"][pos]["vin"] = [[i, (["w", G.rewrite_text(rng, "in", pos + 1)] if v == "w" else v)] for i, v in zip(cfg["in"], table)]
                    cases.append(c)
    return G.sort_cases(cases)


# ----------------------------------------------------------------------------- oracle (property text, on observations)

def turn_oracle(case, tc, to, earlier=()):
    steps = to["steps"]
    cfg_in = G.eff_in(case, tc)  # the input rails enabled for THIS call (explicit options of the call, or the defaults)
    calls = [(idx, s) for idx, s in enumerate(steps) if s[0] == "rail" and s[1] == "in"]
    ids = [s[2] for _, s in calls]
    # "processed by all configured input rails, in the configured order": what ran is a prefix of the configured order ...
    if ids != cfg_in[:len(ids)]:
        return f"[in-order] input rails ran in the order {ids}, configured order is {cfg_in}"
    # ... ending at the first rail that does not let the message through (reject, or a failing rail - C03)
    stop = None
    for p, rid in enumerate(cfg_in):
        if G.verdict_of(tc, "in", rid) in ("r", "f", "x"):  # "x": the rail's own LLM call failed - the rail has not approved the message
            stop = p
            break
    expected = len(cfg_in) if stop is None else stop + 1
    if len(ids) < expected:
        return f"[in-count] only {len(ids)} of the {expected} input rails that must see this message ran ({ids} of {cfg_in})"
    if len(ids) > expected:
        return f"[in-after-reject] input rail(s) {ids[expected:]} ran after rail {cfg_in[stop]} had rejected the message"
    # "before any dialog or generation step runs"
    gen = [idx for idx, s in enumerate(steps) if s[0] == "llm" or (s[0] == "act" and s[1] == "dialog_act")]
    if calls and gen and min(gen) < calls[-1][0]:
        return f"[gen-before-rails] a dialog/generation step ({steps[min(gen)][:2]}) ran before input rail {ids[-1]}"
    rep = to["reply"]
    if stop is not None and G.verdict_of(tc, "in", cfg_in[stop]) == "r":
        # "no dialog/generation LLM call is made for that turn"
        if gen:
            return f"[llm-after-reject] input rail {cfg_in[stop]} rejected the message but {steps[gen[0]][:2]} ran"
        # "the reply is the rail's refusal (or its rail-exception message)"
        retr_failed = tc.get("retr_fault") and any(s[0] == "act" and s[1] == "retrieve" for s in steps)
        if case["exc"]:
            if rep["exc"] != "InputRailException" or (case["ver"] == "2.x" and G.reply_text(rep)):
                return f"[reject-reply] rejected message: expected the InputRailException, got {rep}"
        elif not (rep["role"] == "assistant" and (G.reply_text(rep) == G.REFUSAL or (retr_failed and G.reply_text(rep) == G.INTERNAL_ERROR))):
            return f"[reject-reply] rejected message: expected the refusal, got {rep}"
    if stop is not None and G.verdict_of(tc, "in", cfg_in[stop]) == "x" and gen:
        # the rail's own LLM call failed: the rail has not let the message through, yet the call went on with it
        return f"[llm-after-unapproved] the LLM call of input rail {cfg_in[stop]} failed (the message was not approved) but {steps[gen[0]][:2]} ran"
    # what each rail / later stage is shown
    cur = tc["user"]
    rewritten = False
    for (_, s), rid in zip(calls, ids):
        if s[3] != cur:
            return f"[rail-text] input rail {rid} was shown {s[3]!r} instead of the current text {cur!r}"
        v = G.verdict_of(tc, "in", rid)
        if case["ver"] == "1.0" and G.is_rewrite(v):
            cur, rewritten = v[1], True
    if stop is None:
        # every later stage works on the message of THIS turn in its current (possibly rewritten) form
        for s in steps:
            if s[0] == "llm" and s[1] != "generate_next_steps" and G.sentinel(cur) not in s[2]:
                code = "rewritten-not-in-prompt" if rewritten else "current-not-in-prompt"
                return f"[{code}] the prompt of {s[1]} does not contain the {'rewritten' if rewritten else 'current'} text of this turn ({G.sentinel(cur)})"
    if case["ver"] == "1.0" and rewritten and stop is None:
        orig = G.sentinel(tc["user"])
        # the same text may legitimately be visible from an EARLIER turn of the conversation (repeated user texts): it is the final
        # form of that turn's message (part of the history the prompts are rendered from), or the client's own message list is the
        # prompt (passthrough chat mode forwards the client's history verbatim)
        legit = any(G.sentinel(_final_user(case, e)) == orig or (case.get("gen") in G.P.PT_MODES and G.sentinel(e["user"]) == orig) for e in earlier)
        for s in steps:
            if s[0] == "llm" and not legit:
                if orig in s[2]:
                    return f"[original-in-prompt] the prompt of {s[1]} contains the original text ({orig}) although an input rail rewrote it"
            if s[0] == "rail" and s[1] == "out" and s[3] and orig in s[3] and orig not in tc["bot"]:
                return f"[original-in-output] an output rail was shown text containing the original user text ({orig})"
    return None


def _final_user(case, tc):
    """the form of a turn's user text after the rewrites of its input rails (as scripted)"""
    cur = tc["user"]
    for rid in G.eff_in(case, tc):
        v = G.verdict_of(tc, "in", rid)
        if v in ("r", "f"):
            break
        if case["ver"] == "1.0" and G.is_rewrite(v):
            cur = v[1]
    return cur


def oracle(case, obs):
    for k, (tc, to) in enumerate(zip(case["turns"], obs["turns"])):
        if to["raised"]:
            if G.P.propagating(tc):
                # the call ended by a failure that leaves `generate` by design (LLM provider down / cancelled request): nothing came
                # back; the conversation goes on from the last state the caller was given - every later user message is gated again
                continue
            return None  # `generate` raising is C03's statement; nothing of this turn can be observed
        msg = turn_oracle(case, tc, to, case["turns"][:k])
        if msg:
            return f"turn {k + 1}: {msg}"
    return None


def signature(case, obs, msg):
    return G.region_signature(case, obs, msg, oracle_codes_stale=("in-count", "in-after-reject", "llm-after-reject", "reject-reply"),
                              oracle_codes_trail=("in-count", "llm-after-reject", "reject-reply", "rewritten-not-in-prompt", "original-in-prompt", "current-not-in-prompt"))
