"""C04 — Colang 2 event matching follows the documented partial-match rules.

Tie: translator (constants) + differential on `_compute_arguments_dict_matching_score`,
`_compute_event_comparison_score`, end-to-end `match Ev(x=<pattern>)` through run_to_completion, and multi-event
histories whose statement parameters are expressions over changing state (harness/impl/c04_hist.py, Lean `runHist`).
Oracle: `doc_matches`, a transcription of the property statement / event-generation-and-matching.rst,
written independently of the Lean model.
"""
import contextlib
import io
import json
import random
import re
import types

from ..impl import c04_hist as hist
from ..impl import valjson as vj
from ..translate import c04 as tr

PROPERTY = "C04"
CASE_TIMEOUT = 300  # s of wall clock per case in pool workers (runner watchdog): a case that spins forever is a verdict, not exit 2
THEOREM_MODULE = "NemoVerif.Theorems.C04"
RULE = ("pattern: random nested value (scalars, regex, comparison, list, set, dict; depth<=4 quick / 6 thorough); payload: "
        "40% instance of the pattern, 40% instance mutated by add/drop/reorder/alter at random positions, 20% independent; "
        "plus event-level pairs (plain/internal/action events, action uids, flow references, priorities) and end-to-end "
        "`match Ev(x=pattern)` programs through run_to_completion; plus multi-event history programs (e2e_hist): the statement's parameters "
        "are expressions over state that changes while the head waits (global via ContextUpdate / direct context write / another flow, "
        "attribute of a referenced flow or action, variable assigned by a sibling head, $action.Finished(param=expr)), 2-7 steps of "
        "events (instance of the current / of an earlier pattern, mutated, independent), state changes and noise; loop, two instances, "
        "or-group, when block. non-trivial = pattern contains a container or regex/comparison "
        "AND payload is not byte-identical to the pattern's own instance (histories: at least one event with the statement's name); "
        "distinct = distinct (pattern, payload) JSON.")
TRUSTED_BASE = [
    "translator harness/translate/c04.py (argument_filter, the four 0.9 literals, InternalEvents.ALL extracted by AST path)",
    "correspondence harness harness/props/C04.py + Lean driver Drive/C04.lean (JSON codecs on both sides)",
    "Python `re` (search results shipped as an oracle table), CPython float arithmetic of 0.9**k (compared with tolerance 1e-9), set iteration order (observed and replayed)",
]
ASSUMPTIONS = [
    "dict keys are strings; floats are finite and exactly dyadic; no NaN/inf; 0.9**k does not underflow (k < 1000)",
    "modelled by hand: _compute_arguments_dict_matching_score, _compute_event_comparison_score, ComparisonExpression.compare, "
    "_compute_event_matching_score + the per-head part of the run_to_completion loop (candidate lookup, advance / abort); "
    "expression evaluation is a parameter of the history theorems (instantiated with the generated template language)",
]

SCALARS = [None, True, False, 0, 1, 2, -1, 3, 0.5, 1.0, 2.5, "a", "b", "ab", "ba", "", "1", "True", "aXb"]
KEYS = ["x", "y", "z", "w"]
RESERVED = ["return_value", "activated", "source_flow_instance_uid"]
OPS = ["lt", "le", "gt", "ge", "ne"]


def translate():
    return tr.run()


# ----------------------------------------------------------------------------- generators

def g_scalar(rng):
    return vj.enc(rng.choice(SCALARS))


def g_hashable_pattern(rng):
    r = rng.random()
    if r < 0.6:
        return g_scalar(rng)
    if r < 0.85:
        return {"r": rng.randrange(len(vj.REGEXES))}
    return {"c": [rng.choice(OPS), vj.enc(rng.choice([0, 1, 2, 3, 0.5, 2.5]))]}


def g_pattern(rng, depth, reserved=False):
    r = rng.random()
    if depth <= 0 or r < 0.25:
        return g_hashable_pattern(rng)
    if r < 0.5:
        n = rng.choice([0, 1, 1, 2, 2, 3])
        return {"l": [g_pattern(rng, depth - 1, reserved) for _ in range(n)]}
    if r < 0.7:
        n = rng.choice([0, 1, 1, 2, 2, 3])
        return {"S": [g_hashable_pattern(rng) for _ in range(n)]}
    n = rng.choice([0, 1, 1, 2, 2, 3])
    pool = KEYS + (RESERVED if reserved else [])
    keys = rng.sample(pool, min(n, len(pool)))
    if reserved and keys and not any(k in RESERVED for k in keys):
        keys[0] = rng.choice(RESERVED)
    return {"d": [[k, g_pattern(rng, depth - 1, False)] for k in keys]}


def g_instance(rng, p):
    """A payload the documentation says matches pattern p (JSON encoding)."""
    if p is None or isinstance(p, bool) or "i" in p or "f" in p or "s" in p:
        return p
    if "r" in p:
        pat = re.compile(vj.REGEXES[p["r"]])
        cands = [s for s in SCALARS if isinstance(s, (str, int, float)) and s is not None and pat.search(str(s))]
        return vj.enc(rng.choice(cands)) if cands else {"s": "zz"}
    if "c" in p:
        op, v = p["c"]
        ref = vj.dec(v)
        obj = vj.dec(p)
        cands = [x for x in [-1, 0, 1, 2, 3, 4, 0.25, 0.5, 1.0, 2.5, 3.5] if type(x) is type(ref) and obj.operator(x)]
        return vj.enc(rng.choice(cands)) if cands else vj.enc(ref)
    if "l" in p:
        return {"l": [g_instance(rng, x) for x in p["l"]]}
    if "S" in p:
        return {"S": [g_instance(rng, x) for x in p["S"]]}
    if "d" in p:
        return {"d": [[k, g_instance(rng, x)] for k, x in p["d"]]}
    raise ValueError(p)


def g_any(rng, depth):
    r = rng.random()
    if depth <= 0 or r < 0.4:
        return g_scalar(rng)
    if r < 0.6:
        return {"l": [g_any(rng, depth - 1) for _ in range(rng.randrange(4))]}
    if r < 0.75:
        return {"S": [g_scalar(rng) for _ in range(rng.randrange(4))]}
    keys = rng.sample(KEYS, rng.randrange(4))
    return {"d": [[k, g_any(rng, depth - 1)] for k in keys]}


def mutate(rng, v, depth=0):
    """add / drop / reorder / alter at a random position."""
    if isinstance(v, dict) and ("l" in v or "S" in v or "d" in v) and rng.random() < 0.75:
        tag = "l" if "l" in v else "S" if "S" in v else "d"
        items = list(v[tag])
        op = rng.choice(["add", "add", "drop", "reorder", "alter", "deep"])
        if op == "add":
            pos = rng.randrange(len(items) + 1)
            if tag == "d":
                fresh = [k for k in KEYS + ["q", "r"] if k not in [kk for kk, _ in items]]
                if fresh:
                    items.insert(pos, [rng.choice(fresh), g_any(rng, 1)])
            elif tag == "S":
                items.insert(pos, g_scalar(rng))
            else:
                items.insert(pos, g_any(rng, 1))
        elif op == "drop" and items:
            items.pop(rng.randrange(len(items)))
        elif op == "reorder" and len(items) > 1:
            i, j = rng.sample(range(len(items)), 2)
            items[i], items[j] = items[j], items[i]
        elif op == "alter" and items:
            i = rng.randrange(len(items))
            if tag == "d":
                items[i] = [items[i][0], g_scalar(rng)]
            else:
                items[i] = g_scalar(rng)
        elif items:
            i = rng.randrange(len(items))
            if tag == "d":
                items[i] = [items[i][0], mutate(rng, items[i][1], depth + 1)]
            elif tag == "l":
                items[i] = mutate(rng, items[i], depth + 1)
        return {tag: items}
    return g_scalar(rng) if rng.random() < 0.7 else g_any(rng, 1)


EV_NAMES = {
    "plain": ["Ev", "Other"],
    "action": ["UtteranceBotActionFinished", "UtteranceBotActionStarted", "GestureBotActionFinished"],
    "internal": ["StartFlow", "FlowStarted", "FlowFinished", "FlowFailed", "FinishFlow", "StopFlow", "UnhandledEvent"],
}
INTERNAL_KEYS = ["flow_id", "flow_instance_uid", "source_flow_instance_uid", "x", "return_value"]


def g_event_case(rng):
    kind = rng.choice(["plain", "action", "action", "internal", "internal", "internal"])
    names = EV_NAMES[kind]
    rname = rng.choice(names)
    ename = rname if rng.random() < 0.7 else rng.choice(names)
    if kind == "internal":
        keys = rng.sample(INTERNAL_KEYS, rng.randrange(0, 4))
        rargs = []
        for k in keys:
            if k == "flow_id":
                rargs.append([k, rng.choice([{"s": "f"}, {"s": "g"}, {"r": 0}, {"s": "a"}])])
            elif k.endswith("uid"):
                rargs.append([k, {"s": rng.choice(["u1", "u2"])}])
            else:
                rargs.append([k, g_pattern(rng, 1)])
        eargs = [[k, g_instance(rng, v)] for k, v in rargs]
        for k in INTERNAL_KEYS:
            if k not in keys and rng.random() < 0.6:
                eargs.append([k, {"s": rng.choice(["f", "g", "a", "u1", "u2"])}])
        if rng.random() < 0.4:
            m = mutate(rng, {"d": eargs})
            eargs = m["d"] if isinstance(m, dict) and "d" in m else eargs
    else:
        rp = {"d": [[k, g_pattern(rng, 2)] for k in rng.sample(KEYS, rng.randrange(0, 3))]}
        ep = g_instance(rng, rp)
        if rng.random() < 0.5:
            m = mutate(rng, ep)
            ep = m if isinstance(m, dict) and "d" in m else ep
        rargs, eargs = rp["d"], ep["d"]
    # de-duplicate keys (Python dicts cannot hold duplicates)
    eargs = list({k: v for k, v in eargs}.items())
    eargs = [[k, v] for k, v in eargs]
    case = {
        "kind": "event",
        "ev": {"kind": kind, "name": ename, "args": eargs},
        "ref": {"kind": kind, "name": rname, "args": rargs},
        "prio": rng.choice([None, None, [1, 1], [1, 0], [3, 2], [0, 0]]),
        "start_args": [],
    }
    if kind == "action":
        case["ref"]["action_uid"] = rng.choice([None, None, "a1", "a2"])
        case["ev"]["action_uid"] = rng.choice([None, "a1", "a1", "a2"])
        if rng.random() < 0.6:
            sa = [[k, g_scalar(rng)] for k in rng.sample(KEYS, rng.randrange(0, 3))]
            case["start_args"] = [["a1", sa]]
            if rng.random() < 0.5:
                sub = sa[: rng.randrange(len(sa) + 1)]
                case["ref"]["args"] = case["ref"]["args"] + [["action_arguments", {"d": sub}]]
                if rng.random() < 0.3:
                    case["ev"]["args"] = case["ev"]["args"] + [["action_arguments", {"d": []}]]
    if kind == "internal" and rng.random() < 0.5:
        case["ref"]["flow_uid"] = rng.choice(["u1", "u2"])
    return case


def gen_cases(rng, tier):
    n_fn, n_ev, n_e2e = (12000, 3000, 250) if tier == "quick" else (400000, 60000, 6000)
    depth = 4 if tier == "quick" else 6
    cases = []
    for i in range(n_fn):
        reserved = rng.random() < 0.03
        p = g_pattern(rng, rng.randrange(1, depth + 1), reserved)
        r = rng.random()
        if r < 0.4:
            a, how = g_instance(rng, p), "instance"
        elif r < 0.8:
            a, how = g_instance(rng, p), "mutated"
            for _ in range(rng.choice([1, 1, 2, 3])):
                a = mutate(rng, a)
        else:
            a, how = g_any(rng, 3), "independent"
        cases.append({"kind": "fn", "ref": p, "arg": a, "how": how})
    for i in range(n_ev):
        cases.append(g_event_case(rng))
    for i in range(n_e2e):
        p = g_pattern(rng, rng.randrange(1, 4), False)
        if not renderable(p):
            continue
        a = g_instance(rng, p)
        if rng.random() < 0.6:
            a = mutate(rng, a)
        cases.append({"kind": "e2e", "ref": p, "arg": a})
    n_ref = 120 if tier == "quick" else 3000
    for i in range(n_ref):
        cases.append(g_ref_case(rng))
    # multi-event histories: the statement's parameters are expressions over state that changes while the head waits
    n_hist = 1200 if tier == "quick" else 12000
    for i in range(n_hist):
        cases.append(hist.g_case(rng))
    return cases


def g_ref_case(rng):
    """Instance-specific references: `match $ref.Finished(...)` must only match events of that instance."""
    r0 = rng.random()
    if r0 < 0.6:
        n = rng.choice([2, 2, 3])
        k = rng.randrange(n)
        scripts = [rng.choice(["one", "two", "one"]) for _ in range(n)]
        params = rng.choice([[], [], [["final_script", "x"]], [["final_script", "x"], ["is_success", True]]])
        events = []
        for _ in range(rng.choice([1, 2, 3])):
            tgt = rng.choice(list(range(n)) + ["unknown", "none"])
            ev_params = dict(rng.choice([[], [["final_script", "x"]], [["final_script", "y"]], [["final_script", "x"], ["is_success", True], ["extra", 1]]]))
            events.append({"target": tgt, "params": ev_params})
        return {"kind": "e2e_ref", "sub": "action" if r0 < 0.35 else "ctor", "n": n, "k": k, "scripts": scripts, "params": params, "events": events}
    n = rng.choice([2, 2, 3])
    k = rng.randrange(n)
    order = list(range(n))
    rng.shuffle(order)
    if rng.random() < 0.35:
        return {"kind": "e2e_ref", "sub": "flowctor", "n": n, "k": k, "event_kind": "Finished", "events": [{"target": j} for j in order[: rng.choice([1, 2, n])]]}
    return {"kind": "e2e_ref", "sub": "flow", "n": n, "k": k, "event_kind": rng.choice(["Finished", "Finished", "Started"]), "events": [{"target": j} for j in order[: rng.choice([1, 2, n])]]}


def renderable(p):
    if isinstance(p, dict):
        if "S" in p:
            return len(p["S"]) > 0 and all(renderable(x) for x in p["S"])
        if "l" in p:
            return all(renderable(x) for x in p["l"])
        if "d" in p:
            return all(renderable(x) for _, x in p["d"])
        if "s" in p:
            return all(ch not in p["s"] for ch in "{}\"'\\$")
    return True


def render(p):
    if p is None:
        return "None"
    if isinstance(p, bool):
        return "True" if p else "False"
    if "i" in p:
        return str(p["i"])
    if "f" in p:
        return repr(vj.float_of(*p["f"]))
    if "s" in p:
        return json.dumps(p["s"])
    if "l" in p:
        return "[" + ", ".join(render(x) for x in p["l"]) + "]"
    if "S" in p:
        return "{" + ", ".join(render(x) for x in p["S"]) + "}"
    if "d" in p:
        return "{" + ", ".join(json.dumps(k) + ": " + render(x) for k, x in p["d"]) + "}"
    if "r" in p:
        return "regex(" + json.dumps(vj.REGEXES[p["r"]]) + ")"
    if "c" in p:
        fn = {"lt": "less_than", "le": "equal_less_than", "gt": "greater_than", "ge": "equal_greater_than", "ne": "not_equal_to"}[p["c"][0]]
        return f"{fn}({render(p['c'][1])})"
    raise ValueError(p)


# ----------------------------------------------------------------------------- implementation

_SM = None


def worker_init():
    global _SM
    import logging

    from nemoguardrails.colang.v2_x.runtime import statemachine as sm

    logging.getLogger("nemoguardrails").setLevel(logging.CRITICAL)  # contained matching errors are logged with a traceback
    _SM = sm


def _float_res(x):
    if isinstance(x, bool):
        return {"score": 1.0 if x else 0.0}
    return {"score": float(x)}


def run_impl(case):
    sm = _SM
    from nemoguardrails.colang.v2_x.runtime.errors import ColangValueError

    if case["kind"] == "fn":
        a, r = vj.dec(case["arg"]), vj.dec(case["ref"])
        obs = {"arg_seen": vj.enc(a), "ref_seen": vj.enc(r), "rx": vj.rx_table(a)}
        try:
            obs.update(_float_res(sm._compute_arguments_dict_matching_score(a, r)))
        except ColangValueError as e:
            obs["exc"] = "ColangValueError"
        except Exception as e:  # noqa
            obs["exc"] = type(e).__name__
        return obs
    if case["kind"] == "event":
        from nemoguardrails.colang.v2_x.runtime.flows import ActionEvent, Event, InternalEvent

        def mk(d):
            args = {k: vj.dec(v) for k, v in d["args"]}
            if d["kind"] == "plain":
                return Event(name=d["name"], arguments=args)
            if d["kind"] == "internal":
                e = InternalEvent(name=d["name"], arguments=args)
                if d.get("flow_uid"):
                    e.flow = types.SimpleNamespace(uid=d["flow_uid"])
                return e
            return ActionEvent(name=d["name"], arguments=args, action_uid=d.get("action_uid"))

        ev, ref = mk(case["ev"]), mk(case["ref"])
        state = types.SimpleNamespace(actions={u: types.SimpleNamespace(start_event_arguments={k: vj.dec(v) for k, v in sa}) for u, sa in case["start_args"]})
        prio = None if case["prio"] is None else vj.float_of(*case["prio"])
        import copy

        # the UMIM branch matches against copy.deepcopy(event): a deep-copied set may iterate in another order
        seen_ev = ev if case["ev"]["kind"] == "internal" else copy.deepcopy(ev)
        obs = {
            "ev_args_seen": [[k, vj.enc(v)] for k, v in seen_ev.arguments.items()],
            "ref_args_seen": [[k, vj.enc(v)] for k, v in ref.arguments.items()],
            "rx": vj.rx_table([ev.arguments, [sa for _, sa in case["start_args"]]]),
        }
        try:
            obs.update(_float_res(sm._compute_event_comparison_score(state, ev, ref, prio)))
        except ColangValueError:
            obs["exc"] = "ColangValueError"
        except Exception as e:  # noqa
            obs["exc"] = type(e).__name__
        return obs
    if case["kind"] == "e2e":
        return run_e2e(case)
    if case["kind"] == "e2e_ref":
        return run_e2e_ref(case)
    if case["kind"] == "e2e_hist":
        return hist.run(case, sm, Recorder)
    raise ValueError(case["kind"])


class Recorder:
    """Record, inside a real interpreter run, every call of `get_event_from_element` (op == match) and of
    `_compute_event_comparison_score`, with everything the Lean models of these functions need."""

    def __init__(self, sm):
        self.sm = sm
        self.calls = []
        self.skipped = 0
        self._evals = None

    def _enc_ev(self, e):
        from nemoguardrails.colang.v2_x.runtime.flows import ActionEvent, InternalEvent

        kind = "internal" if isinstance(e, InternalEvent) else "action" if isinstance(e, ActionEvent) else "plain"
        d = {"kind": kind, "name": e.name, "args": [[k, vj.enc(v)] for k, v in e.arguments.items()]}
        if kind == "action" and e.action_uid is not None:
            d["action_uid"] = e.action_uid
        if kind == "internal" and getattr(e, "flow", None) is not None:
            d["flow_uid"] = e.flow.uid
        return d

    def __enter__(self):
        sm = self.sm
        from nemoguardrails.colang.v2_x.lang.colang_ast import SpecType
        from nemoguardrails.colang.v2_x.runtime.flows import Action, FlowState

        self.orig = (sm.get_event_from_element, sm._evaluate_arguments, sm._compute_event_comparison_score)
        o_gefe, o_eval, o_cmp = self.orig
        o_cfi = sm.create_flow_instance
        self.orig_ms = sm._compute_event_matching_score
        o_ms = self.orig_ms
        self._in_ms = False
        self._ms_ref = None

        def w_ms(state, flow_state, head, event):
            # the isinstance gate in front of the comparison: record (event, reference event, result)
            self._in_ms, self._ms_ref = True, None
            try:
                r = o_ms(state, flow_state, head, event)
            finally:
                self._in_ms = False
            try:
                if self._ms_ref is not None:
                    import copy

                    seen = event if type(event).__name__ == "InternalEvent" else copy.deepcopy(event)
                    sa = []
                    uid = getattr(event, "action_uid", None)
                    if uid is not None and uid in state.actions:
                        sa = [[uid, [[k, vj.enc(v)] for k, v in state.actions[uid].start_event_arguments.items()]]]
                    self.calls.append({"fn": "ms", "ev": self._enc_ev(seen), "ref": self._enc_ev(self._ms_ref), "start_args": sa,
                                       "prio": None if not flow_state.priority else list(vj.dyadic(flow_state.priority)),
                                       "rx": vj.rx_table([seen.arguments, [x for _, x in sa]]), "score": float(r)})
            except Exception:  # noqa
                self.skipped += 1
            return r


        def w_eval(arguments, context):
            r = o_eval(arguments, context)
            if self._evals is not None:
                self._evals.append(dict(r))
            return r

        def w_gefe(state, flow_state, element):
            outer = self._evals
            self._evals = []
            try:
                res = o_gefe(state, flow_state, element)
            finally:
                evals, self._evals = self._evals, outer
            if self._in_ms and self._ms_ref is None:
                self._ms_ref = res
            try:
                if element["op"] == "match":
                    spec = element.spec
                    st = None
                    enc_args = lambda d: [[k, vj.enc(v)] for k, v in d.items()]
                    if spec["var_name"] is not None:
                        obj = flow_state.context.get(spec["var_name"])
                        if spec.members is not None and len(spec.members) == 1 and len(evals) == 1:
                            m = spec.members[0]["name"]
                            if isinstance(obj, Action):
                                st = {"form": "actionRef", "uid": obj.uid, "name": obj.name, "start_args": enc_args(obj.start_event_arguments), "member": m, "args": enc_args(evals[0])}
                            elif isinstance(obj, FlowState):
                                st = {"form": "flowRef", "uid": obj.uid, "flow_id": obj.flow_id, "flow_args": enc_args(obj.arguments), "member": m, "args": enc_args(evals[0])}
                                if "_return_value" in obj.context:
                                    st["return_value"] = vj.enc(obj.context["_return_value"])
                    elif spec.members is not None:
                        if spec.spec_type == SpecType.FLOW and len(evals) == 1:
                            tmp = o_cfi(state.flow_configs[spec.name], "", "", {})
                            st = {"form": "flowCtor", "flow_id": spec.name, "param_defaults": enc_args(tmp.arguments), "member": spec.members[0]["name"], "args": enc_args(evals[0])}
                        elif spec.spec_type == SpecType.ACTION and len(evals) == 2:
                            st = {"form": "actionCtor", "name": spec.name, "ctor_args": enc_args(evals[0]), "member": spec.members[0]["name"], "args": enc_args(evals[1])}
                    elif len(evals) == 1:
                        st = {"form": "bare", "name": spec.name, "is_lower": spec.name.islower(), "args": enc_args(evals[0])}
                    if st is not None:
                        self.calls.append({"fn": "gefe", "stmt": st, "res": self._enc_ev(res)})
                    else:
                        self.skipped += 1
            except Exception:  # noqa  (unencodable value: outside the model's universe)
                self.skipped += 1
            return res

        def w_cmp(state, event, ref_event, priority=None):
            rec = None
            try:
                import copy

                seen = event if type(event).__name__ == "InternalEvent" else copy.deepcopy(event)
                sa = []
                uid = getattr(event, "action_uid", None)
                if uid is not None and uid in state.actions:
                    sa = [[uid, [[k, vj.enc(v)] for k, v in state.actions[uid].start_event_arguments.items()]]]
                rec = {"fn": "cmp", "ev": self._enc_ev(seen), "ref": self._enc_ev(ref_event), "start_args": sa,
                       "prio": None if not priority else list(vj.dyadic(priority)),
                       "rx": vj.rx_table([seen.arguments, [x for _, x in sa]])}
            except Exception:  # noqa
                self.skipped += 1
            try:
                r = o_cmp(state, event, ref_event, priority)
            except Exception as e:  # noqa
                if rec is not None:
                    rec["exc"] = type(e).__name__
                    self.calls.append(rec)
                raise
            if rec is not None:
                rec["score"] = float(r)
                self.calls.append(rec)
            return r

        sm.get_event_from_element, sm._evaluate_arguments, sm._compute_event_comparison_score = w_gefe, w_eval, w_cmp
        sm._compute_event_matching_score = w_ms
        return self

    def __exit__(self, *a):
        sm = self.sm
        sm.get_event_from_element, sm._evaluate_arguments, sm._compute_event_comparison_score = self.orig
        sm._compute_event_matching_score = self.orig_ms


def run_e2e_ref(case):
    sm = _SM
    from nemoguardrails.colang import parse_colang_file
    from nemoguardrails.colang.v2_x.runtime.flows import InternalEvent, State
    from nemoguardrails.colang.v2_x.runtime.runtime import create_flow_configs_from_flow_list

    n, k = case["n"], case["k"]
    if case["sub"] in ("action", "ctor"):
        lines = ["flow main"]
        for i in range(n):
            lines.append(f'  start UtteranceBotAction(script="{case["scripts"][i]}") as $a{i}')
        args = ", ".join(f"{kk}={render(vj.enc(v))}" for kk, v in case["params"])
        if case["sub"] == "action":
            lines += [f"  match $a{k}.Finished({args})", "  send Hit()", "  match Never()"]
        else:
            lines += [f'  match UtteranceBotAction(script="{case["scripts"][k]}").Finished({args})', "  send Hit()", "  match Never()"]
    else:
        lines = ["flow child $x", "  match Done(id=$x)", "flow main"]
        for i in range(n):
            lines.append(f"  start child(x={i}) as $r{i}")
        if case["sub"] == "flowctor":
            lines += [f"  match child(x={k}).Finished()", "  send Hit()", "  match Never()"]
        else:
            lines += [f"  match $r{k}.{case['event_kind']}()", "  send Hit()", "  match Never()"]
    src = "\n".join(lines) + "\n"
    obs = {"src": src, "hits": []}
    rec = Recorder(sm)
    try:
        with rec:
            _run_ref_program(case, src, obs, sm)
    except Exception as e:  # noqa
        obs["exc"] = type(e).__name__ + ": " + str(e)[:100]
    obs["calls"] = rec.calls[:400]
    obs["calls_skipped"] = rec.skipped
    return obs


def _run_ref_program(case, src, obs, sm):
    from nemoguardrails.colang import parse_colang_file
    from nemoguardrails.colang.v2_x.runtime.flows import InternalEvent, State
    from nemoguardrails.colang.v2_x.runtime.runtime import create_flow_configs_from_flow_list

    n, k = case["n"], case["k"]
    if True:
        with contextlib.redirect_stdout(io.StringIO()):
            cfg = create_flow_configs_from_flow_list(parse_colang_file(filename="", content=src, include_source_mapping=False, version="2.x")["flows"])
            st = State(flow_states=[], flow_configs=cfg)
            sm.initialize_state(st)
            sm.run_to_completion(st, InternalEvent(name="StartFlow", arguments={"flow_id": "main"}))
        if case["sub"] in ("action", "ctor"):
            uids = [e["action_uid"] for e in st.outgoing_events if e.get("type") == "StartUtteranceBotAction"]
            obs["n_started"] = len(uids)
        obs["hit_at_start"] = any(e.get("type") == "Hit" for e in st.outgoing_events)
        for ev in case["events"]:
            st.outgoing_events.clear()
            if case["sub"] in ("action", "ctor"):
                d = {"type": "UtteranceBotActionFinished", **ev["params"]}
                if ev["target"] == "unknown":
                    d["action_uid"] = "no-such-action"
                elif ev["target"] != "none":
                    d["action_uid"] = uids[ev["target"]]
            else:
                d = {"type": "Done", "id": ev["target"]}
            with contextlib.redirect_stdout(io.StringIO()):
                sm.run_to_completion(st, d)
            obs["hits"].append(any(e.get("type") == "Hit" for e in st.outgoing_events))


def run_e2e(case):
    """`match Ev(x=<pattern>)` in a one-flow program; did the marker get sent?"""
    sm = _SM
    from nemoguardrails.colang import parse_colang_file
    from nemoguardrails.colang.v2_x.runtime.flows import InternalEvent, State
    from nemoguardrails.colang.v2_x.runtime.runtime import create_flow_configs_from_flow_list

    src = "flow main\n  match Ev(x=" + render(case["ref"]) + ")\n  send Hit()\n"
    a, r = vj.dec(case["arg"]), vj.dec(case["ref"])
    obs = {"arg_seen": vj.enc(a), "ref_seen": vj.enc(r), "rx": vj.rx_table(a), "src": src}
    try:
        with contextlib.redirect_stdout(io.StringIO()):
            cfg = create_flow_configs_from_flow_list(parse_colang_file(filename="", content=src, include_source_mapping=False, version="2.x")["flows"])
    except Exception as e:  # noqa  -- the pattern is not expressible in Colang source (grammar limit), not a matching question
        obs["skip"] = "parse:" + type(e).__name__
        return obs
    try:
        with contextlib.redirect_stdout(io.StringIO()):
            st = State(flow_states=[], flow_configs=cfg)
            sm.initialize_state(st)
            sm.run_to_completion(st, InternalEvent(name="StartFlow", arguments={"flow_id": "main"}))
            st.outgoing_events.clear()
            sm.run_to_completion(st, {"type": "Ev", "x": a})
        obs["hit"] = any(e.get("type") == "Hit" for e in st.outgoing_events)
    except Exception as e:  # noqa
        obs["exc"] = type(e).__name__
    # function-level score on what the interpreter evaluated is recomputed for the comparison
    try:
        obs.update(_float_res(sm._compute_arguments_dict_matching_score({"x": a}, {"x": r})))
    except Exception as e:  # noqa
        obs["fn_exc"] = type(e).__name__
    return obs


# ----------------------------------------------------------------------------- model

def model_requests(case, obs):
    if case["kind"] in ("e2e_ref", "e2e_hist"):
        reqs = []
        if case["kind"] == "e2e_hist":
            h = hist.model_request(case, obs)
            if h is not None:
                reqs.append(h)
        for c in obs.get("calls", []):
            if c["fn"] == "gefe":
                reqs.append({"m": "C04.stmt", "stmt": c["stmt"]})
            elif c["fn"] == "ms":
                reqs.append({"m": "C04.event", "gate": True, "ev": c["ev"], "ref": c["ref"], "rx": c["rx"], "prio": c["prio"], "start_args": c["start_args"]})
            else:
                reqs.append({"m": "C04.event", "ev": c["ev"], "ref": c["ref"], "rx": c["rx"], "prio": c["prio"], "start_args": c["start_args"]})
        return reqs
    if case["kind"] == "fn":
        return [{"m": "C04.score", "arg": obs["arg_seen"], "ref": obs["ref_seen"], "rx": obs["rx"]}]
    if case["kind"] == "e2e":
        return [{"m": "C04.score", "arg": {"d": [["x", obs["arg_seen"]]]}, "ref": {"d": [["x", obs["ref_seen"]]]}, "rx": obs["rx"]}]
    ev = dict(case["ev"], args=obs["ev_args_seen"])
    ref = dict(case["ref"], args=obs["ref_args_seen"])
    ev = {k: v for k, v in ev.items() if v is not None}
    ref = {k: v for k, v in ref.items() if v is not None}
    return [{"m": "C04.event", "ev": ev, "ref": ref, "rx": obs["rx"], "prio": case["prio"] if case["prio"] and case["prio"][0] != 0 else None, "start_args": case["start_args"]}]


def _close(a, b):
    return abs(a - b) <= 1e-9 * max(1.0, abs(a), abs(b))


def _ev_canon(e):
    return (e["kind"], e["name"], sorted((k, json.dumps(v, sort_keys=True)) for k, v in e["args"]), e.get("action_uid"), e.get("flow_uid"))


def compare_calls(obs, mouts):
    for c, m in zip(obs["calls"], mouts):
        if c["fn"] == "gefe":
            if m.get("unmodelled"):
                continue
            if _ev_canon(c["res"]) != _ev_canon(m):
                return f"get_event_from_element: implementation built {c['res']} from {c['stmt']}, model built {m}"
        else:
            fake_case = {"kind": "event"}
            fake_obs = {"exc": c["exc"]} if "exc" in c else {"score": c["score"]}
            d = compare(fake_case, fake_obs, [m])
            if d:
                which = "_compute_event_matching_score" if c["fn"] == "ms" else "_compute_event_comparison_score"
                return f"{which} (recorded in a run): {d}; event {c['ev']} ref {c['ref']}"
    return None


def compare(case, obs, mouts):
    if case["kind"] == "e2e_ref":
        return compare_calls(obs, mouts)
    if case["kind"] == "e2e_hist":
        if "skip" in obs:
            return None
        if hist.model_request(case, obs) is not None:
            d = hist.compare_hist(case, obs, mouts[0])
            if d:
                return d
            mouts = mouts[1:]
        return compare_calls(obs, mouts)
    m = mouts[0]
    if case["kind"] in ("fn", "e2e"):
        if case["kind"] == "e2e":
            if "skip" in obs:
                return None
            if cmp_error_possible(vj.dec(obs["arg_seen"]), vj.dec(obs["ref_seen"])):
                # since /repo 165bbcf the type error fails the matching flow instead of escaping: "no hit" in that order
                return None
            if ("exc" in obs or m["res"] == "err") and has_cmp(vj.dec(obs["ref_seen"])):
                # a comparison type error met while scanning a set depends on the iteration order of the
                # interpreter's own copy of the event, which the harness cannot observe end-to-end
                return None
            if "exc" in obs:
                # an exception escaping run_to_completion at match time is C10 territory; here only the decision is compared
                return None if m["res"] == "err" else f"e2e raised {obs['exc']} but model says {m}"
            exp_hit = m["res"] == "ok"
            if obs["hit"] != exp_hit:
                return f"end-to-end match decision {obs['hit']} but model says {m}"
            return None
        if "exc" in obs:
            return None if m["res"] == "err" and obs["exc"] == "ColangValueError" else f"impl raised {obs['exc']}, model {m}"
        if m["res"] == "err":
            return f"model err, impl score {obs['score']}"
        if m["res"] == "no":
            return None if obs["score"] == 0.0 else f"model no-match, impl score {obs['score']}"
        exp = 0.9 ** m["k"]
        return None if _close(obs["score"], exp) else f"model 0.9^{m['k']}={exp}, impl score {obs['score']}"
    # event
    if "exc" in obs:
        if m["res"] == "err" and obs["exc"] in ("ColangValueError", "KeyError"):
            return None
        return f"impl raised {obs['exc']}, model {m}"
    s = obs["score"]
    if m["res"] == "err":
        return f"model err, impl {s}"
    if m["res"] == "mismatch":
        return None if s == -1.0 else f"model mismatch(-1), impl {s}"
    if m["res"] == "zero":
        return None if s == 0.0 else f"model 0, impl {s}"
    exp = 0.9 ** m["k"] * (1.0 if m["prio"] is None else vj.float_of(*m["prio"]))
    return None if _close(s, exp) else f"model {exp} (k={m['k']}, prio={m['prio']}), impl {s}"


# ----------------------------------------------------------------------------- oracle (documentation rules)

class _Err(Exception):
    pass


def doc_matches(a, r):
    """Transcription of the property statement + event-generation-and-matching.rst on Python objects."""
    if isinstance(r, re.Pattern):
        if isinstance(a, (str, int, float)):
            return r.search(str(a)) is not None
        return a == r
    if hasattr(r, "_verif_op"):
        if not isinstance(a, type(r.value)):
            raise _Err()
        return bool(r.operator(a))
    if isinstance(r, dict):
        if not isinstance(a, dict) or len(a) < len(r):
            return False
        return all(k in a and doc_matches(a[k], v) for k, v in r.items())
    if isinstance(r, list):
        if not isinstance(a, list) or len(a) < len(r):
            return False
        # expected items found in order: order-preserving embedding (checked exhaustively, not greedily)
        def emb(i, j):
            if j == len(r):
                return True
            if len(a) - i < len(r) - j:
                return False
            return any(_safe(a[t], r[j]) and emb(t + 1, j + 1) for t in range(i, len(a)))
        return emb(0, 0)
    if isinstance(r, (set, frozenset)):
        if not isinstance(a, (set, frozenset)) or len(a) < len(r):
            return False
        return all(any(_safe(x, y) for x in a) for y in r)
    if not isinstance(r, type(a)):
        return False
    return a == r


def _safe(a, r):
    # inside list/set scans a comparison type error makes the outcome order-dependent; surface it
    return doc_matches(a, r)


def has_cmp(r):
    if hasattr(r, "_verif_op"):
        return True
    if isinstance(r, dict):
        return any(has_cmp(v) for v in r.values())
    if isinstance(r, (list, set, frozenset)):
        return any(has_cmp(v) for v in r)
    return False


def cmp_error_possible(a, r):
    """Could some scan order make a ComparisonExpression meet a value of another type (=> ColangValueError)?"""
    if hasattr(r, "_verif_op"):
        return not isinstance(a, type(r.value))
    if isinstance(r, dict) and isinstance(a, dict):
        return any(k in a and cmp_error_possible(a[k], v) for k, v in r.items())
    if isinstance(r, (list, set, frozenset)) and isinstance(a, (list, set, frozenset)):
        return any(cmp_error_possible(x, y) for x in a for y in r)
    return False


def has_reserved(r):
    if isinstance(r, dict):
        return any(k in RESERVED for k in r) or any(has_reserved(v) for v in r.values())
    if isinstance(r, (list, set, frozenset)):
        return any(has_reserved(v) for v in r)
    return False


def oracle_ref(case, obs):
    if "exc" in obs:
        return f"interpreter raised {obs['exc']} on an instance-reference program"
    if case["sub"] in ("flow", "flowctor") and case["event_kind"] == "Started":
        # every child has started when main reaches the match: the reference's own Started event is already past
        exp_hits = [False] * len(case["events"])
        if obs["hit_at_start"]:
            return "match $ref.Started() completed before any event of that instance arrived after the statement became active"
    elif obs["hit_at_start"]:
        return "Hit was sent before any event arrived"
    done = False
    for i, ev in enumerate(case["events"]):
        if case["sub"] == "ctor":
            want = dict((kk, v) for kk, v in case["params"])
            fits = isinstance(ev["target"], int) and case["scripts"][ev["target"]] == case["scripts"][case["k"]] and all(kk in ev["params"] and ev["params"][kk] == v for kk, v in want.items())
        elif case["sub"] == "action":
            want = dict((kk, v) for kk, v in case["params"])
            fits = ev["target"] == case["k"] and all(kk in ev["params"] and ev["params"][kk] == v for kk, v in want.items())
        else:
            fits = case["event_kind"] == "Finished" and ev["target"] == case["k"]
        exp = fits and not done
        if exp:
            done = True
        if obs["hits"][i] != exp:
            tgt = ev["target"]
            return f"statement refers to instance #{case['k']}; event #{i} belongs to instance {tgt!r} with params {ev.get('params')}: expected advance={exp}, implementation advance={obs['hits'][i]}"
    return None


def oracle(case, obs):
    if case["kind"] == "e2e_ref":
        return oracle_ref(case, obs)
    if case["kind"] == "e2e_hist":
        return hist.oracle(case, obs)
    if case["kind"] in ("fn", "e2e"):
        a, r = vj.dec(obs["arg_seen"]), vj.dec(obs["ref_seen"])
        if case["kind"] == "e2e":
            if "skip" in obs:
                return None
            a, r = {"x": a}, {"x": r}
        try:
            exp = doc_matches(a, r)
        except _Err:
            return None  # comparison between different types: the documented outcome is an error
        if case["kind"] == "e2e":
            if "exc" in obs:
                return None if has_cmp(r) else f"run_to_completion raised {obs['exc']} on a well-typed match"
            if cmp_error_possible(a, r):
                return None  # order-dependent comparison type error: the documented outcome is an error
            got = obs["hit"]
        else:
            if "exc" in obs:
                return None if has_cmp(r) else f"matcher raised {obs['exc']} on a pattern without comparison expressions"
            got = obs["score"] > 0.0
        if got != exp:
            return f"documented rules say match={exp}, implementation says match={got} (score {obs.get('score')})"
        if got and case["kind"] == "fn" and obs["score"] > 1.0 + 1e-12:
            return f"score {obs['score']} > 1.0: a received container smaller than the expected one matched"
        return None
    # event level
    ev, ref = case["ev"], case["ref"]
    if "exc" in obs:
        return None
    s = obs["score"]
    if ev["kind"] == "action" and ref.get("action_uid") and ref.get("action_uid") != ev.get("action_uid") and s > 0:
        return f"pattern refers to action {ref['action_uid']} but matched an event of action {ev.get('action_uid')}"
    eargs = {k: vj.dec(v) for k, v in obs["ev_args_seen"]}
    if ev["kind"] == "internal" and ev["name"] in ("FlowStarted", "FlowFinished", "FlowFailed") and ref.get("flow_uid") and "source_flow_instance_uid" in eargs and eargs["source_flow_instance_uid"] != ref["flow_uid"] and s > 0:
        return f"pattern refers to flow instance {ref['flow_uid']} but matched an event of instance {eargs['source_flow_instance_uid']}"
    if ev["kind"] != "internal":
        rargs = {k: vj.dec(v) for k, v in obs["ref_args_seen"]}
        full = dict(eargs)
        sa = dict((u, a) for u, a in case["start_args"])
        if ev["kind"] == "action" and ev.get("action_uid") in sa:
            full["action_arguments"] = {k: vj.dec(v) for k, v in sa[ev["action_uid"]]}
        try:
            exp = ev["name"] == ref["name"] and not (ev["kind"] == "action" and ref.get("action_uid") and ref.get("action_uid") != ev.get("action_uid")) and doc_matches(full, rargs)
        except _Err:
            return None
        if (s > 0) != exp:
            return f"documented rules say match={exp}, implementation score {s}"
    return None


def signature(case, obs, msg):
    if case["kind"] in ("e2e_ref", "e2e_hist"):
        return None
    try:
        if case["kind"] == "event":
            r = {k: vj.dec(v) for k, v in obs["ref_args_seen"]}
        else:
            r = vj.dec(obs["ref_seen"])
    except Exception:  # noqa
        return None
    if has_reserved(r):
        return "reserved-key-in-pattern"
    return None


def nontrivial(case, obs):
    if case["kind"] == "e2e_ref":
        return True
    if case["kind"] == "e2e_hist":
        return "skip" not in obs and any(s["op"] == "ev" for s in case["steps"])
    r = case["ref"] if case["kind"] != "event" else {"d": case["ref"]["args"]}
    s = json.dumps(r)
    structured = any(t in s for t in ('"l"', '"S"', '"d"', '"r"', '"c"'))
    if case["kind"] == "fn":
        return structured and case.get("how") != "instance"
    return structured


def tags(case, obs):
    t = ["kind:" + case["kind"]]
    if case["kind"] == "e2e_hist":
        return t + hist.tags(case, obs) + (["rec-skipped"] if obs.get("calls_skipped") else [])
    if case["kind"] == "e2e_ref":
        forms = sorted(set("rec:" + (c["stmt"]["form"] if c["fn"] == "gefe" else c["fn"] + "-" + c["ev"]["kind"] + ("/" + c["ref"]["kind"] if c["fn"] == "ms" else "")) for c in obs.get("calls", [])))
        return t + ["ref:" + case["sub"], "ref-hits:%d" % sum(obs.get("hits", []))] + forms + (["rec-skipped"] if obs.get("calls_skipped") else [])
    if case["kind"] == "fn":
        t.append("how:" + case["how"])
    if "skip" in obs:
        t.append("skip:" + obs["skip"])
    if "exc" in obs:
        t.append("exc:" + obs["exc"])
    elif "score" in obs:
        t.append("match" if obs["score"] > 0 else ("mismatch" if obs["score"] < 0 else "nomatch"))
    if case["kind"] == "e2e" and "hit" in obs:
        t.append("e2e-hit" if obs["hit"] else "e2e-nohit")
    r = json.dumps(case["ref"])
    for tag, name in (('"S"', "set"), ('"l"', "list"), ('"d"', "dict"), ('"r"', "regex"), ('"c"', "cmp")):
        if tag in r:
            t.append("has:" + name)
    return t


def _sub(v):
    """smaller variants of an encoded value"""
    if isinstance(v, dict):
        for tag in ("l", "S", "d"):
            if tag in v:
                items = v[tag]
                for i in range(len(items)):
                    yield {tag: items[:i] + items[i + 1:]}
                for i, it in enumerate(items):
                    inner = it[1] if tag == "d" else it
                    for s in _sub(inner):
                        yield {tag: items[:i] + [[it[0], s] if tag == "d" else s] + items[i + 1:]}
                if tag != "d":
                    for it in items:
                        yield it
                return


def shrink(case):
    if case["kind"] == "e2e_hist":
        yield from hist.shrink(case)
        return
    if case["kind"] == "e2e_ref":
        for i in range(len(case["events"])):
            if len(case["events"]) > 1:
                yield dict(case, events=case["events"][:i] + case["events"][i + 1:])
        return
    if case["kind"] in ("fn", "e2e"):
        for s in _sub(case["ref"]):
            if case["kind"] == "fn" or renderable(s):
                yield dict(case, ref=s)
        for s in _sub(case["arg"]):
            yield dict(case, arg=s)
    else:
        for side in ("ev", "ref"):
            for s in _sub({"d": case[side]["args"]}):
                yield dict(case, **{side: dict(case[side], args=s["d"])})
