"""C05 — competing flows: exactly one most-specific action wins per interaction loop.

Tie (record/replay): generated Colang 2.x programs are run through the REAL interpreter with
`statemachine._resolve_action_conflicts`, `_abort_flow`, `_generate_action_event_from_actionable_element` and
`random.choice` wrapped by recorders; every recorded call (input heads, choices) is replayed on the Lean model
`Conflict.resolveFates` and the outcomes are compared.  A second stream ("fn") calls the real function on synthetic
heads (stub State) to reach score vectors the programs cannot produce.
Oracle: written from the property statement on `state.outgoing_events` and the flow statuses (prog cases) and on the
recorded effects (fn cases); it does not use the model.
"""
import contextlib
import io
import json
import types

PROPERTY = "C05"
THEOREM_MODULE = "NemoVerif.Theorems.C05"
RULE = ("prog: 2..6 flows, each waits for `match E(<subset of the payload, occasionally not fitting>)` directly, through an awaited helper "
        "flow (vector [s, priority]), through a started helper flow (vector [s, 1.0]) or inside `when` (catch label), then starts an action / sends "
        "an event from a per-loop pool with deliberate duplicates; optional `priority`, `@loop`, `start`/`activate`, follow-up Stop on shared "
        "action references; each program is run under several tie-break choice sequences (thorough: all sequences when <= 4 heads tie). "
        "fn: 1..7 synthetic heads over <= 3 loops with score vectors of length 0..3 from a colliding value pool, shared flows, catch labels, "
        "duplicate events, Start and Stop events of the heads' actions. 5% of the programs: flows of one loop that start actions on different events "
        "and stop them on the same event (identical non-Start events of different action instances). score: two match statements (0..8 mentioned "
        "parameters, priority pool) against one event through the real _compute_event_comparison_score, float order vs the exact order of "
        "prio*(num/den)^k (Lean mcmp). non-trivial = some recorded call has >= 2 heads in one loop, or a score pair that differs in k or priority; "
        "distinct = distinct case JSON. Phase 4: 10% low-priority programs (priority 0.05..0.3, 4..10 event parameters, neighbouring specificity levels); "
        "shape `borrow` (the flow sends the Start event of an action it holds by reference only); `@loop(\"NEW\")` programs; two keyword arguments written "
        "in either order; 4% restart programs (sharers of one action send its Start event again against a fresh instance).")
TRUSTED_BASE = [
    "record/replay harness harness/props/C05.py (recorders around _resolve_action_conflicts/_abort_flow/random.choice, rank mapping of floats, "
    "event keys = canonical JSON of name+arguments) + Lean driver Drive/C05.lean",
    "CPython: `sorted` is stable also with reverse=True, list comparison is lexicographic, dict iteration is insertion ordered; float comparison "
    "(the model sees ranks of the floats that occur in a call, an order isomorphism)",
]
ASSUMPTIONS = [
    "head uids handed to _resolve_action_conflicts are pairwise distinct (checked on every recorded call)",
    "the look-ups of the co-winner branch (action_uids.index, del state.actions[uid]) succeed when the competing flow owns its action and the uid is still "
    "in state.actions (theorem cowin_lookups_succeed; modelled as-is by cowinStepAsIs); where they do not: findings cowin-on-borrowed-action, cowin-double-delete",
    "modelled by hand: _resolve_action_conflicts (with the repairs of fixes/C05-shared-action-cowin.diff, fixes/C05-identical-event-of-different-actions.diff — both applied — and the proposed fixes/C05-cowin-on-borrowed-action.diff, fixes/C05-cowin-double-delete.diff); get_event_from_element, _abort_flow, "
    "_advance_head_front are observed, not modelled",
]
EXHAUSTIVE = {"quick": False, "thorough": False}

KEYS = ["a", "b", "c", "d"]
LOW_KEYS = ["a", "b", "c", "d", "e", "g", "h", "i", "j", "k"]
LOOPS = [None, "L1", "L2"]
LOW_PRIOS = ["0.1", "0.1", "0.1", "0.2", "0.05", "0.15", "0.3"]
PRIOS = [None, None, None, "0.9", "0.5", "0.81", "1.0"]

# ----------------------------------------------------------------------------- generators


def g_prog(rng):
    npay = rng.choice([1, 2, 2, 3, 3, 4])
    payload = {k: rng.choice([1, 2]) for k in rng.sample(KEYS, npay)}
    n = rng.choice([2, 2, 3, 3, 4, 4, 5, 6])
    nloops = rng.choice([1, 1, 2, 3])
    loops = LOOPS[:nloops]
    poolsize = rng.choice([1, 2, 2, 3])
    flows = []
    for i in range(n):
        keys = rng.sample(list(payload), rng.randrange(0, len(payload) + 1))
        pat = {k: payload[k] for k in keys}
        r = rng.random()
        if r < 0.08:
            pat[rng.choice(KEYS)] = 3  # value not in payload: does not fit
        elif r < 0.12:
            pat["z"] = 1  # parameter the event does not carry
        shape = rng.choice(["direct", "direct", "direct", "await", "helper", "when"])
        if rng.random() < 0.07:
            shape = "borrow"  # the flow sends the Start event of an action it holds by reference but does not own
        kind = "send" if shape not in ("when", "borrow") and rng.random() < 0.2 else "action"
        f = {
            "pat": pat,
            "prio": rng.choice(PRIOS),
            "loop": rng.choice(loops),
            "shape": shape,
            "kind": kind,
            "act": rng.randrange(poolsize),
            "ref": kind == "action" and shape in ("direct", "await") and rng.random() < 0.5,
        }
        f["stop_after"] = f["ref"] and rng.random() < 0.5
        if rng.random() < 0.3:
            f["swap"] = True  # keyword arguments of the action / event written in the other order
        flows.append(f)
    if nloops == 1 and rng.random() < 0.08:
        # every flow declares `@loop("NEW")`: each instance gets an interaction loop of its own, nobody competes
        for f in flows:
            f["loop"] = "NEW"
    case = {"kind": "prog", "payload": payload, "flows": flows, "mode": rng.choice(["start", "start", "activate"]),
            "followup": any(f["stop_after"] for f in flows)}
    if rng.random() < 0.35:
        case["args2"] = True  # every action / event of the pool carries a second keyword argument
    return case


def g_prog_lowprio(rng):
    """Flows of one loop with a LOW declared priority (0.1 is what the shipped library flows use) on an event with many
    parameters, whose patterns mention neighbouring numbers of them: the scores are small (priority * 0.9^k), neighbouring
    specificity levels are only 10 % of that apart — they must still never tie."""
    npay = rng.choice([4, 5, 6, 7, 8, 9, 10])
    payload = {k: rng.choice([1, 2]) for k in rng.sample(LOW_KEYS, npay)}
    n = rng.choice([2, 2, 2, 3, 4])
    prio = rng.choice(LOW_PRIOS)
    base = rng.randrange(0, npay + 1)
    flows = []
    for i in range(n):
        m = min(npay, max(0, base + rng.choice([0, 1, 1, -1, -1, 2])))
        keys = rng.sample(list(payload), m)
        shape = rng.choice(["direct", "direct", "direct", "await", "helper", "when"])
        flows.append({"pat": {k: payload[k] for k in keys}, "prio": prio if rng.random() < 0.85 else rng.choice(LOW_PRIOS),
                      "loop": None, "shape": shape, "kind": "action", "act": i if rng.random() < 0.85 else rng.randrange(n),
                      "ref": False, "stop_after": False})
    return {"kind": "prog", "payload": payload, "flows": flows, "mode": rng.choice(["start", "start", "activate"]), "followup": False}


def g_prog_stop2(rng):
    """Flows of ONE loop that start (different or equal) actions on different events and later stop them on the same
    event F: `is_equal` ignores action_uid, so the Stop events of two different same-type actions count as identical."""
    payload = {"a": 1}
    n = rng.choice([2, 2, 3])
    flows = []
    for i in range(n):
        flows.append({"pat": {"a": 1} if rng.random() < 0.5 else {}, "prio": rng.choice([None, None, "0.5"]), "loop": None, "shape": "direct",
                      "kind": "action", "act": rng.randrange(2), "ref": True, "stop_after": True,
                      "trigger": "E" if i == 0 else rng.choice(["E", "E2"])})
    return {"kind": "prog", "payload": payload, "flows": flows, "mode": "start", "followup": True}


def g_prog_restart(rng):
    """Flows of ONE loop that co-win on an identical action at E (they share one Action object afterwards) and send its Start
    event AGAIN on F, where a fresh flow starts the identical action as a new instance: when the fresh flow is picked, every
    sharer co-wins with the same (shared) competing action."""
    payload = {"a": 1}
    n = rng.choice([2, 2, 3])
    flows = []
    for i in range(n):
        flows.append({"pat": {"a": 1} if rng.random() < 0.5 else {}, "prio": None, "loop": None, "shape": "direct",
                      "kind": "action", "act": 0 if rng.random() < 0.85 else 1, "ref": True, "stop_after": False, "restart_after": True})
    for _ in range(rng.choice([1, 1, 2])):
        flows.append({"pat": {}, "prio": rng.choice([None, None, "0.5"]), "loop": None, "shape": "direct", "kind": "action",
                      "act": rng.choice([0, 0, 1]), "ref": rng.random() < 0.5, "stop_after": False, "trigger": "F"})
    return {"kind": "prog", "payload": payload, "flows": flows, "mode": "start", "followup": True}


SCORE_POOL = [1.0, 0.9, 0.81, 0.9 * 0.9, 0.729, 0.5, 0.45, 0.9 * 0.5, 0.405, 0.0, 1.0, 0.9]


def g_fn(rng):
    n = rng.choice([1, 2, 2, 3, 3, 4, 4, 5, 6, 7])
    nloops = rng.choice([1, 1, 2, 3])
    nev = rng.choice([1, 2, 2, 3])
    nflows = max(1, n - rng.choice([0, 0, 0, 1]))
    base = [rng.choice(SCORE_POOL) for _ in range(3)]
    heads = []
    for i in range(n):
        ln = rng.choice([0, 1, 1, 1, 2, 2, 3])
        sc = [(base[j] if rng.random() < 0.6 else rng.choice(SCORE_POOL)) for j in range(ln)]
        flow = i if i < nflows else rng.randrange(nflows)
        act = rng.random() < 0.7
        heads.append({"flow": flow, "scores": sc, "ev": rng.randrange(nev), "act": act, "stop": act and rng.random() < 0.25,
                      "nrefs": (rng.choice([1, 1, 1, 0, 2]) if act else 0), "catch": rng.random() < 0.2})
    floop = [rng.randrange(nloops) for _ in range(nflows)]
    for h in heads:
        h["loop"] = floop[h["flow"]]
    return {"kind": "fn", "heads": heads, "choices": [rng.randrange(8) for _ in range(4)]}


SCORE_PRIOS = [None, None, "1.0", "0.9", "0.5", "0.81", "0.25", "0.75", "0.1", "0.3", "0.729", "0.45"]


def g_score(rng):
    """Two match statements against one event: (mentioned parameters, flow priority) each."""
    n = rng.randrange(0, 9)
    side = lambda: {"m": rng.randrange(0, n + 1), "prio": rng.choice(SCORE_PRIOS)}  # noqa
    a, b = side(), side()
    if rng.random() < 0.3:
        b["prio"] = a["prio"]
    return {"kind": "score", "n": n, "a": a, "b": b}


def gen_cases(rng, tier):
    n_prog, n_fn = (400, 6000) if tier == "quick" else (10000, 150000)
    cases = []
    for _ in range(n_prog):
        r = rng.random()
        c = g_prog(rng) if r < 0.82 else (g_prog_lowprio(rng) if r < 0.92 else (g_prog_stop2(rng) if r < 0.96 else g_prog_restart(rng)))
        if tier == "quick":
            c["choices"] = [[rng.randrange(6) for _ in range(6)] for _ in range(3)]
        else:
            c["light"] = True
            c["choices"] = "tree"  # systematic exploration of the tie-break tree (exhaustive when <= 4 heads tie)
            c["extra_choices"] = [[rng.randrange(6) for _ in range(6)] for _ in range(2)]
        cases.append(c)
    for _ in range(n_fn):
        cases.append(g_fn(rng))
    for _ in range(2000 if tier == "quick" else 40000):
        cases.append(g_score(rng))
    return cases


# ----------------------------------------------------------------------------- program rendering

def loop_name(f, i):
    """the loop tag that is part of the action payload: declared loop, `M` (main), or one per flow for `@loop("NEW")`"""
    if f["loop"] == "NEW":
        return f"N{i}"
    return f["loop"] or "M"


def action_args(f, tag, key, second=False):
    args = [f'{key}="{tag}"'] + (["n=1"] if second else [])
    if f.get("swap"):
        args.reverse()
    return ", ".join(args)


def action_stmt(f, i, loopname, second=False):
    tag = f"{loopname}-{f['act']}"
    if f["kind"] == "send":
        return f'send Foo({action_args(f, tag, "x", second)})'
    return f'start UtteranceBotAction({action_args(f, tag, "script", second)})' + (" as $r" if f["ref"] else "")


def render(case):
    out = []
    a2 = bool(case.get("args2"))
    for i, f in enumerate(case["flows"]):
        loopname = loop_name(f, i)
        deco = f'@loop("{f["loop"]}")\n' if f["loop"] else ""
        pat = ", ".join(f"{k}={v}" for k, v in f["pat"].items())
        prio = [f"  priority {f['prio']}"] if f["prio"] else []
        body = []
        head = f"flow f{i}"
        if f["shape"] == "await":
            out.append(f"flow u{i}\n  match E({pat})\n")
            body += prio + [f"  await u{i}", "  " + action_stmt(f, i, loopname, a2)]
        elif f["shape"] == "helper":
            out.append(f"flow h{i}\n  {action_stmt(f, i, loopname, a2)}\n  match Never()\n")
            body += prio + [f"  match E({pat})", f"  start h{i}"]
        elif f["shape"] == "when":
            body += prio + [f"  match E({pat})", f'  when UtteranceBotAction({action_args(f, loopname + "-" + str(f["act"]), "script", a2)})',
                            "    match Never()", "  else", "    $lost = True", "    match Never()"]
        elif f["shape"] == "borrow":
            # the owner o<i> starts the action (before the event) and hands the reference to f<i>, which starts it again on E
            out.append(deco + f"flow o{i}\n  {action_stmt(f, i, loopname, a2)} as $r\n  start f{i}($r)\n  match Never()\n")
            head = f"flow f{i} $r"
            body += prio + [f"  match E({pat})", "  send $r.Start()"]
        else:
            trig = f"E2({pat})" if f.get("trigger") == "E2" else ("F()" if f.get("trigger") == "F" else f"E({pat})")
            body += prio + [f"  match {trig}", "  " + action_stmt(f, i, loopname, a2)]
        if f.get("stop_after"):
            body += ["  match F()", "  send $r.Stop()"]
        if f.get("restart_after"):
            body += ["  match F()", "  send $r.Start()"]
        body.append("  match Never()")
        out.append(deco + head + "\n" + "\n".join(body) + "\n")
    kw = "activate" if case["mode"] == "activate" else "start"
    top = lambda i, f: ("o" if f["shape"] == "borrow" else "f") + str(i)  # noqa
    out.append("flow main\n" + "".join(f"  {kw} {top(i, f)}\n" for i, f in enumerate(case["flows"])) + "  match Never()\n")
    return "\n".join(out)


# ----------------------------------------------------------------------------- implementation (recorders)

_SM = None


def worker_init():
    global _SM
    from nemoguardrails.colang.v2_x.runtime import statemachine as sm

    _SM = sm


class Recorder:
    """Wraps the conflict-resolution entry points of `statemachine` for one run."""

    def __init__(self, sm, choices, event_of=None):
        self.sm = sm
        self.choices = list(choices)
        self.ci = 0
        self.calls = []
        self.cur = None
        self.depth = 0
        self.event_of = event_of
        self.all_counts = []
        self.saved = {}

    def __enter__(self):
        sm = self.sm
        for name in ("_resolve_action_conflicts", "_abort_flow", "_generate_action_event_from_actionable_element"):
            self.saved[name] = getattr(sm, name)
        self.saved_choice = sm.random.choice
        orig_resolve, orig_abort, orig_gen = (self.saved[n] for n in ("_resolve_action_conflicts", "_abort_flow", "_generate_action_event_from_actionable_element"))
        rec = self

        def resolve(state, heads):
            heads = list(heads)
            if not heads:
                return orig_resolve(state, heads)
            call = {"heads": [], "choice": [], "aborts": [], "gen": []}
            for h in heads:
                fs = state.flow_states[h.flow_state_uid]
                cfg = state.flow_configs[fs.flow_id]
                el = cfg.elements[h.position]
                try:
                    ev = (rec.event_of or sm.get_event_from_element)(state, fs, el)
                    evd = {"cls": type(ev).__name__, "name": ev.name, "args": json.dumps(ev.arguments, sort_keys=True, default=str),
                           "act": getattr(ev, "action_uid", None) or None}
                except Exception as e:  # noqa
                    evd = {"cls": "ERR", "name": type(e).__name__, "args": "", "act": None}
                nrefs = 0
                if evd["act"]:
                    from nemoguardrails.colang.v2_x.runtime.flows import Action

                    nrefs = sum(1 for v in fs.context.values() if isinstance(v, Action) and v.uid == evd["act"])
                call["heads"].append({"uid": h.uid, "flow": h.flow_state_uid, "flow_id": fs.flow_id, "loop": fs.loop_id, "scores": list(h.matching_scores),
                                      "ev": evd, "nrefs": nrefs, "catch": bool(h.catch_pattern_failure_label), "pos": h.position,
                                      "start": bool(evd["act"]) and evd["act"] in state.actions and evd["name"] == "Start" + state.actions[evd["act"]].name,
                                      "in_uids": (evd["act"] in fs.action_uids) if evd["act"] else None})
            call["tbl"] = [[u, a.flow_scope_count] for u, a in state.actions.items()]
            rec.cur = call
            try:
                out = orig_resolve(state, heads)
                call["advancing"] = [h.uid for h in out]
            except Exception as e:  # noqa
                call["exc"] = type(e).__name__ + ": " + str(e)[:100]
                rec.cur = None
                rec.calls.append(call)
                raise
            rec.cur = None
            call["pos_after"] = [h.position for h in heads]
            call["tbl_after"] = [[u, a.flow_scope_count] for u, a in state.actions.items()]
            rec.calls.append(call)
            return out

        def abort(state, flow_state, matching_scores, *a, **k):
            if rec.cur is not None and rec.depth == 0:
                rec.cur["aborts"].append({"flow": flow_state.uid, "acts": list(getattr(flow_state, "action_uids", []))})
            rec.depth += 1
            try:
                return orig_abort(state, flow_state, matching_scores, *a, **k)
            finally:
                rec.depth -= 1

        def gen(state, head):
            if rec.cur is not None and rec.depth == 0:
                rec.cur["gen"].append(head.uid)
            return orig_gen(state, head)

        def choice(seq):
            c = rec.choices[rec.ci] if rec.ci < len(rec.choices) else 0
            rec.ci += 1
            rec.all_counts.append(len(seq))
            if rec.cur is not None:
                rec.cur["choice"].append([len(seq), c])
            return seq[c % len(seq)]

        sm._resolve_action_conflicts = resolve
        sm._abort_flow = abort
        sm._generate_action_event_from_actionable_element = gen
        sm.random.choice = choice
        return self

    def __exit__(self, *a):
        for name, fn in self.saved.items():
            setattr(self.sm, name, fn)
        self.sm.random.choice = self.saved_choice


def _clean_event(e):
    drop = ("uid", "event_created_at", "source_uid", "action_info_modality", "action_info_modality_policy")
    return {k: v for k, v in e.items() if k not in drop}


MAX_TREE_RUNS = 48


def run_prog(case):
    sm = _SM
    from nemoguardrails.colang import parse_colang_file
    from nemoguardrails.colang.v2_x.runtime.flows import InternalEvent, State
    from nemoguardrails.colang.v2_x.runtime.runtime import create_flow_configs_from_flow_list

    src = render(case)
    obs = {"src": src, "runs": []}
    try:
        with contextlib.redirect_stdout(io.StringIO()):
            flows = parse_colang_file(filename="", content=src, include_source_mapping=False, version="2.x")["flows"]
    except Exception as e:  # noqa
        obs["skip"] = "parse:" + type(e).__name__ + ":" + str(e)[:80]
        return obs
    events = [dict({"type": "E"}, **case["payload"])]
    if any(f.get("trigger") == "E2" for f in case["flows"]):
        events.append(dict({"type": "E2"}, **case["payload"]))
    if case.get("followup"):
        events += [{"type": "F"}, {"type": "G"}]
    seen_sig = set()
    # "tree": systematic exploration of the tie-break tree — every run reports the candidate count of each random.choice
    # call; for every call beyond the forced prefix with n > 1 candidates the alternatives 1..min(n,4)-1 are scheduled.
    # Each leaf is visited once; exhaustive whenever no tie has more than 4 candidates and the tree has <= MAX_TREE_RUNS leaves.
    tree = case.get("choices") == "tree"
    todo = [[]] if tree else list(case.get("choices") or [[0] * 6])
    if tree:
        todo += [list(c) for c in case.get("extra_choices", [])]
    nruns = 0
    obs["tree_complete"] = tree
    while todo:
        choices = todo.pop(0)
        nruns += 1
        run = {"choices": choices, "steps": [], "calls": []}
        try:
            with contextlib.redirect_stdout(io.StringIO()):
                cfg = create_flow_configs_from_flow_list(flows)
                st = State(flow_states=[], flow_configs=cfg)
                sm.initialize_state(st)
                sm.run_to_completion(st, InternalEvent(name="StartFlow", arguments={"flow_id": "main"}))
        except Exception as e:  # noqa
            obs["skip"] = "init:" + type(e).__name__ + ":" + str(e)[:80]
            return obs
        run["start_out"] = len(st.outgoing_events)
        # the competing instances (first instance of every f<i>)
        inst = {}
        for uid, fs in st.flow_states.items():
            if fs.flow_id.startswith("f") and fs.flow_id[1:].isdigit() and fs.flow_id not in inst and fs.status.value in ("started", "starting", "waiting") and fs.heads:
                inst[fs.flow_id] = uid
        run["inst"] = inst

        def snap():
            d = {}
            for fid, uid in inst.items():
                fs = st.flow_states.get(uid)
                if fs is None:
                    d[fid] = None
                    continue
                d[fid] = {"status": fs.status.value, "loop": fs.loop_id, "pos": sorted(h.position for h in fs.heads.values()),
                          "lost": bool(fs.context.get("lost")), "acts": list(fs.action_uids)}
            return d

        run["before"] = snap()
        with Recorder(sm, choices) as rec:
            for ev in events:
                step = {}
                try:
                    with contextlib.redirect_stdout(io.StringIO()):
                        sm.run_to_completion(st, dict(ev))
                    step["out"] = [_clean_event(e) for e in st.outgoing_events]
                except Exception as e:  # noqa
                    step["exc"] = type(e).__name__ + ": " + str(e)[:100]
                step["flows"] = snap()
                step["missing_actions"] = sorted({u for fs in st.flow_states.values() for u in fs.action_uids if u not in st.actions})
                step["ncalls"] = len(rec.calls)
                run["steps"].append(step)
                if "exc" in step:
                    break
            run["calls"] = rec.calls
            counts = rec.all_counts
        if tree and nruns <= MAX_TREE_RUNS and (nruns == 1 or len(choices) and choices not in case.get("extra_choices", [])):
            used = [(choices[k] if k < len(choices) else 0) for k in range(len(counts))]
            for k in range(len(choices), len(counts)):
                for alt in range(1, min(counts[k], 4)):
                    if len(todo) + nruns < MAX_TREE_RUNS:
                        todo.append(used[:k] + [alt])
                    else:
                        obs["tree_complete"] = False
                if counts[k] > 4:
                    obs["tree_complete"] = False
        # identical runs (same picks) are kept once
        sig = json.dumps([[c["choice"], c.get("advancing")] for c in run["calls"]] + [[s.get("exc")] for s in run["steps"]])
        if sig in seen_sig:
            continue
        seen_sig.add(sig)
        obs["runs"].append(run)
    return canon_uids(obs)


def canon_uids(obs):
    """Replace uuid strings by small integers in order of first appearance (kept as strings 'u<n>')."""
    s = json.dumps(obs, default=str)
    import re

    table = {}

    def sub(m):
        return table.setdefault(m.group(0), f"u{len(table)}")

    s = re.sub(r"(?:\([A-Za-z0-9_ ]+\))?[0-9a-f]{8}-[0-9a-f]{4}-[0-9a-f]{4}-[0-9a-f]{4}-[0-9a-f]{12}", sub, s)
    return json.loads(s)


def run_fn(case):
    """The real `_resolve_action_conflicts` on synthetic heads (stub State; event extraction, abort and generation stubbed)."""
    sm = _SM
    from nemoguardrails.colang.v2_x.lang.colang_ast import Spec, SpecOp
    from nemoguardrails.colang.v2_x.runtime.flows import Action, ActionEvent, Event, FlowHead

    heads = case["heads"]
    nflows = max(h["flow"] for h in heads) + 1
    flow_states, flow_configs, actions, evmap = {}, {}, {}, {}
    per_flow = {f: [i for i, h in enumerate(heads) if h["flow"] == f] for f in range(nflows)}
    hobjs = []
    for f, idxs in per_flow.items():
        if not idxs:
            continue
        els = []
        ctx = {}
        auids = []
        for pos, i in enumerate(idxs):
            h = heads[i]
            el = SpecOp(op="send", spec=Spec(name=f"Ev{h['ev']}"))
            els.append(el)
            if h["act"]:
                a = Action(f"X{h['ev']}Action", {"k": h["ev"]}, f"F{f}")
                a.uid = f"A{i}"
                a.flow_scope_count = 1
                actions[a.uid] = a
                auids.append(a.uid)
                for r in range(h["nrefs"]):
                    ctx[f"ref_{i}_{r}"] = a
                evmap[id(el)] = ActionEvent(name=("Stop" if h.get("stop") else "Start") + f"X{h['ev']}Action", arguments={"k": h["ev"]}, action_uid=a.uid)
            else:
                evmap[id(el)] = Event(name=f"Ev{h['ev']}", arguments={"k": h["ev"]})
        els.append(SpecOp(op="match", spec=Spec(name="CatchTarget")))
        flow_configs[f"flow{f}"] = types.SimpleNamespace(elements=els, element_labels={"L": len(els) - 1}, id=f"flow{f}", loop_id=f"loop{heads[idxs[0]]['loop']}")
        flow_states[f"F{f}"] = types.SimpleNamespace(uid=f"F{f}", flow_id=f"flow{f}", loop_id=f"loop{heads[idxs[0]]['loop']}", context=ctx, action_uids=auids, scopes={})  # scopes: read by the co-win branch since /repo 2a6b31b
        for pos, i in enumerate(idxs):
            h = heads[i]
            hobjs.append((i, FlowHead(uid=f"H{i}", flow_state_uid=f"F{f}", matching_scores=list(h["scores"]),
                                      catch_pattern_failure_label=(["L"] if h["catch"] else []), _position=pos)))
    hobjs.sort()
    state = types.SimpleNamespace(flow_states=flow_states, flow_configs=flow_configs, actions=actions, outgoing_events=[])
    obs = {}
    saved_abort, saved_gen = sm._abort_flow, sm._generate_action_event_from_actionable_element
    sm._abort_flow = lambda *a, **k: None

    def stub_gen(st, head):
        # what the real generation does to state.actions: a generated Start event sets flow_scope_count = 1
        fs = st.flow_states[head.flow_state_uid]
        e = evmap[id(st.flow_configs[fs.flow_id].elements[head.position])]
        if isinstance(e, ActionEvent) and e.action_uid in st.actions and e.name == "Start" + st.actions[e.action_uid].name:
            st.actions[e.action_uid].flow_scope_count = 1

    sm._generate_action_event_from_actionable_element = stub_gen
    try:
        with Recorder(sm, case["choices"], event_of=lambda st, fs, el: evmap[id(el)]) as rec:
            saved_get = sm.get_event_from_element
            sm.get_event_from_element = lambda st, fs, el: evmap[id(el)]
            try:
                sm._resolve_action_conflicts(state, [h for _, h in hobjs])
            except Exception as e:  # noqa
                obs["exc"] = type(e).__name__ + ": " + str(e)[:100]
            finally:
                sm.get_event_from_element = saved_get
            obs["calls"] = rec.calls
    finally:
        sm._abort_flow, sm._generate_action_event_from_actionable_element = saved_abort, saved_gen
    return obs


def run_score(case):
    """The real `_compute_event_comparison_score` on two reference events; exact (k, priority) beside the floats."""
    sm = _SM
    from fractions import Fraction

    from nemoguardrails.colang.v2_x.runtime.flows import Event

    from ..impl import valjson as vj

    n = case["n"]
    keys = [f"p{i}" for i in range(n)]
    ev = Event(name="E", arguments={k: i for i, k in enumerate(keys)})
    state = types.SimpleNamespace(actions={})
    obs = {}
    for side in ("a", "b"):
        d = case[side]
        ref = Event(name="E", arguments={k: i for i, k in enumerate(keys[: d["m"]])})
        prio = float(d["prio"]) if d["prio"] else None
        try:
            f = float(sm._compute_event_comparison_score(state, ev, ref, prio))
        except Exception as e:  # noqa
            obs["exc"] = type(e).__name__
            return obs
        k = n - d["m"]
        exact = (Fraction(prio) if prio else Fraction(1)) * Fraction(9, 10) ** k
        obs[side] = {"f": f, "k": k, "prio": (list(vj.dyadic(prio)) if prio else None), "exact": [exact.numerator, exact.denominator]}
    return obs


def _score_near_tie(obs):
    from fractions import Fraction

    xa, xb = Fraction(*obs["a"]["exact"]), Fraction(*obs["b"]["exact"])
    return xa != xb and abs(xa - xb) <= Fraction(1, 10 ** 9) * max(xa, xb)


def run_impl(case):
    if case["kind"] == "score":
        obs = run_score(case)
        if "exc" in obs:
            obs.update(_oracle="matcher raised " + obs["exc"], _model=[], _sig=None, _nt=False, _tags=["kind:score", "exc"])
            return obs
        a, b = obs["a"], obs["b"]
        near = _score_near_tie(obs)
        orc = None
        for x in (a, b):
            want = float(x["exact"][0]) / float(x["exact"][1])
            if abs(x["f"] - want) > 1e-9 * max(1.0, want):
                orc = f"score {x['f']} is not priority * 0.9^(unmentioned parameters) = {want}"
        if orc is None and a["prio"] == b["prio"] and a["k"] != b["k"]:
            # "most specific = fewest unmentioned parameters" under equal priority
            if (a["k"] < b["k"]) != (a["f"] > b["f"]):
                orc = f"fewer unmentioned parameters ({a['k']} vs {b['k']}) do not give the larger score ({a['f']} vs {b['f']})"
        obs["_oracle"] = orc
        sign = (a["f"] > b["f"]) - (a["f"] < b["f"])
        obs["_model"] = [[{"m": "C05.mcmp", "a": {"k": a["k"], "prio": a["prio"]}, "b": {"k": b["k"], "prio": b["prio"]}},
                          {"score_sign": sign, "near": near}]]
        obs["_sig"] = None
        obs["_nt"] = a["k"] != b["k"] or a["prio"] != b["prio"]
        obs["_tags"] = ["kind:score", "near-tie-skipped" if near else "order-compared", f"sign:{sign}"]
        return obs
    return _run_impl(case)


def _run_impl(case):
    """Everything that is per case (oracle, model requests with the expected answers, tags) is computed here, in the
    worker process; the parent only ships the requests to the Lean driver and compares integers."""
    obs = run_prog(case) if case["kind"] == "prog" else run_fn(case)
    obs["_oracle"] = _oracle(case, obs)
    obs["_model"] = [call_expect(c) for c in all_calls(case, obs) if "exc" not in c]
    obs["_sig"] = _signature(case, obs)
    obs["_nt"] = _nontrivial(case, obs)
    obs["_tags"] = _tags(case, obs)
    if case.get("light") and obs["_oracle"] is None and "runs" in obs:
        # thorough tier: keep the per-run detail only for failing cases (a replay re-executes the case anyway)
        obs["runs"] = [{"choices": r["choices"], "ncalls": len(r["calls"])} for r in obs["runs"]]
    return obs


# ----------------------------------------------------------------------------- model requests / compare

def all_calls(case, obs):
    if case["kind"] == "prog":
        return [c for r in obs.get("runs", []) for c in r["calls"]]
    return obs.get("calls", [])


def _intern(table, key):
    return table.setdefault(key, len(table))


def call_expect(call):
    """(driver request, expected answer in the request's integer names) for one recorded call."""
    floats = sorted({1.0} | {x for h in call["heads"] for x in h["scores"]})
    rank = {x: i for i, x in enumerate(floats)}
    uid, ev = {}, {}
    for u, _ in call["tbl"]:
        _intern(uid, u)
    heads = []
    for h in call["heads"]:
        heads.append({
            "uid": _intern(uid, "h:" + str(h["uid"])), "flow": _intern(uid, "f:" + str(h["flow"])), "loop": _intern(uid, "l:" + str(h["loop"])),
            "scores": [rank[x] for x in h["scores"]], "ev": _intern(ev, (h["ev"]["name"], h["ev"]["args"])),
            "act": (_intern(uid, h["ev"]["act"]) if h["ev"]["act"] else None), "nrefs": h["nrefs"], "catch": h["catch"], "start": bool(h.get("start")),
            "owns": h.get("in_uids") is not False})
    req = {"m": "C05.resolve", "one": rank[1.0], "heads": heads, "choices": [c for _, c in call["choice"]] or [],
           "tbl": [[_intern(uid, u), n] for u, n in call["tbl"]]}
    hu = [h["uid"] for h in call["heads"]]
    exp = {"dup": len(set(hu)) != len(hu),
           "adv": [uid["h:" + str(x)] for x in call["advancing"]],
           "gen": [uid["h:" + str(x)] for x in call["gen"]],
           "ab": [uid.get("f:" + str(a["flow"]), -1) for a in call["aborts"]],
           "moved": sorted(uid["h:" + str(h["uid"])] for h, p in zip(call["heads"], call["pos_after"]) if p != h["pos"]),
           "ties": [n for n, _ in call["choice"]], "tbl": None}
    # state.actions: only when no aborted flow touches the actions of the competing heads (abort decrements are not modelled)
    touched = {a for ab_ in call["aborts"] for a in ab_["acts"]}
    head_acts = {h["ev"]["act"] for h in call["heads"] if h["ev"]["act"]}
    if not (touched & head_acts):
        exp["tbl"] = sorted([uid[u], n] for u, n in call["tbl_after"] if u in uid)
        if any(u not in uid for u, _ in call["tbl_after"]):
            exp["tbl"].append([-1, -1])  # an action appeared during the call: never expected
    return [req, exp]


def shared_action_region(call):
    """Region of the open finding: two heads with an equal event that carry the SAME action uid."""
    seen = {}
    for h in call["heads"]:
        a = h["ev"]["act"]
        if a:
            k = (h["loop"], h["ev"]["name"], h["ev"]["args"], a)
            if k in seen:
                return True
            seen[k] = 1
    return False


def distinct_actions_identical_event(call):
    """Documented non-violation: two heads of one loop whose events are equal by name+arguments but belong to DIFFERENT
    actions and are not Start events (e.g. two `send $r.Stop()`): the code treats them as identical (co-win, the second
    action is dropped from state.actions without a Stop event)."""
    seen = {}
    for h in call["heads"]:
        a = h["ev"]["act"]
        if a and not h.get("start"):
            k = (h["loop"], h["ev"]["name"], h["ev"]["args"])
            if k in seen and seen[k] != a:
                return True
            seen.setdefault(k, a)
    return False


def borrowed_action_region(call):
    """Region of the finding `cowin-on-borrowed-action`: a head whose Start event belongs to an action that is NOT in its
    flow's action_uids (the flow holds the action by reference only) competes with a head of the same loop that carries the
    equal event of another action instance."""
    for h in call["heads"]:
        if h["ev"]["act"] and h.get("in_uids") is False:
            for o in call["heads"]:
                if o is not h and o["loop"] == h["loop"] and o["ev"]["act"] and o["ev"]["act"] != h["ev"]["act"] \
                        and (o["ev"]["name"], o["ev"]["args"]) == (h["ev"]["name"], h["ev"]["args"]):
                    return True
    return False


def double_delete_region(call):
    """Region of the finding `cowin-double-delete`: two heads of one loop carry the SAME action uid (co-winners of an earlier
    round that share one action) and a third head of the loop carries the equal Start event of another action instance."""
    for w in call["heads"]:
        if not (w["ev"]["act"] and w.get("start")):
            continue
        same = [h for h in call["heads"] if h is not w and h["loop"] == w["loop"] and h["ev"]["act"] and h["ev"]["act"] != w["ev"]["act"]
                and (h["ev"]["name"], h["ev"]["args"]) == (w["ev"]["name"], w["ev"]["args"])]
        acts = [h["ev"]["act"] for h in same]
        if len(acts) != len(set(acts)):
            return True
    return False


def model_requests(case, obs):
    return [r for r, _ in obs["_model"]]


def compare_one(exp, m):
    if "score_sign" in exp:
        # hypothesis `hr` of more_specific_wins: the float order (which the ranks are taken from) is the exact order of
        # priority * (9/10)^k; pairs whose exact values are closer than 1e-9 (relative) are outside the claim
        if exp["near"] or m["cmp"] == exp["score_sign"]:
            return None
        return f"float order of the real scores ({exp['score_sign']}) differs from the exact order of prio*(num/den)^k ({m['cmp']})"
    if exp["dup"]:
        return "assumption violated: duplicate head uids in the input of _resolve_action_conflicts"
    if m["advancing"] != exp["adv"]:
        return f"advancing heads differ: impl {exp['adv']} model {m['advancing']}"
    if [x[0] for x in m["generated"]] != exp["gen"]:
        return f"generated events differ: impl heads {exp['gen']} model {[x[0] for x in m['generated']]}"
    if m["aborted"] != exp["ab"]:
        return f"aborted flows differ: impl {exp['ab']} model {m['aborted']}"
    # a head forwarded to a label whose index equals its position is not observable: moved heads must be caught heads
    if not set(exp["moved"]) <= set(m["caught"]):
        return f"re-positioned heads differ: impl {exp['moved']} model {m['caught']}"
    if m["tie_sizes"] != exp["ties"]:
        return f"random.choice candidate counts differ: impl {exp['ties']} model {m['tie_sizes']}"
    if exp["tbl"] is not None and sorted(m["tbl"]) != exp["tbl"]:
        return f"state.actions differ after the call: impl {exp['tbl']} model {sorted(m['tbl'])}"
    return None


def compare(case, obs, mouts):
    for k, ((req, exp), m) in enumerate(zip(obs["_model"], mouts)):
        d = compare_one(exp, m)
        if d:
            return f"recorded call #{k}: {d}; request {json.dumps(req)}"
    return None


# ----------------------------------------------------------------------------- oracle (property statement)

def _pad(v, n):
    return list(v) + [1.0] * (n - len(v))


def _close(a, b):
    return abs(a - b) <= 1e-9 * max(1.0, abs(a), abs(b))


def _vec_ge(a, b):
    """a >= b, left to right, missing entries count as perfect matches; ties within float tolerance."""
    n = max(len(a), len(b))
    for x, y in zip(_pad(a, n), _pad(b, n)):
        if _close(x, y):
            continue
        return x > y
    return True


def oracle_call(call):
    """Function-level reading of the property on one observed call (no model involved)."""
    if "exc" in call:
        return "conflict resolution raised " + call["exc"]
    heads = call["heads"]
    if len(heads) < 1:
        return None
    by_loop = {}
    for h in heads:
        by_loop.setdefault(h["loop"], []).append(h)
    gen = call["gen"]
    adv = call["advancing"]
    ab = [a["flow"] for a in call["aborts"]]
    if len(set(adv)) != len(adv):
        return "a head advances twice"
    for loop, hs in by_loop.items():
        g = [u for u in gen if u in {h["uid"] for h in hs}]
        if len(g) != 1:
            return f"loop {loop}: {len(g)} action events generated for {len(hs)} competing heads (expected exactly 1)"
        w = next(h for h in hs if h["uid"] == g[0])
        for h in hs:
            if not _vec_ge(w["scores"], h["scores"]):
                return f"loop {loop}: winner scores {w['scores']} are not maximal (competitor {h['scores']})"
            same = (h["ev"]["name"], h["ev"]["args"]) == (w["ev"]["name"], w["ev"]["args"])
            if same and h["ev"]["act"] and w["ev"]["act"] and h["ev"]["act"] != w["ev"]["act"] and not w.get("start"):
                same = False  # an event of ANOTHER action instance is only "the identical action" when it starts it
            if h["uid"] == w["uid"] or same:
                if h["uid"] not in adv:
                    return f"loop {loop}: head with the winning event does not advance"
                if h["uid"] != w["uid"] and h["flow"] in ab and not any(o["flow"] == h["flow"] and o["uid"] not in adv for o in hs):
                    return f"loop {loop}: a co-winner's flow is aborted"
            elif h["catch"]:
                if h["uid"] not in adv or h["flow"] in ab and not any(o["flow"] == h["flow"] and o["uid"] != h["uid"] for o in heads):
                    return f"loop {loop}: loser with a catch label was not forwarded"
            else:
                if h["uid"] in adv:
                    return f"loop {loop}: loser {h['scores']} with a different event advances"
                if h["flow"] not in ab:
                    return f"loop {loop}: loser's flow is not aborted"
    return None


def _flow_index(flow_id):
    """index i of the generated flow a competing head belongs to (f<i>, or its started helper h<i>)"""
    if flow_id and flow_id[0] in "fh" and flow_id[1:].isdigit():
        return int(flow_id[1:])
    return None


def spec_vector(case, f):
    """Specificity vector of flow f computed from the patterns (independent of the interpreter)."""
    unmentioned = len(case["payload"]) - len(f["pat"])
    s = 0.9 ** unmentioned
    p = float(f["prio"]) if f["prio"] else 1.0
    if f["shape"] == "await":
        return [s, p]
    if f["shape"] == "helper":
        return [s * p, 1.0]
    return [s * p]


def fits(case, f):
    if f.get("trigger") in ("E2", "F"):
        return False  # waits for another event: the first event must leave it untouched
    return all(k in case["payload"] and case["payload"][k] == v for k, v in f["pat"].items())


def oracle_run(case, run):
    flows = case["flows"]
    step0 = run["steps"][0] if run["steps"] else None
    for k, st in enumerate(run["steps"]):
        if "exc" in st:
            return f"run_to_completion raised on event #{k}: {st['exc']}"
        if st["missing_actions"]:
            return f"after event #{k} flows reference actions that are no longer in state.actions"
    if step0 is None:
        return None
    if len(run["inst"]) != len(flows):
        return None  # a competing flow never got started (generator limit), nothing to judge
    main_loop = None
    loops = {}
    for i, f in enumerate(flows):
        b = run["before"][f"f{i}"]
        loops[i] = b["loop"]
    out = step0["out"]
    starts = [e for e in out if e["type"].startswith("Start") and e["type"].endswith("Action") or e["type"] == "Foo"]
    byloop = {}
    for i, f in enumerate(flows):
        byloop.setdefault(loops[i], []).append(i)
    for loop, idx in byloop.items():
        names = {loop_name(flows[i], i) for i in idx}
        if len(names) != 1:
            return f"flows declared in loops {names} share the runtime loop id {loop}"
        lname = names.pop()
        comp = [i for i in idx if fits(case, flows[i])]
        payloads = []
        for e in starts:
            tag = e.get("script", e.get("x"))
            if isinstance(tag, str) and tag.rsplit("-", 1)[0] == lname:
                payloads.append((e["type"], tag))
        for i in idx:
            if i in comp:
                continue
            b, a = run["before"][f"f{i}"], step0["flows"][f"f{i}"]
            if a is None or (a["status"], a["pos"], a["acts"]) != (b["status"], b["pos"], b["acts"]):
                return f"flow f{i} whose match does not fit the event was touched: {b} -> {a}"
        if not comp:
            if payloads:
                return f"loop {lname}: action started although no flow matched"
            continue
        if len(set(payloads)) != 1:
            return f"loop {lname}: {len(set(payloads))} distinct action events for {len(comp)} competing flows (expected exactly 1): {payloads}"
        if len(payloads) != 1:
            return f"loop {lname}: the winning action was started {len(payloads)} times"
        wtype, wtag = payloads[0]

        def payload_of(i):
            f = flows[i]
            return ("Foo" if f["kind"] == "send" else "StartUtteranceBotAction", f"{lname}-{f['act']}")

        # "chosen arbitrarily among EXACT ties": two competing flows whose specificity differs never reach the tie-break together
        for call in run["calls"][: step0.get("ncalls", 0)]:
            hs = [(h, _flow_index(h["flow_id"])) for h in call["heads"] if h["loop"] == loop]
            for a_, (h1, i1) in enumerate(hs):
                for h2, i2 in hs[a_ + 1:]:
                    if i1 is None or i2 is None or i1 == i2 or i1 not in comp or i2 not in comp or h1["scores"] != h2["scores"]:
                        continue
                    v1, v2 = spec_vector(case, flows[i1]), spec_vector(case, flows[i2])
                    if not (_vec_ge(v1, v2) and _vec_ge(v2, v1)):
                        return (f"loop {lname}: flows f{i1} and f{i2} carry equal score vectors {h1['scores']} (an exact tie, left to the random "
                                f"tie-break) although their specificity differs ({v1} vs {v2})")
        winners = [i for i in comp if payload_of(i) == (wtype, wtag)]
        if not winners:
            return f"loop {lname}: started action {wtag} belongs to no competing flow"
        best = [i for i in comp if all(_vec_ge(spec_vector(case, flows[i]), spec_vector(case, flows[j])) for j in comp)]
        if not any(i in best for i in winners):
            return (f"loop {lname}: winning action {wtag} is not the action of a most specific flow "
                    f"(vectors {[(i, spec_vector(case, flows[i])) for i in comp]})")
        for i in comp:
            a = step0["flows"][f"f{i}"]
            if i in winners:
                if a is None or a["status"] in ("stopped", "stopping"):
                    return f"loop {lname}: flow f{i} with the identical action failed"
                if flows[i]["shape"] == "when" and a["lost"]:
                    return f"loop {lname}: flow f{i} with the identical action was sent to its failure branch"
            elif flows[i]["shape"] == "when":
                if a is None or a["status"] in ("stopped", "stopping") or not a["lost"]:
                    return f"loop {lname}: losing `when` flow f{i} did not take its else branch ({a})"
            else:
                if a is not None and a["status"] not in ("stopped",):
                    return f"loop {lname}: losing flow f{i} did not fail (status {a['status']})"
    return None


def oracle(case, obs):
    return obs.get("_oracle")


def _oracle(case, obs):
    if case["kind"] == "fn":
        if "exc" in obs:
            return "conflict resolution raised " + obs["exc"]
        for call in obs["calls"]:
            r = oracle_call(call)
            if r:
                return r
        return None
    if "skip" in obs:
        return None
    for run in obs["runs"]:
        r = oracle_run(case, run)
        if r:
            return r
        for call in run["calls"]:
            r = oracle_call(call)
            if r:
                return r
    return None


def signature(case, obs, msg):
    return obs.get("_sig")


def _signature(case, obs):
    try:
        calls = all_calls(case, obs)
        # most specific region first (the regions of the repaired findings overlap with the open ones)
        if any(double_delete_region(c) for c in calls):
            return "cowin-double-delete"
        if any(borrowed_action_region(c) for c in calls):
            return "cowin-on-borrowed-action"
        if any(distinct_actions_identical_event(c) for c in calls):
            return "identical-event-of-different-actions"
        if any(shared_action_region(c) for c in calls):
            return "cowin-on-shared-action"
    except Exception:  # noqa
        return None
    return None


def nontrivial(case, obs):
    return bool(obs.get("_nt"))


def _nontrivial(case, obs):
    for c in all_calls(case, obs):
        loops = [h["loop"] for h in c["heads"]]
        if len(loops) != len(set(loops)):
            return True
    return False


def tags(case, obs):
    return obs.get("_tags", [])


def _tags(case, obs):
    t = ["kind:" + case["kind"]]
    if "skip" in obs:
        t.append("skip:" + obs["skip"][:40])
        return t
    calls = all_calls(case, obs)
    t.append(f"calls:{min(len(calls), 9)}")
    if case["kind"] == "prog":
        t.append(f"runs:{min(len(obs['runs']), 12)}")
        if case.get("choices") == "tree":
            t.append("tie-tree-complete" if obs.get("tree_complete") else "tie-tree-truncated")
        t.append(f"flows:{len(case['flows'])}")
        t.append("mode:" + case["mode"])
        for f in case["flows"]:
            t.append("shape:" + f["shape"])
    for c in calls:
        t.append(f"heads:{min(len(c['heads']), 8)}")
        t.append(f"loops:{len({h['loop'] for h in c['heads']})}")
        for n, _ in c["choice"]:
            t.append(f"tie:{n}")
        lens = {len(h["scores"]) for h in c["heads"]}
        if len(lens) > 1:
            t.append("mixed-vector-lengths")
        if c["aborts"]:
            t.append("has-loser")
        if any(h["catch"] for h in c["heads"]):
            t.append("has-catch")
        if len(c.get("advancing", [])) > len(c["gen"]):
            t.append("has-cowinner-or-caught")
        if shared_action_region(c):
            t.append("shared-action-region")
        if distinct_actions_identical_event(c):
            t.append("identical-nonstart-event-of-different-actions")
        if borrowed_action_region(c):
            t.append("borrowed-action-region")
        if double_delete_region(c):
            t.append("double-delete-region")
    return t


def shrink(case):
    if case["kind"] == "fn":
        hs = case["heads"]
        for i in range(len(hs)):
            if len(hs) > 1:
                yield dict(case, heads=hs[:i] + hs[i + 1:])
        for i, h in enumerate(hs):
            if len(h["scores"]) > 0:
                yield dict(case, heads=hs[:i] + [dict(h, scores=h["scores"][:-1])] + hs[i + 1:])
            if h["catch"]:
                yield dict(case, heads=hs[:i] + [dict(h, catch=False)] + hs[i + 1:])
        return
    if "flows" not in case:  # other case kinds have no shrinker
        return
    fl = case["flows"]
    for i in range(len(fl)):
        if len(fl) > 1:
            nf = fl[:i] + fl[i + 1:]
            yield dict(case, flows=nf, followup=any(f["stop_after"] for f in nf))
    for i, f in enumerate(fl):
        for k, v in (("shape", "direct"), ("prio", None), ("loop", None), ("ref", False), ("stop_after", False)):
            if f[k] != v and not (k == "ref" and f["stop_after"]):
                g = dict(f, **{k: v})
                if k == "shape" and f["kind"] == "send":
                    pass
                nf = fl[:i] + [g] + fl[i + 1:]
                yield dict(case, flows=nf, followup=any(x["stop_after"] for x in nf))
    if isinstance(case.get("choices"), list) and len(case["choices"]) > 1:
        for c in case["choices"]:
            yield dict(case, choices=[c])
    if case["mode"] != "start":
        yield dict(case, mode="start")
