"""C05 — competing flows: exactly one most-specific action wins per interaction loop.

Tie (record/replay): generated Colang 2.x programs are run through the REAL interpreter with
`statemachine._resolve_action_conflicts`, `_abort_flow`, `_generate_action_event_from_actionable_element` and
`random.choice` wrapped by recorders; every recorded call (input heads, choices) is replayed on the Lean model
`Conflict.resolveFates` and the outcomes are compared.  A second stream ("fn") calls the real function on synthetic
heads (stub State) to reach score vectors the programs cannot produce.
Oracle: written from the property statement on `state.outgoing_events` and the flow statuses (prog cases) and on the
recorded effects (fn cases); it does not use the model.
"""
import contextlib
import io
import json
import types

PROPERTY = "C05"
CASE_TIMEOUT = 300  # s of wall clock per case in pool workers (runner watchdog): a case that spins forever is a verdict, not exit 2
THEOREM_MODULE = "NemoVerif.Theorems.C05"
RULE = ("prog: 2..6 flows, each waits for `match E(<subset of the payload, occasionally not fitting>)` directly, through an awaited helper "
        "flow (vector [s, priority]), through a started helper flow (vector [s, 1.0]) or inside `when` (catch label), then starts an action / sends "
        "an event from a per-loop pool with deliberate duplicates; optional `priority`, `@loop`, `start`/`activate`, follow-up Stop on shared "
        "action references; each program is run under several tie-break choice sequences (thorough: all sequences when <= 4 heads tie). "
        "fn: 1..7 synthetic heads over <= 3 loops with score vectors of length 0..3 from a colliding value pool, shared flows, catch labels, "
        "duplicate events, Start and Stop events of the heads' actions. 5% of the programs: flows of one loop that start actions on different events "
        "and stop them on the same event (identical non-Start events of different action instances). score: two match statements (0..8 mentioned "
        "parameters, priority pool) against one event through the real _compute_event_comparison_score, float order vs the exact order of "
        "prio*(num/den)^k (Lean mcmp). non-trivial = some recorded call has >= 2 heads in one loop, or a score pair that differs in k or priority; "
        "distinct = distinct case JSON. Phase 4: 10% low-priority programs (priority 0.05..0.3, 4..10 event parameters, neighbouring specificity levels); "
        "shape `borrow` (the flow sends the Start event of an action it holds by reference only); `@loop(\"NEW\")` programs; two keyword arguments written "
        "in either order; 4% restart programs (sharers of one action send its Start event again against a fresh instance). Phase 5: 25% path programs "
        "(g_prog_paths; 25% of the `direct` flows of g_prog get a path too): the flow waits with a plain match, an or-group (other event / second pattern, fitting or not), an and-group "
        "(equally specific patterns), `when E / or when X`, `await u or v`, `await u and v`; between the match and the action 0..2 of: assignment, send of an internal event "
        "(UserIntentLog, StopFlow of no flow), start of a helper flow, await of a flow that ends at once; the action is wrapped in 0..3 flows (say<d> / emit<d>); 25% of them are triggered "
        "by an action event (UtteranceUserAction.Finished) instead of E; 20% of the declared priorities override an earlier priority statement; 30% are ROUNDS programs: the flows end after "
        "their action and are activated (or loop in `while True`), and 1..2 further events with the same keys and re-drawn values follow — every round is judged. For every run_to_completion call "
        "of a program the skeleton of the main loop is recorded and replayed on the Lean loop model (C05.round). Phase 6: 14% internal-trigger programs (g_prog_internal): the "
        "competing flows are observers / interceptors of an INTERNAL event — `match StartFlow(flow_id=\"tgt\")`, `match StartFlow(<parameters>)` (start of any flow), "
        "`match FlowStarted/FlowFinished/FlowFailed(flow_id=\"tgt\", <parameters>)`, `match tgt(<all parameters>).Started()/.Finished()/.Failed()`, `match $ref.Finished()/.Failed()`, "
        "`match UnhandledEvent(event=\"E\", <parameters>)` — set off by the external event (trigger flow starts tgt / tgt waits for E and ends or aborts / nobody handles E), with declared "
        "priorities and specificities of their own, all shapes / wait constructs / pre statements / wrappers of the path programs, 30% of the trigger-flow programs with ROUNDS (a new tgt "
        "instance per round). In every program run every positive score computed under a flow priority is re-computed without it (score = priority x unscaled score), tagged "
        "`score:<branch>:prio-declared|prio-default` with the branch names enumerated from the source (harness/translate/c05.py). bscore: 2 000 / 30 000 (event, reference event) pairs built per "
        "branch (flow-id start, any-flow start, internal, external, action event) scored with and without a priority by the real function, against Lean eventScore / scoreBranch / scaleBy (C05.bscore).")
TRUSTED_BASE = [
    "record/replay harness harness/props/C05.py (recorders around _resolve_action_conflicts/_abort_flow/random.choice, rank mapping of floats, "
    "event keys = canonical JSON of name+arguments; phase 5: recorders around _advance_head_front / _process_internal_events_without_default_matchers that classify the "
    "calls of the main loop as event / merge pass / advance and count the pushed internal events) + Lean driver Drive/C05.lean",
    "translator harness/translate/c05.py (branch chain of _compute_event_comparison_score by AST path: StartFlow test with the flow_id split, InternalEvents.ALL test, else; "
    "every exit other than the final `return match_score` returns a non-positive constant; the last step is `if priority: match_score *= priority`)",
    "CPython: `sorted` is stable also with reverse=True, list comparison is lexicographic, dict iteration is insertion ordered; float comparison "
    "(the model sees ranks of the floats that occur in a call, an order isomorphism)",
]
ASSUMPTIONS = [
    "round model (ConflictRound): `_advance_head_front(state, [])` pushes no internal event (hypothesis hnil of round_drains_before_resolve; the recorded push count of every merge pass "
    "is part of the replayed script, so a violation shows as a queue length > 0 at a resolution); what processing an event / advancing heads returns is a parameter (World), observed per run",
    "head uids handed to _resolve_action_conflicts are pairwise distinct (checked on every recorded call)",
    "the look-ups of the co-winner branch (action_uids.index, del state.actions[uid]) succeed when the competing flow owns its action and the uid is still "
    "in state.actions (theorem cowin_lookups_succeed; modelled as-is by cowinStepAsIs); where they do not: findings cowin-on-borrowed-action, cowin-double-delete",
    "modelled by hand: _resolve_action_conflicts (with the repairs of fixes/C05-shared-action-cowin.diff, fixes/C05-identical-event-of-different-actions.diff — both applied — and the proposed fixes/C05-cowin-on-borrowed-action.diff, fixes/C05-cowin-double-delete.diff); get_event_from_element, _abort_flow, "
    "_advance_head_front are observed, not modelled",
]
EXHAUSTIVE = {"quick": False, "thorough": False}

KEYS = ["a", "b", "c", "d"]
LOW_KEYS = ["a", "b", "c", "d", "e", "g", "h", "i", "j", "k"]
LOOPS = [None, "L1", "L2"]
LOW_PRIOS = ["0.1", "0.1", "0.1", "0.2", "0.05", "0.15", "0.3"]
PRIOS = [None, None, None, "0.9", "0.5", "0.81", "1.0"]

# ----------------------------------------------------------------------------- generators


def g_prog(rng):
    npay = rng.choice([1, 2, 2, 3, 3, 4])
    payload = {k: rng.choice([1, 2]) for k in rng.sample(KEYS, npay)}
    n = rng.choice([2, 2, 3, 3, 4, 4, 5, 6])
    nloops = rng.choice([1, 1, 2, 3])
    loops = LOOPS[:nloops]
    poolsize = rng.choice([1, 2, 2, 3])
    flows = []
    for i in range(n):
        keys = rng.sample(list(payload), rng.randrange(0, len(payload) + 1))
        pat = {k: payload[k] for k in keys}
        r = rng.random()
        if r < 0.08:
            pat[rng.choice(KEYS)] = 3  # value not in payload: does not fit
        elif r < 0.12:
            pat["z"] = 1  # parameter the event does not carry
        shape = rng.choice(["direct", "direct", "direct", "await", "helper", "when"])
        if rng.random() < 0.07:
            shape = "borrow"  # the flow sends the Start event of an action it holds by reference but does not own
        kind = "send" if shape not in ("when", "borrow") and rng.random() < 0.2 else "action"
        f = {
            "pat": pat,
            "prio": rng.choice(PRIOS),
            "loop": rng.choice(loops),
            "shape": shape,
            "kind": kind,
            "act": rng.randrange(poolsize),
            "ref": kind == "action" and shape in ("direct", "await") and rng.random() < 0.5,
        }
        f["stop_after"] = f["ref"] and rng.random() < 0.5
        if rng.random() < 0.3:
            f["swap"] = True  # keyword arguments of the action / event written in the other order
        if rng.random() < 0.25:
            add_path(rng, f, payload, False)
            f["stop_after"] = f["ref"] and f["stop_after"]
        flows.append(f)
    if nloops == 1 and rng.random() < 0.08:
        # every flow declares `@loop("NEW")`: each instance gets an interaction loop of its own, nobody competes
        for f in flows:
            f["loop"] = "NEW"
    case = {"kind": "prog", "payload": payload, "flows": flows, "mode": rng.choice(["start", "start", "activate"]),
            "followup": any(f["stop_after"] for f in flows)}
    if rng.random() < 0.35:
        case["args2"] = True  # every action / event of the pool carries a second keyword argument
    if rng.random() < 0.12:
        case["evtype"] = "action"
    return case


WAITS = ["plain", "or", "or", "and", "when", "await_or", "await_and"]
PRES = ["assign", "sendint", "starthelper", "awaitfin", "stopint"]


def add_path(rng, f, payload, heavy):
    """Phase 5: HOW a `direct` flow reaches its action.  `wait` = the construct that waits for the event (plain match, or-group /
    and-group of matches, `when … or when …`, await of an or-/and-group of flows: all groups expand to ForkHead/MergeHeads);
    `pre` = statements between the match and the action (assignment, send of an internal event, start of a helper flow, await of a
    flow that finishes at once); `wrap` = number of wrapper flows around the action (`say2 "x"` -> `await say1 $t` ->
    `await UtteranceBotAction(script=$t)`), i.e. the number of internal StartFlow hops between the match and the actionable head."""
    if f["shape"] != "direct" or f.get("trigger"):
        return f
    kind = rng.choice(WAITS) if heavy or rng.random() < 0.5 else "plain"
    pat = f["pat"]
    fit = all(k in payload and payload[k] == v for k, v in pat.items())
    w = {"kind": kind}
    if kind == "or":
        r = rng.random()
        if r < 0.4:
            w["alt"] = None  # another event that never comes
        else:
            keys = rng.sample(list(payload), rng.randrange(0, len(payload) + 1))
            alt = {k: payload[k] for k in keys}
            if r < 0.55:
                alt[rng.choice(KEYS)] = 3
            w["alt"] = alt
        w["alt_first"] = rng.random() < 0.5
    elif kind in ("and", "await_and"):
        # both components are equally specific (same number of mentioned parameters) and fit / do not fit together
        if fit and len(pat) <= len(payload):
            keys = rng.sample(list(payload), len(pat))
            w["alt"] = {k: payload[k] for k in keys}
        else:
            w["alt"] = dict(pat)
    elif kind == "await_or":
        w["alt_first"] = rng.random() < 0.5
    if kind != "plain":
        f["wait"] = w
    npre = rng.choice([0, 0, 1, 1, 2] if heavy else [0, 0, 0, 1])
    if npre:
        f["pre"] = [rng.choice(PRES) for _ in range(npre)]
    f["wrap"] = rng.choice([0, 1, 1, 2, 3] if heavy else [0, 0, 1, 2])
    if f["kind"] == "send":
        f["wrap"] = min(f["wrap"], 2)
    if f["wrap"] or kind == "when":
        f["ref"] = False
        f["stop_after"] = False
    return f


def g_prog_paths(rng):
    """2..5 flows of (mostly) one loop; every flow reaches its action through a generated path (see add_path), the two sides of a
    competition with path lengths of their own."""
    npay = rng.choice([1, 2, 2, 3, 3, 4])
    payload = {k: rng.choice([1, 2]) for k in rng.sample(KEYS, npay)}
    n = rng.choice([2, 2, 2, 3, 3, 4, 5])
    loops = LOOPS[: rng.choice([1, 1, 1, 2])]
    poolsize = rng.choice([1, 2, 2, 3, 3])
    flows = []
    for i in range(n):
        keys = rng.sample(list(payload), rng.randrange(0, len(payload) + 1))
        pat = {k: payload[k] for k in keys}
        if rng.random() < 0.07:
            pat[rng.choice(KEYS)] = 3
        shape = rng.choice(["direct"] * 7 + ["await", "helper", "when"])
        f = {"pat": pat, "prio": rng.choice(PRIOS), "loop": rng.choice(loops), "shape": shape,
             "kind": "send" if shape == "direct" and rng.random() < 0.15 else "action", "act": rng.randrange(poolsize),
             "ref": False, "stop_after": False}
        flows.append(add_path(rng, f, payload, True))
    case = {"kind": "prog", "payload": payload, "flows": flows, "mode": rng.choice(["start", "start", "activate"]), "followup": False}
    if rng.random() < 0.3:
        case["args2"] = True
    if rng.random() < 0.3:
        make_rounds(rng, case)
    elif rng.random() < 0.25:
        # one flow STOPS a competitor (`send StopFlow(flow_id="f<j>")`) on its way to its action: the target is dead when the
        # conflicts are resolved — it is out of the competition (and its action must not start), whatever its specificity
        cand = [i for i, f in enumerate(flows) if f["shape"] == "direct"]
        if cand and n >= 2:
            i = rng.choice(cand)
            j = rng.choice([x for x in range(n) if x != i])
            pre = list(flows[i].get("pre", []))
            pre.insert(rng.randrange(len(pre) + 1), f"stop:{j}")
            flows[i]["pre"] = pre
    if rng.random() < 0.25:
        case["evtype"] = "action"  # the triggering event is an action event (UtteranceUserActionFinished), matched as `UtteranceUserAction.Finished(...)`
    for f in flows:
        if f["prio"] and rng.random() < 0.2:
            f["prio0"] = rng.choice(["0.3", "0.95", "1.0"])  # an earlier `priority` statement that the declared one overrides
    return case


# Phase 6: the triggering event is an INTERNAL event.  kind -> (how the event is produced, match forms, score branch)
ITRIG_KINDS = ["startflow_id", "startflow_id", "startflow_any", "flowstarted", "flowfinished", "flowfinished", "flowfailed", "unhandled"]


def g_prog_internal(rng, mini=False):
    """Observer / interceptor flows that react to an INTERNAL event: the start of a flow (`match StartFlow(flow_id="tgt")`, or
    `match StartFlow(<parameters>)` for the start of any flow with these parameters), `FlowStarted` / `FlowFinished` / `FlowFailed` of a flow
    (by event name, by `tgt(<all parameters>).Finished()`, or through a flow reference `$r.Finished()`), or `UnhandledEvent(event="E", …)`.
    The external event E only sets the internal one off (flow `trig` starts `tgt`, or `tgt` itself waits for E and ends / aborts, or
    nobody handles E).  The observers differ in declared priority and in the number of parameters of the internal event they mention, and
    reach their actions like the flows of g_prog_paths (groups, pre statements, wrappers, awaited / started helpers, `when`)."""
    npay = rng.choice([1, 2, 2, 3, 3])
    payload = {k: rng.choice([1, 2]) for k in rng.sample(KEYS, npay)}
    kind = rng.choice(ITRIG_KINDS)
    n = rng.choice([2, 2, 2, 3, 3, 4])
    loops = LOOPS[: rng.choice([1, 1, 1, 2])]
    poolsize = rng.choice([2, 2, 3, 3])
    if mini:
        # small programs (2..3 direct observers of one loop, no paths), weighted towards the two StartFlow branches
        kind = rng.choice(["startflow_id"] * 3 + ["startflow_any"] * 6 + ["flowstarted", "flowfinished", "unhandled"])
        n, loops = rng.choice([2, 3, 3]), LOOPS[:1]
    via = "self" if kind == "flowfailed" or (kind == "flowfinished" and rng.random() < 0.6) else "trig"
    flows = []
    for i in range(n):
        keys = rng.sample(list(payload), rng.randrange(0, len(payload) + 1))
        pat = {k: payload[k] for k in keys}
        shape = "direct" if mini else rng.choice(["direct"] * 6 + ["await", "helper", "when"])
        f = {"pat": pat, "prio": rng.choice(PRIOS + ["0.9", "0.5", "0.3"]), "loop": rng.choice(loops), "shape": shape,
             "kind": "send" if shape == "direct" and rng.random() < 0.15 else "action", "act": rng.randrange(poolsize),
             "ref": False, "stop_after": False}
        if not mini and rng.random() < 0.5:
            add_path(rng, f, payload, True)
        form = "bare"
        if kind in ("flowstarted", "flowfinished", "flowfailed"):
            r = rng.random()
            wk = (f.get("wait") or {}).get("kind")
            if r < 0.25:
                form = "ctor"
            elif r < 0.5 and via == "self" and f["shape"] in ("direct", "when") and wk not in ("await_or", "await_and"):
                form = "ref"
        f["iform"] = form
        if form == "ctor" or (kind == "startflow_any" and not f["pat"]):
            # `tgt(<all parameters>).Finished()` names every parameter (an unnamed one is None and does not match); the start of ANY flow
            # is narrowed to flows that have these parameters
            f["pat"] = dict(payload) if form == "ctor" else {next(iter(payload)): payload[next(iter(payload))]}
        w = f.get("wait")
        if w and isinstance(w.get("alt"), dict):
            if form == "ctor":
                w["alt"] = dict(payload)
            elif kind == "startflow_any" and not w["alt"]:
                w["alt"] = dict(f["pat"])
            if w["kind"] in ("and", "await_and"):
                w["alt"] = dict(f["pat"]) if len(w["alt"]) != len(f["pat"]) else w["alt"]
        if rng.random() < 0.08:
            f["pat"] = dict(f["pat"], **{rng.choice(list(payload)): 3})  # does not fit
            if w and w["kind"] in ("and", "await_and"):
                w["alt"] = dict(f["pat"])
        if kind == "startflow_id":
            # a start is matched by flow id only: the pattern is empty, a flow that does not fit watches another flow id
            f["nofit"] = any(v == 3 for v in f["pat"].values())
            f["pat"] = {}
            if w and isinstance(w.get("alt"), dict):
                w["alt"] = {}
        flows.append(f)
    # at least two declared priorities differ in most programs: priority is the only way to rank equally specific observers
    if mini or rng.random() < 0.5:
        flows[0]["prio"], flows[1]["prio"] = rng.sample(["0.9", "0.5", "0.81", "0.3", None], 2)
        if mini and n > 2:
            flows[2]["prio"] = None
        if rng.random() < 0.5:
            flows[1]["pat"], flows[1]["iform"] = dict(flows[0]["pat"]), flows[0]["iform"]
            if flows[1]["iform"] == "ref" and (flows[1]["shape"] not in ("direct", "when") or (flows[1].get("wait") or {}).get("kind") in ("await_or", "await_and")):
                flows[1]["shape"] = "direct"
                flows[1].pop("wait", None)
            w = flows[1].get("wait")
            if w and w["kind"] in ("and", "await_and"):
                w["alt"] = dict(flows[1]["pat"])
    case = {"kind": "prog", "payload": payload, "flows": flows, "mode": rng.choice(["start", "start", "activate"]), "followup": False,
            "itrig": {"kind": kind, "via": via}}
    if any(f["iform"] == "ref" for f in flows):
        case["mode"] = "start"
    if rng.random() < 0.3:
        case["args2"] = True
    if (via == "trig" or kind == "unhandled") and kind != "flowfailed" and rng.random() < (0.15 if mini else 0.3):
        # ROUNDS: the same observers react to the internal event again (a new instance of tgt is started with re-drawn parameter values)
        make_rounds(rng, case)
        for f in flows:
            f["iform"] = "bare" if f["iform"] == "ref" else f["iform"]
    for f in flows:
        if f["prio"] and rng.random() < 0.15:
            f["prio0"] = rng.choice(["0.3", "0.95", "1.0"])
    return case


def make_rounds(rng, case):
    """The SAME flows compete again: activated flows that end after their action (they restart when they finish or fail), and
    1..2 further events E whose payload has other values — the winner of every round follows that round's payload."""
    case["mode"] = "activate"
    case["noend"] = True
    if rng.random() < 0.4:
        # the SAME instance reaches its match statement again: body in `while True` (the losers are out of the later rounds)
        case["loopbody"] = True
        case["mode"] = "start"
    for f in case["flows"]:
        if f["shape"] not in ("direct", "await"):
            f["shape"] = "direct"
        wk = (f.get("wait") or {}).get("kind")
        if wk in ("when", "and"):
            # an and-group keeps the half that matched in an earlier round: its state would span the rounds
            f["wait"] = {"kind": "or", "alt": None, "alt_first": False}
        elif wk == "await_and":
            f["wait"] = {"kind": "await_or", "alt_first": False}
        if f["kind"] == "action":
            f.pop("wrap", None)  # `say<d>` awaits the action: the flow would not end
        f["pre"] = [p for p in f.get("pre", []) if p != "starthelper"]
    payload = case["payload"]
    rounds = []
    for _ in range(rng.choice([1, 1, 2])):
        rounds.append({k: (v if rng.random() < 0.5 else 3 - v) for k, v in payload.items()})
    case["rounds"] = rounds
    return case


def g_prog_prio0(rng):
    """A flow that declares the LOWEST legal priority, `priority 0.0`: every match of the flow is scaled to 0.0 — it does not
    match (docs: "each match in the flow will then be multiplied by the current flow priority"); the others compete as usual."""
    npay = rng.choice([1, 2, 3])
    payload = {k: rng.choice([1, 2]) for k in rng.sample(KEYS, npay)}
    n = rng.choice([2, 2, 3])
    zero = rng.randrange(n)
    flows = []
    for i in range(n):
        keys = rng.sample(list(payload), rng.randrange(0, len(payload) + 1))
        flows.append({"pat": {k: payload[k] for k in keys}, "prio": "0.0" if i == zero else rng.choice([None, "0.5", "0.9"]), "loop": None,
                      "shape": "direct", "kind": "action", "act": i, "ref": False, "stop_after": False})
    return {"kind": "prog", "payload": payload, "flows": flows, "mode": "start", "followup": False}


def g_prog_lowprio(rng):
    """Flows of one loop with a LOW declared priority (0.1 is what the shipped library flows use) on an event with many
    parameters, whose patterns mention neighbouring numbers of them: the scores are small (priority * 0.9^k), neighbouring
    specificity levels are only 10 % of that apart — they must still never tie."""
    npay = rng.choice([4, 5, 6, 7, 8, 9, 10])
    payload = {k: rng.choice([1, 2]) for k in rng.sample(LOW_KEYS, npay)}
    n = rng.choice([2, 2, 2, 3, 4])
    prio = rng.choice(LOW_PRIOS)
    base = rng.randrange(0, npay + 1)
    flows = []
    for i in range(n):
        m = min(npay, max(0, base + rng.choice([0, 1, 1, -1, -1, 2])))
        keys = rng.sample(list(payload), m)
        shape = rng.choice(["direct", "direct", "direct", "await", "helper", "when"])
        flows.append({"pat": {k: payload[k] for k in keys}, "prio": prio if rng.random() < 0.85 else rng.choice(LOW_PRIOS),
                      "loop": None, "shape": shape, "kind": "action", "act": i if rng.random() < 0.85 else rng.randrange(n),
                      "ref": False, "stop_after": False})
    return {"kind": "prog", "payload": payload, "flows": flows, "mode": rng.choice(["start", "start", "activate"]), "followup": False}


def g_prog_stop2(rng):
    """Flows of ONE loop that start (different or equal) actions on different events and later stop them on the same
    event F: `is_equal` ignores action_uid, so the Stop events of two different same-type actions count as identical."""
    payload = {"a": 1}
    n = rng.choice([2, 2, 3])
    flows = []
    for i in range(n):
        flows.append({"pat": {"a": 1} if rng.random() < 0.5 else {}, "prio": rng.choice([None, None, "0.5"]), "loop": None, "shape": "direct",
                      "kind": "action", "act": rng.randrange(2), "ref": True, "stop_after": True,
                      "trigger": "E" if i == 0 else rng.choice(["E", "E2"])})
    return {"kind": "prog", "payload": payload, "flows": flows, "mode": "start", "followup": True}


def g_prog_restart(rng):
    """Flows of ONE loop that co-win on an identical action at E (they share one Action object afterwards) and send its Start
    event AGAIN on F, where a fresh flow starts the identical action as a new instance: when the fresh flow is picked, every
    sharer co-wins with the same (shared) competing action."""
    payload = {"a": 1}
    n = rng.choice([2, 2, 3])
    flows = []
    for i in range(n):
        flows.append({"pat": {"a": 1} if rng.random() < 0.5 else {}, "prio": None, "loop": None, "shape": "direct",
                      "kind": "action", "act": 0 if rng.random() < 0.85 else 1, "ref": True, "stop_after": False, "restart_after": True})
    for _ in range(rng.choice([1, 1, 2])):
        flows.append({"pat": {}, "prio": rng.choice([None, None, "0.5"]), "loop": None, "shape": "direct", "kind": "action",
                      "act": rng.choice([0, 0, 1]), "ref": rng.random() < 0.5, "stop_after": False, "trigger": "F"})
    return {"kind": "prog", "payload": payload, "flows": flows, "mode": "start", "followup": True}


SCORE_POOL = [1.0, 0.9, 0.81, 0.9 * 0.9, 0.729, 0.5, 0.45, 0.9 * 0.5, 0.405, 0.0, 1.0, 0.9]


def g_fn(rng):
    n = rng.choice([1, 2, 2, 3, 3, 4, 4, 5, 6, 7])
    nloops = rng.choice([1, 1, 2, 3])
    nev = rng.choice([1, 2, 2, 3])
    nflows = max(1, n - rng.choice([0, 0, 0, 1]))
    base = [rng.choice(SCORE_POOL) for _ in range(3)]
    heads = []
    for i in range(n):
        ln = rng.choice([0, 1, 1, 1, 2, 2, 3])
        sc = [(base[j] if rng.random() < 0.6 else rng.choice(SCORE_POOL)) for j in range(ln)]
        flow = i if i < nflows else rng.randrange(nflows)
        act = rng.random() < 0.7
        heads.append({"flow": flow, "scores": sc, "ev": rng.randrange(nev), "act": act, "stop": act and rng.random() < 0.25,
                      "nrefs": (rng.choice([1, 1, 1, 0, 2]) if act else 0), "catch": rng.random() < 0.2})
    floop = [rng.randrange(nloops) for _ in range(nflows)]
    for h in heads:
        h["loop"] = floop[h["flow"]]
    return {"kind": "fn", "heads": heads, "choices": [rng.randrange(8) for _ in range(4)]}


SCORE_PRIOS = [None, None, "1.0", "0.9", "0.5", "0.81", "0.25", "0.75", "0.1", "0.3", "0.729", "0.45"]


def g_score(rng):
    """Two match statements against one event: (mentioned parameters, flow priority) each."""
    n = rng.randrange(0, 9)
    side = lambda: {"m": rng.randrange(0, n + 1), "prio": rng.choice(SCORE_PRIOS)}  # noqa
    a, b = side(), side()
    if rng.random() < 0.3:
        b["prio"] = a["prio"]
    return {"kind": "score", "n": n, "a": a, "b": b}


BSCORE_BRANCHES = ["startflow_id", "startflow_any", "internal", "internal", "umim_plain", "umim_action", "umim_action"]
BSCORE_INTERNAL = ["FlowStarted", "FlowFinished", "FlowFailed", "UnhandledEvent", "StopFlow", "FinishFlow", "UserIntentLog"]


def g_bscore(rng):
    """One (event, reference event) pair per case, built for ONE branch of `_compute_event_comparison_score`, scored with a priority
    from the pool and without: differential against Lean `eventScore` (C05.bscore) per branch x {priority declared, not declared}."""
    br = rng.choice(BSCORE_BRANCHES)
    enc = lambda v: {"s": v} if isinstance(v, str) else {"i": v}  # noqa
    params = {k: rng.choice([1, 2]) for k in rng.sample(KEYS, rng.randrange(0, 4))}
    sub = {k: (v if rng.random() < 0.9 else 3) for k, v in params.items() if rng.random() < 0.5}
    if rng.random() < 0.05:
        sub["z"] = 1
    prio = None if rng.random() < 0.35 else rng.choice(SCORE_PRIOS[3:])
    case = {"kind": "bscore", "branch": br, "prio": prio, "start_args": []}
    if br in ("startflow_id", "startflow_any"):
        eargs = dict({"flow_id": "tgt", "flow_instance_uid": "u1", "source_flow_instance_uid": "u0", "source_head_uid": "h0", "flow_hierarchy_position": "0.1"}, **params)
        rargs = dict(sub)
        if br == "startflow_id":
            rargs = dict({"flow_id": "tgt" if rng.random() < 0.8 else "other"}, **(sub if rng.random() < 0.4 else {}))
        elif rng.random() < 0.3:
            rargs["flow_instance_uid"] = "u1"
        case["ev"] = {"kind": "internal", "name": "StartFlow", "args": [[k, enc(v)] for k, v in eargs.items()]}
        case["ref"] = {"kind": "internal", "name": "StartFlow", "args": [[k, enc(v)] for k, v in rargs.items()]}
    elif br == "internal":
        name = rng.choice(BSCORE_INTERNAL)
        rname = name if rng.random() < 0.85 else rng.choice(BSCORE_INTERNAL)
        eargs = dict({"flow_id": "tgt", "flow_instance_uid": "u1", "source_flow_instance_uid": "u1"}, **params)
        if name == "UnhandledEvent":
            eargs = dict({"event": "E", "loop_ids": "L"}, **params)
        rargs = dict(sub)
        r = rng.random()
        if name == "UnhandledEvent":
            if r < 0.8:
                rargs["event"] = "E"
        else:
            if r < 0.7:
                rargs["flow_id"] = "tgt" if rng.random() < 0.9 else "other"
            if rng.random() < 0.3:
                rargs["flow_instance_uid"] = "u1" if rng.random() < 0.8 else "u2"
        case["ev"] = {"kind": "internal", "name": name, "args": [[k, enc(v)] for k, v in eargs.items()]}
        case["ref"] = {"kind": "internal", "name": rname, "args": [[k, enc(v)] for k, v in rargs.items()]}
        if name != "UnhandledEvent" and rng.random() < 0.3:
            case["ref"]["flow_uid"] = "u1" if rng.random() < 0.8 else "u2"
    elif br == "umim_plain":
        case["ev"] = {"kind": "plain", "name": "E", "args": [[k, enc(v)] for k, v in params.items()]}
        case["ref"] = {"kind": "plain", "name": "E" if rng.random() < 0.9 else "E2", "args": [[k, enc(v)] for k, v in sub.items()]}
    else:
        eargs = dict({"final_script": "hi"}, **params)
        rargs = dict(sub)
        if rng.random() < 0.3:
            rargs["final_script"] = "hi"
        case["ev"] = {"kind": "action", "name": "UtteranceBotActionFinished", "args": [[k, enc(v)] for k, v in eargs.items()], "action_uid": "a1"}
        case["ref"] = {"kind": "action", "name": "UtteranceBotActionFinished", "args": [[k, enc(v)] for k, v in rargs.items()]}
        r = rng.random()
        if r < 0.5:
            case["ref"]["action_uid"] = "a1" if r < 0.4 else "a2"
        if rng.random() < 0.6:
            sa = {"script": "hi", "n": 1}
            case["start_args"] = [["a1", [[k, enc(v)] for k, v in sa.items()]]]
            if rng.random() < 0.5:
                case["ref"]["args"].append(["action_arguments", {"d": [[k, enc(v)] for k, v in sa.items() if rng.random() < 0.6]}])
    return case


def gen_cases(rng, tier):
    n_prog, n_fn = (400, 6000) if tier == "quick" else (10000, 150000)
    cases = []
    for _ in range(n_prog):
        r = rng.random()
        c = g_prog_prio0(rng) if r < 0.015 else g_prog(rng) if r < 0.43 else g_prog_internal(rng) if r < 0.57 else (g_prog_paths(rng) if r < 0.82 else (g_prog_lowprio(rng) if r < 0.92 else (g_prog_stop2(rng) if r < 0.96 else g_prog_restart(rng))))
        if tier == "quick":
            c["choices"] = [[rng.randrange(6) for _ in range(6)] for _ in range(3)]
        else:
            c["light"] = True
            c["choices"] = "tree"  # systematic exploration of the tie-break tree (exhaustive when <= 4 heads tie)
            c["extra_choices"] = [[rng.randrange(6) for _ in range(6)] for _ in range(2)]
        cases.append(c)
    for _ in range(200 if tier == "quick" else 4000):
        # small internal-trigger programs: the two StartFlow branches x {priority declared, not declared} in numbers
        c = g_prog_internal(rng, mini=True)
        c["choices"] = [[rng.randrange(6) for _ in range(6)] for _ in range(2)]
        cases.append(c)
    for _ in range(n_fn):
        cases.append(g_fn(rng))
    for _ in range(2000 if tier == "quick" else 40000):
        cases.append(g_score(rng))
    for _ in range(2000 if tier == "quick" else 30000):
        cases.append(g_bscore(rng))
    return cases


def escalate(rng, focus, tier):
    """search set used when only the proof / correspondence broke: programs (all generators), three choice sequences each"""
    cases = []
    for k in range(6000):
        r = rng.random()
        c = g_prog_paths(rng) if r < 0.35 else g_prog_internal(rng) if r < 0.6 else (g_prog(rng) if r < 0.85 else (g_prog_lowprio(rng) if r < 0.95 else g_prog_restart(rng)))
        c["choices"] = [[rng.randrange(6) for _ in range(6)] for _ in range(3)]
        cases.append(c)
    return cases


# ----------------------------------------------------------------------------- program rendering

def loop_name(f, i):
    """the loop tag that is part of the action payload: declared loop, `M` (main), or one per flow for `@loop("NEW")`"""
    if f["loop"] == "NEW":
        return f"N{i}"
    return f["loop"] or "M"


def action_args(f, tag, key, second=False):
    args = [f'{key}="{tag}"'] + (["n=1"] if second else [])
    if f.get("swap"):
        args.reverse()
    return ", ".join(args)


def action_stmt(f, i, loopname, second=False):
    tag = f"{loopname}-{f['act']}"
    if f["kind"] == "send":
        return f'send Foo({action_args(f, tag, "x", second)})'
    return f'start UtteranceBotAction({action_args(f, tag, "script", second)})' + (" as $r" if f["ref"] else "")


def _pat_str(pat):
    return ", ".join(f"{k}={v}" for k, v in pat.items())


def wrappers(case):
    """The wrapper flows a program uses: say<d> / emit<d> (d = nesting depth); deeper wrappers do something before they delegate."""
    a2 = ", n=1" if case.get("args2") else ""
    out = []
    for kind, base, inner in (("action", "say", "await UtteranceBotAction(script=$t" + a2 + ")"), ("send", "emit", "send Foo(x=$t" + a2 + ")")):
        depth = max([f.get("wrap", 0) for f in case["flows"] if f["kind"] == kind] + [0])
        for d in range(1, depth + 1):
            if d == 1:
                out.append(f"flow {base}1 $t\n  {inner}\n")
            elif d == 2:
                out.append(f"flow {base}2 $t\n  $q = 1\n  await {base}1 $t\n")
            else:
                out.append(f"flow {base}{d} $t\n  {base}{d - 1} $t\n")
    return out


def path_lines(f, i, loopname, a2, out):
    """statements between the wait construct and the end of the flow: `pre` statements, then the (wrapped) action"""
    lines = []
    for k, p in enumerate(f.get("pre", [])):
        if p == "assign":
            lines.append(f"$x{k} = {k}")
        elif p == "sendint":
            lines.append(f'send UserIntentLog(flow_id="f{i}", intent="i{k}")')
        elif p.startswith("stop:"):
            lines.append(f'send StopFlow(flow_id="f{p[5:]}")')
        elif p == "stopint":
            lines.append(f'send StopFlow(flow_id="nosuchflow{k}")')
        elif p == "starthelper":
            out.append(f"flow noop{i}x{k}\n  match Never()\n")
            lines.append(f"start noop{i}x{k}")
        elif p == "awaitfin":
            out.append(f"flow qfin{i}x{k}\n  $d = 1\n")
            lines.append(f"await qfin{i}x{k}")
    d = f.get("wrap", 0)
    if d:
        tag = f"{loopname}-{f['act']}"
        lines.append(f'{"emit" if f["kind"] == "send" else "say"}{d} "{tag}"')
    else:
        lines.append(action_stmt(f, i, loopname, a2))
    return lines


def wait_and_act(f, i, pat, loopname, a2, out):
    """the body of a `direct` flow from its wait construct to its action (phase 5: groups, `when … or when`, awaits of groups)"""
    w = f.get("wait") or {"kind": "plain"}
    act = ["  " + x for x in path_lines(f, i, loopname, a2, out)]
    k = w["kind"]
    if k == "plain":
        return [f"  match E({pat})"] + act
    if k == "or":
        alts = [f"E({pat})", "X()" if w.get("alt") is None else f"E({_pat_str(w['alt'])})"]
        if w.get("alt_first"):
            alts.reverse()
        return ["  match " + " or ".join(alts)] + act
    if k == "and":
        return [f"  match E({pat}) and E({_pat_str(w['alt'])})"] + act
    if k == "when":
        return [f"  when E({pat})"] + ["  " + x for x in act] + ["    match Never()", "  or when X()", "    match Never()"]
    if k == "await_or":
        out.append(f"flow u{i}\n  match E({pat})\n")
        out.append(f"flow v{i}\n  match Never()\n")
        alts = [f"u{i}", f"v{i}"]
        if w.get("alt_first"):
            alts.reverse()
        return ["  await " + " or ".join(alts)] + act
    if k == "await_and":
        out.append(f"flow u{i}\n  match E({pat})\n")
        out.append(f"flow v{i}\n  match E({_pat_str(w['alt'])})\n")
        return [f"  await u{i} and v{i}"] + act
    raise ValueError(k)


def _parse_pat(argstr):
    return {kv.split("=")[0].strip(): int(kv.split("=")[1]) for kv in argstr.split(",") if kv.strip()}


def int_match_expr(case, f, argstr):
    """the match expression on the INTERNAL triggering event that stands for `E(<argstr>)` in flow f (phase 6)"""
    kind = case["itrig"]["kind"]
    args = argstr.strip()
    sep = ", " if args else ""
    if kind == "startflow_id":
        # the other parameters take no part in a match on a flow id
        return 'StartFlow(flow_id="nosuchflow")' if f.get("nofit") else 'StartFlow(flow_id="tgt")'
    if kind == "startflow_any":
        return f"StartFlow({args})"
    if kind == "unhandled":
        return f'UnhandledEvent(event="E"{sep}{args})'
    member = {"flowstarted": "Started", "flowfinished": "Finished", "flowfailed": "Failed"}[kind]
    form = f.get("iform", "bare")
    if form == "ctor":
        return f"tgt({args}).{member}()"
    if form == "ref":
        return f"$r.{member}({args})"
    return f'Flow{member}(flow_id="tgt"{sep}{args})'


def trigger_flows(case):
    """flows that turn the external event E into the internal triggering event, and the lines of `main` that start them"""
    it = case["itrig"]
    if it["kind"] == "unhandled":
        return [], [], []
    pay = case["payload"]
    params = "".join(f" ${k}" for k in pay)
    call = "tgt(" + ", ".join(f"{k}={v}" for k, v in pay.items()) + ")"
    if it["via"] == "self":
        body = "  match E()\n" + ("  abort\n" if it["kind"] == "flowfailed" else "")
        return [f"flow tgt{params}\n{body}"], [f"  start {call} as $t\n"], []
    body = "  $d = 1\n" if it["kind"] == "flowfinished" else "  match Never()\n"
    if case.get("rounds"):
        # one trigger flow per round: event E(rd=k) starts a new instance of tgt with the parameter values of round k
        trigs, starts = [], []
        for k, pl in enumerate([pay] + list(case["rounds"])):
            callk = "tgt(" + ", ".join(f"{a}={v}" for a, v in pl.items()) + ")"
            trigs.append(f"flow trig{k}\n  match E(rd={k})\n  start {callk}\n  match Never()\n")
            starts.append(f"  start trig{k}\n")
        return [f"flow tgt{params}\n{body}"] + trigs, [], starts
    return [f"flow tgt{params}\n{body}", f"flow trig\n  match E()\n  start {call}\n  match Never()\n"], [], ["  start trig\n"]


def render(case):
    import re

    out = wrappers(case)
    a2 = bool(case.get("args2"))
    for i, f in enumerate(case["flows"]):
        loopname = loop_name(f, i)
        out_start = len(out)
        deco = f'@loop("{f["loop"]}")\n' if f["loop"] else ""
        pat = ", ".join(f"{k}={v}" for k, v in f["pat"].items())
        prio = [f"  priority {f['prio']}"] if f["prio"] else []
        if f["prio"] and f.get("prio0"):
            prio.insert(0, f"  priority {f['prio0']}")
        body = []
        head = f"flow f{i}"
        if f["shape"] == "await":
            out.append(f"flow u{i}\n  match E({pat})\n")
            body += prio + [f"  await u{i}", "  " + action_stmt(f, i, loopname, a2)]
        elif f["shape"] == "helper":
            out.append(f"flow h{i}\n  {action_stmt(f, i, loopname, a2)}\n  match Never()\n")
            body += prio + [f"  match E({pat})", f"  start h{i}"]
        elif f["shape"] == "when":
            body += prio + [f"  match E({pat})", f'  when UtteranceBotAction({action_args(f, loopname + "-" + str(f["act"]), "script", a2)})',
                            "    match Never()", "  else", "    $lost = True", "    match Never()"]
        elif f["shape"] == "borrow":
            # the owner o<i> starts the action (before the event) and hands the reference to f<i>, which starts it again on E
            out.append(deco + f"flow o{i}\n  {action_stmt(f, i, loopname, a2)} as $r\n  start f{i}($r)\n  match Never()\n")
            head = f"flow f{i} $r"
            body += prio + [f"  match E({pat})", "  send $r.Start()"]
        elif f.get("trigger") in ("E2", "F"):
            trig = f"E2({pat})" if f.get("trigger") == "E2" else "F()"
            body += prio + [f"  match {trig}", "  " + action_stmt(f, i, loopname, a2)]
        else:
            body += prio + wait_and_act(f, i, pat, loopname, a2, out)
        if f.get("stop_after"):
            body += ["  match F()", "  send $r.Stop()"]
        if f.get("restart_after"):
            body += ["  match F()", "  send $r.Start()"]
        if not case.get("noend"):
            body.append("  match Never()")
        if case.get("loopbody") and f["shape"] in ("direct", "await"):
            body = body[: len(prio)] + ["  while True"] + ["  " + x for x in body[len(prio):]]
        if case.get("itrig") and f.get("iform") == "ref":
            head += " $r"
        out.append(deco + head + "\n" + "\n".join(body) + "\n")
        if case.get("itrig"):
            for j in range(out_start, len(out)):
                out[j] = re.sub(r"(?<![A-Za-z0-9_.])E\(([^()]*)\)", lambda m, f=f: int_match_expr(case, f, m.group(1)), out[j])
    kw = "activate" if case["mode"] == "activate" else "start"
    top = lambda i, f: ("o" if f["shape"] == "borrow" else "f") + str(i) + ("($t)" if case.get("itrig") and f.get("iform") == "ref" else "")  # noqa
    tflows, pre_main, post_main = trigger_flows(case) if case.get("itrig") else ([], [], [])
    out += tflows
    out.append("flow main\n" + "".join(pre_main) + "".join(f"  {kw} {top(i, f)}\n" for i, f in enumerate(case["flows"])) + "".join(post_main) + "  match Never()\n")
    src = "\n".join(out)
    if case.get("evtype") == "action":
        src = re.sub(r"(?<![A-Za-z0-9_.])E\(", "UtteranceUserAction.Finished(", src)
    return src


# ----------------------------------------------------------------------------- implementation (recorders)

_SM = None


def worker_init():
    global _SM
    from nemoguardrails.colang.v2_x.runtime import statemachine as sm

    _SM = sm


class Recorder:
    """Wraps the conflict-resolution entry points of `statemachine` for one run."""

    def __init__(self, sm, choices, event_of=None):
        self.sm = sm
        self.choices = list(choices)
        self.ci = 0
        self.calls = []
        self.cur = None
        self.depth = 0
        self.event_of = event_of
        self.all_counts = []
        self.saved = {}
        # skeleton of the main loop of run_to_completion (phase 5): one entry per popped internal event / merge pass /
        # resolution / advance of the winners, with the number of internal events pushed and the heads returned
        self.skel = None
        self.sk_heads = {}
        self.sk_pending = None
        self.ahf_depth = 0
        # phase 6: every positive score computed under a flow priority, by branch of the score computation
        self.score_tags = set()
        self.score_viol = []

    def __enter__(self):
        sm = self.sm
        for name in ("_resolve_action_conflicts", "_abort_flow", "_generate_action_event_from_actionable_element",
                     "_advance_head_front", "_process_internal_events_without_default_matchers", "_compute_event_comparison_score"):
            self.saved[name] = getattr(sm, name)
        self.saved_choice = sm.random.choice
        orig_ahf, orig_proc = self.saved["_advance_head_front"], self.saved["_process_internal_events_without_default_matchers"]
        orig_resolve, orig_abort, orig_gen = (self.saved[n] for n in ("_resolve_action_conflicts", "_abort_flow", "_generate_action_event_from_actionable_element"))
        rec = self

        orig_cscore = self.saved["_compute_event_comparison_score"]

        def cscore(state, event, ref_event, priority=None):
            r = orig_cscore(state, event, ref_event, priority)
            if priority is None or not isinstance(r, float) or r <= 0.0:
                return r
            # "scaled by a declared flow priority", for EVERY kind of triggering event: the score under priority p is p × the
            # score of the same match without a priority (p = 1.0 when the flow declared none; 0.0: finding priority-zero-unscaled)
            br = score_branch(sm, event, ref_event)
            rec.score_tags.add(f"score:{br}:" + ("prio-declared" if priority != 1.0 else "prio-default"))
            if priority:
                try:
                    r0 = orig_cscore(state, event, ref_event, None)
                except Exception:  # noqa
                    return r
                if abs(r - r0 * priority) > 1e-12 and len(rec.score_viol) < 3:
                    rec.score_viol.append({"branch": br, "event": event.name, "ref": ref_event.name, "ref_args": sorted(map(str, ref_event.arguments)),
                                           "prio": priority, "score": r, "unscaled": r0})
            return r

        def proc(state, event):
            if rec.skel is not None and rec.ahf_depth == 0:
                rec.sk_pending = len(state.internal_events)  # the event was just popped
            return orig_proc(state, event)

        def ahf(state, heads):
            if rec.skel is None or rec.ahf_depth > 0 or rec.depth > 0 or rec.cur is not None:
                rec.ahf_depth += 1
                try:
                    return orig_ahf(state, heads)
                finally:
                    rec.ahf_depth -= 1
            heads = list(heads)
            kind = "ev" if rec.sk_pending is not None else ("adv" if rec.skel and rec.skel[-1][0] == "res" else "merge")
            q0 = rec.sk_pending if kind == "ev" else len(state.internal_events)
            rec.sk_pending = None
            mset = []
            if kind == "merge":
                # status read from the head OBJECTS the loop has been handed so far (a head of an aborted flow is no longer in
                # flow_state.heads but may still be MERGING in the loop's list)
                mset = [u for u, h in rec.sk_heads.items() if h.status == sm.FlowHeadStatus.MERGING]
            rec.ahf_depth += 1
            try:
                out = orig_ahf(state, heads)
            finally:
                rec.ahf_depth -= 1
            npush = len(state.internal_events) - q0
            uids = [h.uid for h in out]
            for h in out:
                rec.sk_heads[h.uid] = h
            if kind == "merge":
                rec.skel.append(["merge", mset, npush, uids, [h.uid for h in heads]])
            else:
                rec.skel.append([kind, npush, uids])
            return out

        def resolve_skel(state, heads):
            if rec.skel is None:
                return orig_resolve_rec(state, heads)
            aset = [u for u, h in rec.sk_heads.items() if h.status == sm.FlowHeadStatus.ACTIVE
                    and h.flow_state_uid in state.flow_states and sm.is_active_flow(state.flow_states[h.flow_state_uid])]
            q0 = len(state.internal_events)
            entry = ["res", aset, 0, [], [h.uid for h in heads], q0]
            rec.skel.append(entry)
            out = orig_resolve_rec(state, heads)
            entry[2] = len(state.internal_events) - q0
            entry[3] = [h.uid for h in out]
            return out

        def resolve(state, heads):
            heads = list(heads)
            if not heads:
                return orig_resolve(state, heads)
            call = {"heads": [], "choice": [], "aborts": [], "gen": []}
            for h in heads:
                fs = state.flow_states[h.flow_state_uid]
                cfg = state.flow_configs[fs.flow_id]
                el = cfg.elements[h.position]
                try:
                    ev = (rec.event_of or sm.get_event_from_element)(state, fs, el)
                    evd = {"cls": type(ev).__name__, "name": ev.name, "args": json.dumps(ev.arguments, sort_keys=True, default=str),
                           "act": getattr(ev, "action_uid", None) or None}
                except Exception as e:  # noqa
                    evd = {"cls": "ERR", "name": type(e).__name__, "args": "", "act": None}
                nrefs = 0
                if evd["act"]:
                    from nemoguardrails.colang.v2_x.runtime.flows import Action

                    nrefs = sum(1 for v in fs.context.values() if isinstance(v, Action) and v.uid == evd["act"])
                root, anc = None, fs
                for _ in range(12):  # nearest generated competitor (f<i> / h<i>) this head acts for: the flow itself or an ancestor
                    if anc is None:
                        break
                    if _flow_index(anc.flow_id) is not None:
                        root = anc.flow_id
                        break
                    anc = state.flow_states.get(getattr(anc, "parent_uid", None))
                call["heads"].append({"uid": h.uid, "flow": h.flow_state_uid, "flow_id": fs.flow_id, "root": root, "loop": fs.loop_id, "scores": list(h.matching_scores),
                                      "ev": evd, "nrefs": nrefs, "catch": bool(h.catch_pattern_failure_label), "pos": h.position,
                                      "start": bool(evd["act"]) and evd["act"] in state.actions and evd["name"] == "Start" + state.actions[evd["act"]].name,
                                      "in_uids": (evd["act"] in fs.action_uids) if evd["act"] else None})
            call["tbl"] = [[u, a.flow_scope_count] for u, a in state.actions.items()]
            rec.cur = call
            try:
                out = orig_resolve(state, heads)
                call["advancing"] = [h.uid for h in out]
            except Exception as e:  # noqa
                call["exc"] = type(e).__name__ + ": " + str(e)[:100]
                rec.cur = None
                rec.calls.append(call)
                raise
            rec.cur = None
            call["pos_after"] = [h.position for h in heads]
            call["tbl_after"] = [[u, a.flow_scope_count] for u, a in state.actions.items()]
            rec.calls.append(call)
            return out

        def abort(state, flow_state, matching_scores, *a, **k):
            if rec.cur is not None and rec.depth == 0:
                rec.cur["aborts"].append({"flow": flow_state.uid, "acts": list(getattr(flow_state, "action_uids", []))})
            rec.depth += 1
            try:
                return orig_abort(state, flow_state, matching_scores, *a, **k)
            finally:
                rec.depth -= 1

        def gen(state, head):
            if rec.cur is not None and rec.depth == 0:
                rec.cur["gen"].append(head.uid)
            return orig_gen(state, head)

        def choice(seq):
            c = rec.choices[rec.ci] if rec.ci < len(rec.choices) else 0
            rec.ci += 1
            rec.all_counts.append(len(seq))
            if rec.cur is not None:
                rec.cur["choice"].append([len(seq), c])
            return seq[c % len(seq)]

        orig_resolve_rec = resolve
        sm._resolve_action_conflicts = resolve_skel
        sm._advance_head_front = ahf
        sm._process_internal_events_without_default_matchers = proc
        sm._abort_flow = abort
        sm._compute_event_comparison_score = cscore
        sm._generate_action_event_from_actionable_element = gen
        sm.random.choice = choice
        return self

    def __exit__(self, *a):
        for name, fn in self.saved.items():
            setattr(self.sm, name, fn)
        self.sm.random.choice = self.saved_choice


KNOWN_SCORE_BRANCHES = ["startflow_id", "startflow_any", "internal", "umim"]


def score_branch(sm, event, ref_event):
    """the branch of `_compute_event_comparison_score` that scores the pair (names as enumerated from the source by
    harness/translate/c05.py::score_branches; Lean twin: MatchBranch.scoreBranch)"""
    ie = sm.InternalEvents
    if event.name == ie.START_FLOW and ref_event.name == ie.START_FLOW:
        return "startflow_id" if "flow_id" in ref_event.arguments else "startflow_any"
    if event.name in ie.ALL and ref_event.name in ie.ALL:
        return "internal"
    return "umim"


def static_tie():
    """the branches of the score computation of the CURRENT source are the ones the generator and the Lean classification know, and
    no exit of the function carries a computed score past the priority scaling"""
    from ..translate import c05 as tr

    info = tr.score_branches()
    problems = list(info["problems"])
    for b in info["branches"]:
        if b not in KNOWN_SCORE_BRANCHES:
            problems.append(f"_compute_event_comparison_score has a branch the generator / model do not cover: {b}")
    for b in KNOWN_SCORE_BRANCHES:
        if b not in info["branches"]:
            problems.append(f"_compute_event_comparison_score no longer has the branch {b}")
    return problems


def _clean_event(e):
    drop = ("uid", "event_created_at", "source_uid", "action_info_modality", "action_info_modality_policy")
    return {k: v for k, v in e.items() if k not in drop}


MAX_TREE_RUNS = 48


def run_prog(case):
    sm = _SM
    from nemoguardrails.colang import parse_colang_file
    from nemoguardrails.colang.v2_x.runtime.flows import InternalEvent, State
    from nemoguardrails.colang.v2_x.runtime.runtime import create_flow_configs_from_flow_list

    src = render(case)
    obs = {"src": src, "runs": []}
    try:
        with contextlib.redirect_stdout(io.StringIO()):
            flows = parse_colang_file(filename="", content=src, include_source_mapping=False, version="2.x")["flows"]
    except Exception as e:  # noqa
        obs["skip"] = "parse:" + type(e).__name__ + ":" + str(e)[:80]
        return obs
    etype = "UtteranceUserActionFinished" if case.get("evtype") == "action" else "E"
    events = [dict({"type": etype}, **case["payload"])]
    if any(f.get("trigger") == "E2" for f in case["flows"]):
        events.append(dict({"type": "E2"}, **case["payload"]))
    if case.get("followup"):
        events += [{"type": "F"}, {"type": "G"}]
    for pl in case.get("rounds", []):
        events.append(dict({"type": etype}, **pl))
    if case.get("itrig") and case.get("rounds") and case["itrig"]["kind"] != "unhandled":
        for k, e in enumerate(events):
            e["rd"] = k  # the round's trigger flow starts tgt with the round's parameter values
    seen_sig = set()
    # "tree": systematic exploration of the tie-break tree — every run reports the candidate count of each random.choice
    # call; for every call beyond the forced prefix with n > 1 candidates the alternatives 1..min(n,4)-1 are scheduled.
    # Each leaf is visited once; exhaustive whenever no tie has more than 4 candidates and the tree has <= MAX_TREE_RUNS leaves.
    tree = case.get("choices") == "tree"
    todo = [[]] if tree else list(case.get("choices") or [[0] * 6])
    if tree:
        todo += [list(c) for c in case.get("extra_choices", [])]
    nruns = 0
    obs["tree_complete"] = tree
    while todo:
        choices = todo.pop(0)
        nruns += 1
        run = {"choices": choices, "steps": [], "calls": []}
        try:
            with contextlib.redirect_stdout(io.StringIO()):
                cfg = create_flow_configs_from_flow_list(flows)
                st = State(flow_states=[], flow_configs=cfg)
                sm.initialize_state(st)
                sm.run_to_completion(st, InternalEvent(name="StartFlow", arguments={"flow_id": "main"}))
        except Exception as e:  # noqa
            obs["skip"] = "init:" + type(e).__name__ + ":" + str(e)[:80]
            return obs
        run["start_out"] = len(st.outgoing_events)
        # the competing instances (first live instance of every f<i>)
        def instances():
            d = {}
            for uid, fs in st.flow_states.items():
                if fs.flow_id.startswith("f") and fs.flow_id[1:].isdigit() and fs.flow_id not in d and fs.status.value in ("started", "starting", "waiting") and fs.heads:
                    d[fs.flow_id] = uid
            return d

        inst = instances()
        run["inst"] = inst

        def snap(inst=inst):
            d = {}
            for fid, uid in inst.items():
                fs = st.flow_states.get(uid)
                if fs is None:
                    d[fid] = None
                    continue
                d[fid] = {"status": fs.status.value, "loop": fs.loop_id, "pos": sorted(h.position for h in fs.heads.values()),
                          "lost": bool(fs.context.get("lost")), "acts": list(fs.action_uids)}
            return d

        run["before"] = snap()
        with Recorder(sm, choices) as rec:
            for k_ev, ev in enumerate(events):
                step = {}
                if case.get("rounds") and k_ev > 0:
                    step["inst"] = instances()
                    step["before"] = snap(step["inst"])
                rec.skel, rec.sk_pending, rec.sk_heads = [], None, {}
                try:
                    with contextlib.redirect_stdout(io.StringIO()):
                        sm.run_to_completion(st, dict(ev))
                    step["out"] = [_clean_event(e) for e in st.outgoing_events]
                    step["skel"] = rec.skel
                except Exception as e:  # noqa
                    step["exc"] = type(e).__name__ + ": " + str(e)[:100]
                rec.skel = None
                step["flows"] = snap(step["inst"]) if "inst" in step else snap()
                step["missing_actions"] = sorted({u for fs in st.flow_states.values() for u in fs.action_uids if u not in st.actions})
                step["ncalls"] = len(rec.calls)
                run["steps"].append(step)
                if "exc" in step:
                    break
            run["calls"] = rec.calls
            run["score_tags"] = sorted(rec.score_tags)
            run["score_viol"] = rec.score_viol
            counts = rec.all_counts
        if tree and nruns <= MAX_TREE_RUNS and (nruns == 1 or len(choices) and choices not in case.get("extra_choices", [])):
            used = [(choices[k] if k < len(choices) else 0) for k in range(len(counts))]
            for k in range(len(choices), len(counts)):
                for alt in range(1, min(counts[k], 4)):
                    if len(todo) + nruns < MAX_TREE_RUNS:
                        todo.append(used[:k] + [alt])
                    else:
                        obs["tree_complete"] = False
                if counts[k] > 4:
                    obs["tree_complete"] = False
        # identical runs (same picks) are kept once
        sig = json.dumps([[c["choice"], c.get("advancing")] for c in run["calls"]] + [[s.get("exc")] for s in run["steps"]])
        if sig in seen_sig:
            continue
        seen_sig.add(sig)
        obs["runs"].append(run)
    return canon_uids(obs)


def canon_uids(obs):
    """Replace uuid strings by small integers in order of first appearance (kept as strings 'u<n>')."""
    s = json.dumps(obs, default=str)
    import re

    table = {}

    def sub(m):
        return table.setdefault(m.group(0), f"u{len(table)}")

    s = re.sub(r"(?:\([A-Za-z0-9_ ]+\))?[0-9a-f]{8}-[0-9a-f]{4}-[0-9a-f]{4}-[0-9a-f]{4}-[0-9a-f]{12}", sub, s)
    return json.loads(s)


def run_fn(case):
    """The real `_resolve_action_conflicts` on synthetic heads (stub State; event extraction, abort and generation stubbed)."""
    sm = _SM
    from nemoguardrails.colang.v2_x.lang.colang_ast import Spec, SpecOp
    from nemoguardrails.colang.v2_x.runtime.flows import Action, ActionEvent, Event, FlowHead

    heads = case["heads"]
    nflows = max(h["flow"] for h in heads) + 1
    flow_states, flow_configs, actions, evmap = {}, {}, {}, {}
    per_flow = {f: [i for i, h in enumerate(heads) if h["flow"] == f] for f in range(nflows)}
    hobjs = []
    for f, idxs in per_flow.items():
        if not idxs:
            continue
        els = []
        ctx = {}
        auids = []
        for pos, i in enumerate(idxs):
            h = heads[i]
            el = SpecOp(op="send", spec=Spec(name=f"Ev{h['ev']}"))
            els.append(el)
            if h["act"]:
                a = Action(f"X{h['ev']}Action", {"k": h["ev"]}, f"F{f}")
                a.uid = f"A{i}"
                a.flow_scope_count = 1
                actions[a.uid] = a
                auids.append(a.uid)
                for r in range(h["nrefs"]):
                    ctx[f"ref_{i}_{r}"] = a
                evmap[id(el)] = ActionEvent(name=("Stop" if h.get("stop") else "Start") + f"X{h['ev']}Action", arguments={"k": h["ev"]}, action_uid=a.uid)
            else:
                evmap[id(el)] = Event(name=f"Ev{h['ev']}", arguments={"k": h["ev"]})
        els.append(SpecOp(op="match", spec=Spec(name="CatchTarget")))
        flow_configs[f"flow{f}"] = types.SimpleNamespace(elements=els, element_labels={"L": len(els) - 1}, id=f"flow{f}", loop_id=f"loop{heads[idxs[0]]['loop']}")
        flow_states[f"F{f}"] = types.SimpleNamespace(uid=f"F{f}", flow_id=f"flow{f}", loop_id=f"loop{heads[idxs[0]]['loop']}", context=ctx, action_uids=auids, scopes={})  # scopes: read by the co-win branch since /repo 2a6b31b
        for pos, i in enumerate(idxs):
            h = heads[i]
            hobjs.append((i, FlowHead(uid=f"H{i}", flow_state_uid=f"F{f}", matching_scores=list(h["scores"]),
                                      catch_pattern_failure_label=(["L"] if h["catch"] else []), _position=pos)))
    hobjs.sort()
    state = types.SimpleNamespace(flow_states=flow_states, flow_configs=flow_configs, actions=actions, outgoing_events=[])
    obs = {}
    saved_abort, saved_gen = sm._abort_flow, sm._generate_action_event_from_actionable_element
    sm._abort_flow = lambda *a, **k: None

    def stub_gen(st, head):
        # what the real generation does to state.actions: a generated Start event sets flow_scope_count = 1
        fs = st.flow_states[head.flow_state_uid]
        e = evmap[id(st.flow_configs[fs.flow_id].elements[head.position])]
        if isinstance(e, ActionEvent) and e.action_uid in st.actions and e.name == "Start" + st.actions[e.action_uid].name:
            st.actions[e.action_uid].flow_scope_count = 1

    sm._generate_action_event_from_actionable_element = stub_gen
    try:
        with Recorder(sm, case["choices"], event_of=lambda st, fs, el: evmap[id(el)]) as rec:
            saved_get = sm.get_event_from_element
            sm.get_event_from_element = lambda st, fs, el: evmap[id(el)]
            try:
                sm._resolve_action_conflicts(state, [h for _, h in hobjs])
            except Exception as e:  # noqa
                obs["exc"] = type(e).__name__ + ": " + str(e)[:100]
            finally:
                sm.get_event_from_element = saved_get
            obs["calls"] = rec.calls
    finally:
        sm._abort_flow, sm._generate_action_event_from_actionable_element = saved_abort, saved_gen
    return obs


def run_score(case):
    """The real `_compute_event_comparison_score` on two reference events; exact (k, priority) beside the floats."""
    sm = _SM
    from fractions import Fraction

    from nemoguardrails.colang.v2_x.runtime.flows import Event

    from ..impl import valjson as vj

    n = case["n"]
    keys = [f"p{i}" for i in range(n)]
    ev = Event(name="E", arguments={k: i for i, k in enumerate(keys)})
    state = types.SimpleNamespace(actions={})
    obs = {}
    for side in ("a", "b"):
        d = case[side]
        ref = Event(name="E", arguments={k: i for i, k in enumerate(keys[: d["m"]])})
        prio = float(d["prio"]) if d["prio"] else None
        try:
            f = float(sm._compute_event_comparison_score(state, ev, ref, prio))
        except Exception as e:  # noqa
            obs["exc"] = type(e).__name__
            return obs
        k = n - d["m"]
        exact = (Fraction(prio) if prio else Fraction(1)) * Fraction(9, 10) ** k
        obs[side] = {"f": f, "k": k, "prio": (list(vj.dyadic(prio)) if prio else None), "exact": [exact.numerator, exact.denominator]}
    return obs


def run_bscore(case):
    """The real `_compute_event_comparison_score` on one pair built for one branch: with the declared priority and without."""
    sm = _SM
    from nemoguardrails.colang.v2_x.runtime.flows import ActionEvent, Event, InternalEvent

    from ..impl import valjson as vj

    def mk(d):
        args = {k: vj.dec(v) for k, v in d["args"]}
        if d["kind"] == "plain":
            return Event(name=d["name"], arguments=args)
        if d["kind"] == "internal":
            e = InternalEvent(name=d["name"], arguments=args)
            if d.get("flow_uid"):
                e.flow = types.SimpleNamespace(uid=d["flow_uid"])
            return e
        return ActionEvent(name=d["name"], arguments=args, action_uid=d.get("action_uid"))

    ev, ref = mk(case["ev"]), mk(case["ref"])
    state = types.SimpleNamespace(actions={u: types.SimpleNamespace(start_event_arguments={k: vj.dec(v) for k, v in sa}) for u, sa in case["start_args"]})
    prio = float(case["prio"]) if case["prio"] else None
    obs = {"branch": score_branch(sm, ev, ref), "prio": (list(vj.dyadic(prio)) if prio else None)}
    try:
        obs["scaled"] = float(sm._compute_event_comparison_score(state, ev, ref, prio))
        obs["unscaled"] = float(sm._compute_event_comparison_score(state, ev, ref, None))
    except Exception as e:  # noqa
        obs["exc"] = type(e).__name__
    return obs


def _evres_float(m, prio):
    """the float a model result stands for (None: the model says the call raises)"""
    if m["res"] == "pos":
        p = 1.0 if m["prio"] is None else float(m["prio"][0]) / float(2 ** m["prio"][1])
        return p * 0.9 ** m["k"]
    return {"zero": 0.0, "mismatch": -1.0}.get(m["res"])


def _bscore_record(case, obs):
    want = case["branch"].split("_")[0] if case["branch"].startswith("umim") else case["branch"]
    orc = None
    if "exc" in obs:
        orc = "matcher raised " + obs["exc"]
    elif obs["unscaled"] > 0.0 and obs["prio"] is not None and abs(obs["scaled"] - obs["unscaled"] * float(case["prio"])) > 1e-12:
        orc = (f"{obs['branch']} branch: the match scores {obs['unscaled']} without a priority and {obs['scaled']} under the declared priority "
               f"{case['prio']}: not priority x specificity")
    elif obs["unscaled"] <= 0.0 and obs["scaled"] != obs["unscaled"]:
        orc = f"{obs['branch']} branch: a pair that does not match ({obs['unscaled']}) scores {obs['scaled']} under priority {case['prio']}"
    elif obs["branch"] != want:
        orc = f"harness: pair built for branch {want} falls into branch {obs['branch']}"
    req = {"m": "C05.bscore", "ev": {k: v for k, v in case["ev"].items() if v is not None}, "ref": {k: v for k, v in case["ref"].items() if v is not None},
           "rx": [], "prio": obs["prio"], "start_args": case["start_args"]}
    obs["_oracle"] = orc
    obs["_model"] = [[req, {"bscore": True, "branch": obs["branch"], "scaled": obs.get("scaled"), "unscaled": obs.get("unscaled")}]]
    obs["_sig"] = None
    obs["_nt"] = "exc" not in obs and obs["unscaled"] > 0.0
    pos = "exc" not in obs and obs["unscaled"] > 0.0
    obs["_tags"] = ["kind:bscore", f"bscore:{case['branch']}:" + ("prio-declared" if case["prio"] and float(case["prio"]) != 1.0 else "prio-none") + ("" if pos else ":no-match")]
    return obs


def _score_near_tie(obs):
    from fractions import Fraction

    xa, xb = Fraction(*obs["a"]["exact"]), Fraction(*obs["b"]["exact"])
    return xa != xb and abs(xa - xb) <= Fraction(1, 10 ** 9) * max(xa, xb)


def run_impl(case):
    if case["kind"] == "bscore":
        return _bscore_record(case, run_bscore(case))
    if case["kind"] == "score":
        obs = run_score(case)
        if "exc" in obs:
            obs.update(_oracle="matcher raised " + obs["exc"], _model=[], _sig=None, _nt=False, _tags=["kind:score", "exc"])
            return obs
        a, b = obs["a"], obs["b"]
        near = _score_near_tie(obs)
        orc = None
        for x in (a, b):
            want = float(x["exact"][0]) / float(x["exact"][1])
            if abs(x["f"] - want) > 1e-9 * max(1.0, want):
                orc = f"score {x['f']} is not priority * 0.9^(unmentioned parameters) = {want}"
        if orc is None and a["prio"] == b["prio"] and a["k"] != b["k"]:
            # "most specific = fewest unmentioned parameters" under equal priority
            if (a["k"] < b["k"]) != (a["f"] > b["f"]):
                orc = f"fewer unmentioned parameters ({a['k']} vs {b['k']}) do not give the larger score ({a['f']} vs {b['f']})"
        obs["_oracle"] = orc
        sign = (a["f"] > b["f"]) - (a["f"] < b["f"])
        obs["_model"] = [[{"m": "C05.mcmp", "a": {"k": a["k"], "prio": a["prio"]}, "b": {"k": b["k"], "prio": b["prio"]}},
                          {"score_sign": sign, "near": near}]]
        obs["_sig"] = None
        obs["_nt"] = a["k"] != b["k"] or a["prio"] != b["prio"]
        obs["_tags"] = ["kind:score", "near-tie-skipped" if near else "order-compared"]
        return obs
    return _run_impl(case)


def _run_impl(case):
    """Everything that is per case (oracle, model requests with the expected answers, tags) is computed here, in the
    worker process; the parent only ships the requests to the Lean driver and compares integers."""
    obs = run_prog(case) if case["kind"] == "prog" else run_fn(case)
    obs["_oracle"] = _oracle(case, obs)
    obs["_model"] = [call_expect(c) for c in all_calls(case, obs) if "exc" not in c]
    obs["_model"] += [round_expect(st["skel"]) for r in obs.get("runs", []) for st in r.get("steps", []) if "skel" in st and "exc" not in st]
    obs["_sig"] = _signature(case, obs)
    obs["_nt"] = _nontrivial(case, obs)
    obs["_tags"] = _tags(case, obs)
    if case.get("light") and obs["_oracle"] is None and "runs" in obs:
        # thorough tier: keep the per-run detail only for failing cases (a replay re-executes the case anyway)
        obs["runs"] = [{"choices": r["choices"], "ncalls": len(r["calls"])} for r in obs["runs"]]
    return obs


# ----------------------------------------------------------------------------- model requests / compare

def all_calls(case, obs):
    if case["kind"] == "prog":
        return [c for r in obs.get("runs", []) for c in r["calls"]]
    return obs.get("calls", [])


def _intern(table, key):
    return table.setdefault(key, len(table))


def call_expect(call):
    """(driver request, expected answer in the request's integer names) for one recorded call."""
    floats = sorted({1.0} | {x for h in call["heads"] for x in h["scores"]})
    rank = {x: i for i, x in enumerate(floats)}
    uid, ev = {}, {}
    for u, _ in call["tbl"]:
        _intern(uid, u)
    heads = []
    for h in call["heads"]:
        heads.append({
            "uid": _intern(uid, "h:" + str(h["uid"])), "flow": _intern(uid, "f:" + str(h["flow"])), "loop": _intern(uid, "l:" + str(h["loop"])),
            "scores": [rank[x] for x in h["scores"]], "ev": _intern(ev, (h["ev"]["name"], h["ev"]["args"])),
            "act": (_intern(uid, h["ev"]["act"]) if h["ev"]["act"] else None), "nrefs": h["nrefs"], "catch": h["catch"], "start": bool(h.get("start")),
            "owns": h.get("in_uids") is not False})
    req = {"m": "C05.resolve", "one": rank[1.0], "heads": heads, "choices": [c for _, c in call["choice"]] or [],
           "tbl": [[_intern(uid, u), n] for u, n in call["tbl"]]}
    hu = [h["uid"] for h in call["heads"]]
    exp = {"dup": len(set(hu)) != len(hu),
           "adv": [uid["h:" + str(x)] for x in call["advancing"]],
           "gen": [uid["h:" + str(x)] for x in call["gen"]],
           "ab": [uid.get("f:" + str(a["flow"]), -1) for a in call["aborts"]],
           "moved": sorted(uid["h:" + str(h["uid"])] for h, p in zip(call["heads"], call["pos_after"]) if p != h["pos"]),
           "ties": [n for n, _ in call["choice"]], "tbl": None}
    # state.actions: only when no aborted flow touches the actions of the competing heads (abort decrements are not modelled)
    touched = {a for ab_ in call["aborts"] for a in ab_["acts"]}
    head_acts = {h["ev"]["act"] for h in call["heads"] if h["ev"]["act"]}
    if not (touched & head_acts):
        exp["tbl"] = sorted([uid[u], n] for u, n in call["tbl_after"] if u in uid)
        if any(u not in uid for u, _ in call["tbl_after"]):
            exp["tbl"].append([-1, -1])  # an action appeared during the call: never expected
    return [req, exp]


def round_expect(skel):
    """(driver request, expected answer) for the loop skeleton of one run_to_completion call: the Lean model of the main loop
    (`ConflictRound.run` on the script world) is fed the recorded outputs of the real functions — events pushed and heads
    returned per popped internal event / merge pass / resolution / advance, and the MERGING / alive heads the state holds when
    the loop looks — and must reproduce, for every `_resolve_action_conflicts` call, the number of queued internal events, the
    input heads (in order) and the advancing heads, consuming the whole recording."""
    uid = {}
    ids = lambda l: [_intern(uid, x) for x in l]  # noqa
    script, calls = [], []
    for e in skel:
        if e[0] == "ev":
            script.append(["ev", max(e[1], 0), ids(e[2])])
        elif e[0] == "merge":
            script.append(["merge", ids(e[1]), max(e[2], 0), ids(e[3])])
        elif e[0] == "res":
            script.append(["res", ids(e[1]), max(e[2], 0), ids(e[3])])
            calls.append([e[5], ids(e[4]), ids(e[3])])
        else:
            script.append(["adv", max(e[1], 0), ids(e[2])])
    neg = any((e[1] if e[0] in ("ev", "adv") else e[2]) < 0 for e in skel)
    return [{"m": "C05.round", "script": script, "fuel": len(script) + 10}, {"round_calls": calls, "neg": neg}]


def shared_action_region(call):
    """Region of the open finding: two heads with an equal event that carry the SAME action uid."""
    seen = {}
    for h in call["heads"]:
        a = h["ev"]["act"]
        if a:
            k = (h["loop"], h["ev"]["name"], h["ev"]["args"], a)
            if k in seen:
                return True
            seen[k] = 1
    return False


def distinct_actions_identical_event(call):
    """Documented non-violation: two heads of one loop whose events are equal by name+arguments but belong to DIFFERENT
    actions and are not Start events (e.g. two `send $r.Stop()`): the code treats them as identical (co-win, the second
    action is dropped from state.actions without a Stop event)."""
    seen = {}
    for h in call["heads"]:
        a = h["ev"]["act"]
        if a and not h.get("start"):
            k = (h["loop"], h["ev"]["name"], h["ev"]["args"])
            if k in seen and seen[k] != a:
                return True
            seen.setdefault(k, a)
    return False


def borrowed_action_region(call):
    """Region of the finding `cowin-on-borrowed-action`: a head whose Start event belongs to an action that is NOT in its
    flow's action_uids (the flow holds the action by reference only) competes with a head of the same loop that carries the
    equal event of another action instance."""
    for h in call["heads"]:
        if h["ev"]["act"] and h.get("in_uids") is False:
            for o in call["heads"]:
                if o is not h and o["loop"] == h["loop"] and o["ev"]["act"] and o["ev"]["act"] != h["ev"]["act"] \
                        and (o["ev"]["name"], o["ev"]["args"]) == (h["ev"]["name"], h["ev"]["args"]):
                    return True
    return False


def double_delete_region(call):
    """Region of the finding `cowin-double-delete`: two heads of one loop carry the SAME action uid (co-winners of an earlier
    round that share one action) and a third head of the loop carries the equal Start event of another action instance."""
    for w in call["heads"]:
        if not (w["ev"]["act"] and w.get("start")):
            continue
        same = [h for h in call["heads"] if h is not w and h["loop"] == w["loop"] and h["ev"]["act"] and h["ev"]["act"] != w["ev"]["act"]
                and (h["ev"]["name"], h["ev"]["args"]) == (w["ev"]["name"], w["ev"]["args"])]
        acts = [h["ev"]["act"] for h in same]
        if len(acts) != len(set(acts)):
            return True
    return False


def model_requests(case, obs):
    return [r for r, _ in obs["_model"]]


def compare_one(exp, m):
    if "round_calls" in exp:
        if exp["neg"]:
            return "main loop: an internal event disappeared from the queue outside the pop (negative push count)"
        if m["calls"] != exp["round_calls"] or m["bad"] or not m["ok"] or m["rest"]:
            return (f"main loop of run_to_completion differs from the model (drain all internal events, merge, drain …, then resolve): "
                    f"resolutions (queued events, input heads, advancing heads) impl {exp['round_calls']} model {m['calls']}"
                    f"{' [model ran out of the recording]' if m['bad'] else ''}{' [recording not consumed]' if m['rest'] else ''}")
        return None
    if "bscore" in exp:
        if m["branch"] != exp["branch"]:
            return f"branch of the score computation: impl {exp['branch']} model {m['branch']}"
        if not m["law"]:
            return "model: eventScore under the priority is not scaleBy priority of the unscaled eventScore"
        for key in ("scaled", "unscaled"):
            want = _evres_float(m[key], None)
            got = exp[key]
            if (want is None) != (got is None) or (want is not None and abs(want - got) > 1e-9 * max(1.0, abs(want))):
                return f"{exp['branch']} branch, {key} score: impl {got} model {m[key]} (= {want})"
        return None
    if "score_sign" in exp:
        # hypothesis `hr` of more_specific_wins: the float order (which the ranks are taken from) is the exact order of
        # priority * (9/10)^k; pairs whose exact values are closer than 1e-9 (relative) are outside the claim
        if exp["near"] or m["cmp"] == exp["score_sign"]:
            return None
        return f"float order of the real scores ({exp['score_sign']}) differs from the exact order of prio*(num/den)^k ({m['cmp']})"
    if exp["dup"]:
        return "assumption violated: duplicate head uids in the input of _resolve_action_conflicts"
    if m["advancing"] != exp["adv"]:
        return f"advancing heads differ: impl {exp['adv']} model {m['advancing']}"
    if [x[0] for x in m["generated"]] != exp["gen"]:
        return f"generated events differ: impl heads {exp['gen']} model {[x[0] for x in m['generated']]}"
    if m["aborted"] != exp["ab"]:
        return f"aborted flows differ: impl {exp['ab']} model {m['aborted']}"
    # a head forwarded to a label whose index equals its position is not observable: moved heads must be caught heads
    if not set(exp["moved"]) <= set(m["caught"]):
        return f"re-positioned heads differ: impl {exp['moved']} model {m['caught']}"
    if m["tie_sizes"] != exp["ties"]:
        return f"random.choice candidate counts differ: impl {exp['ties']} model {m['tie_sizes']}"
    if exp["tbl"] is not None and sorted(m["tbl"]) != exp["tbl"]:
        return f"state.actions differ after the call: impl {exp['tbl']} model {sorted(m['tbl'])}"
    return None


def compare(case, obs, mouts):
    for k, ((req, exp), m) in enumerate(zip(obs["_model"], mouts)):
        d = compare_one(exp, m)
        if d:
            return f"recorded call #{k}: {d}; request {json.dumps(req)}"
    return None


# ----------------------------------------------------------------------------- oracle (property statement)

def _pad(v, n):
    return list(v) + [1.0] * (n - len(v))


def _close(a, b):
    return abs(a - b) <= 1e-9 * max(1.0, abs(a), abs(b))


def _vec_ge(a, b):
    """a >= b, left to right, missing entries count as perfect matches; ties within float tolerance."""
    n = max(len(a), len(b))
    for x, y in zip(_pad(a, n), _pad(b, n)):
        if _close(x, y):
            continue
        return x > y
    return True


def _vec_ge_observed(a, b):
    """a >= b on OBSERVED float vectors (the code's own numbers): equal floats go on to the next entry; floats that differ
    by less than the tolerance are a near tie of two exact values the floats may order either way (0.9**4 vs 0.81*0.81):
    the order at that entry is not part of the claim, either head may win."""
    n = max(len(a), len(b))
    for x, y in zip(_pad(a, n), _pad(b, n)):
        if x == y:
            continue
        if _close(x, y):
            return True
        return x > y
    return True


def oracle_call(call):
    """Function-level reading of the property on one observed call (no model involved)."""
    if "exc" in call:
        return "conflict resolution raised " + call["exc"]
    heads = call["heads"]
    if len(heads) < 1:
        return None
    by_loop = {}
    for h in heads:
        by_loop.setdefault(h["loop"], []).append(h)
    gen = call["gen"]
    adv = call["advancing"]
    ab = [a["flow"] for a in call["aborts"]]
    if len(set(adv)) != len(adv):
        return "a head advances twice"
    for loop, hs in by_loop.items():
        g = [u for u in gen if u in {h["uid"] for h in hs}]
        if len(g) != 1:
            return f"loop {loop}: {len(g)} action events generated for {len(hs)} competing heads (expected exactly 1)"
        w = next(h for h in hs if h["uid"] == g[0])
        for h in hs:
            if not _vec_ge_observed(w["scores"], h["scores"]):
                return f"loop {loop}: winner scores {w['scores']} are not maximal (competitor {h['scores']})"
            same = (h["ev"]["name"], h["ev"]["args"]) == (w["ev"]["name"], w["ev"]["args"])
            if same and h["ev"]["act"] and w["ev"]["act"] and h["ev"]["act"] != w["ev"]["act"] and not w.get("start"):
                same = False  # an event of ANOTHER action instance is only "the identical action" when it starts it
            if h["uid"] == w["uid"] or same:
                if h["uid"] not in adv:
                    return f"loop {loop}: head with the winning event does not advance"
                if h["uid"] != w["uid"] and h["flow"] in ab and not any(o["flow"] == h["flow"] and o["uid"] not in adv for o in hs):
                    return f"loop {loop}: a co-winner's flow is aborted"
            elif h["catch"]:
                if h["uid"] not in adv or h["flow"] in ab and not any(o["flow"] == h["flow"] and o["uid"] != h["uid"] for o in heads):
                    return f"loop {loop}: loser with a catch label was not forwarded"
            else:
                if h["uid"] in adv:
                    return f"loop {loop}: loser {h['scores']} with a different event advances"
                if h["flow"] not in ab:
                    return f"loop {loop}: loser's flow is not aborted"
    return None


def _flow_index(flow_id):
    """index i of the generated flow a competing head belongs to (f<i>, or its started helper h<i>)"""
    if flow_id and flow_id[0] in "fh" and flow_id[1:].isdigit():
        return int(flow_id[1:])
    return None


def unmentioned_params(case, f, pat):
    """number of parameters of the triggering event that the match of flow f with pattern `pat` leaves unmentioned"""
    npay = len(case["payload"])
    it = case.get("itrig")
    if not it:
        return npay - len(pat)
    kind, form = it["kind"], f.get("iform", "bare")
    if kind == "startflow_id":
        return 0  # a start is matched by flow id: exact
    if kind == "startflow_any":
        # StartFlow carries flow_id, flow_instance_uid, source_flow_instance_uid, source_head_uid, flow_hierarchy_position + the flow's
        # parameters; a match on the start of ANY flow counts one more step down
        return npay + 5 - len(pat) + 1
    if kind == "unhandled":
        return npay + 2 - (1 + len(pat))  # the event's parameters + `event` + `loop_ids`
    # FlowStarted / FlowFinished / FlowFailed: flow_id, flow_instance_uid, source_flow_instance_uid + the flow's parameters
    if form == "ref":
        return 0  # the reference names the instance and all its parameters
    if form == "ctor":
        return 2  # flow id and every parameter, not the instance
    return npay + 3 - (1 + len(pat))


def spec_vector(case, f):
    """Specificity vector of flow f computed from the patterns (independent of the interpreter)."""
    unmentioned = unmentioned_params(case, f, f["pat"])
    w = f.get("wait") or {}
    if w.get("kind") == "or" and isinstance(w.get("alt"), dict) and _pat_fits(case, w["alt"]):
        # both alternatives of an or-group may match the event: the flow matched as specifically as its best fitting alternative
        u2 = unmentioned_params(case, f, w["alt"])
        unmentioned = min(unmentioned, u2) if _pat_fits(case, f["pat"]) else u2
    s = 0.9 ** unmentioned
    p = float(f["prio"]) if f["prio"] else 1.0
    if f["shape"] == "await" or w.get("kind") in ("await_or", "await_and"):
        return [s, p]
    if f["shape"] == "helper":
        return [s * p, 1.0]
    return [s * p]


def _pat_fits(case, pat):
    return all(k in case["payload"] and case["payload"][k] == v for k, v in pat.items())


def stopped_targets(case):
    """flows that a fitting flow stops (`send StopFlow(flow_id=…)`) on its way to its action"""
    out = set()
    for f in case["flows"]:
        for p_ in f.get("pre", []):
            if p_.startswith("stop:") and fits(case, f):
                out.add(int(p_[5:]))
    return out


def fits(case, f):
    if f.get("trigger") in ("E2", "F"):
        return False  # waits for another event: the first event must leave it untouched
    if f["prio"] and float(f["prio"]) == 0.0:
        return False  # declared priority 0.0: every match of the flow is scaled to 0.0 = no match
    if f.get("nofit"):
        return False  # watches the start of another flow
    w = f.get("wait") or {}
    if w.get("kind") == "or" and isinstance(w.get("alt"), dict) and _pat_fits(case, w["alt"]):
        return True
    if w.get("kind") in ("and", "await_and") and not _pat_fits(case, w["alt"]):
        return False
    return _pat_fits(case, f["pat"])


def oracle_run(case, run):
    for k, st in enumerate(run["steps"]):
        if "exc" in st:
            return f"run_to_completion raised on event #{k}: {st['exc']}"
        if st["missing_actions"]:
            return f"after event #{k} flows reference actions that are no longer in state.actions"
    for v in run.get("score_viol", []):
        return (f"a match on {v['ref']}({', '.join(v['ref_args'])}) against {v['event']} ({v['branch']} branch of the score computation) in a flow with "
                f"priority {v['prio']} scored {v['score']}: not the declared priority times the score of the match itself ({v['prio']} x {v['unscaled']})")
    if not run["steps"]:
        return None
    r = oracle_round(case, run, 0)
    if r:
        return r
    # further rounds: the same (restarted) flows compete on an event E with another payload
    for k, pl in enumerate(case.get("rounds", []), start=1):
        if k < len(run["steps"]):
            r = oracle_round(dict(case, payload=pl), run, k)
            if r:
                return f"round {k + 1} (payload {pl}): " + r
    return None


def rounds_judged(case, run):
    return sum(1 for k in range(1, 1 + len(case.get("rounds", []))) if k < len(run["steps"])
               and (len(run["steps"][k].get("inst", {})) == len(case["flows"]) or case.get("loopbody") and len(run["steps"][k].get("inst", {})) >= 2))


def oracle_round(case, run, k):
    """The property on the k-th event of a run (k = 0: the first event E; k > 0: a later round of a `rounds` case)."""
    flows = case["flows"]
    step0 = run["steps"][k]
    before = step0.get("before", run["before"])
    if len(step0.get("inst", run["inst"])) != len(flows) and not (k > 0 and case.get("loopbody")):
        return None  # a competing flow never got (re)started, nothing to judge
    calls0 = run["calls"][(run["steps"][k - 1].get("ncalls", 0) if k else 0): step0.get("ncalls", 0)]
    loops = {}
    for i, f in enumerate(flows):
        b = before.get(f"f{i}")
        if b is not None:  # (loop bodies: a flow that failed in an earlier round is out of the game)
            loops[i] = b["loop"]
    out = step0["out"]
    starts = [e for e in out if e["type"].startswith("Start") and e["type"].endswith("Action") or e["type"] == "Foo"]
    byloop = {}
    for i, f in enumerate(flows):
        if i in loops:
            byloop.setdefault(loops[i], []).append(i)
    for loop, idx in byloop.items():
        names = {loop_name(flows[i], i) for i in idx}
        if len(names) != 1:
            return f"flows declared in loops {names} share the runtime loop id {loop}"
        lname = names.pop()
        killed = stopped_targets(case)
        comp = [i for i in idx if fits(case, flows[i]) and i not in killed]
        for i in idx:
            if i in killed:
                a = step0["flows"][f"f{i}"]
                if a is not None and a["status"] not in ("stopped",):
                    return f"loop {lname}: flow f{i} was stopped by another flow (StopFlow) but is {a['status']}"
        payloads = []
        for e in starts:
            tag = e.get("script", e.get("x"))
            if isinstance(tag, str) and tag.rsplit("-", 1)[0] == lname:
                payloads.append((e["type"], tag))
        for i in idx:
            if i in comp or i in killed:
                continue
            b, a = before[f"f{i}"], step0["flows"][f"f{i}"]
            if a is None or (a["status"], a["pos"], a["acts"]) != (b["status"], b["pos"], b["acts"]):
                return f"flow f{i} whose match does not fit the event was touched: {b} -> {a}"
        if not comp:
            if payloads:
                return f"loop {lname}: action started although no flow matched"
            continue
        if len(set(payloads)) != 1:
            return f"loop {lname}: {len(set(payloads))} distinct action events for {len(comp)} competing flows (expected exactly 1): {payloads}"
        if len(payloads) != 1:
            return f"loop {lname}: the winning action was started {len(payloads)} times"
        wtype, wtag = payloads[0]

        def payload_of(i):
            f = flows[i]
            return ("Foo" if f["kind"] == "send" else "StartUtteranceBotAction", f"{lname}-{f['act']}")

        # "chosen arbitrarily among EXACT ties": two competing flows whose specificity differs never reach the tie-break together
        for call in calls0:
            hs = [(h, _flow_index(h.get("root") or h["flow_id"])) for h in call["heads"] if h["loop"] == loop]
            for a_, (h1, i1) in enumerate(hs):
                for h2, i2 in hs[a_ + 1:]:
                    if i1 is None or i2 is None or i1 == i2 or i1 not in comp or i2 not in comp or h1["scores"] != h2["scores"]:
                        continue
                    v1, v2 = spec_vector(case, flows[i1]), spec_vector(case, flows[i2])
                    if not (_vec_ge(v1, v2) and _vec_ge(v2, v1)):
                        return (f"loop {lname}: flows f{i1} and f{i2} carry equal score vectors {h1['scores']} (an exact tie, left to the random "
                                f"tie-break) although their specificity differs ({v1} vs {v2})")
        winners = [i for i in comp if payload_of(i) == (wtype, wtag)]
        if not winners:
            return f"loop {lname}: started action {wtag} belongs to no competing flow"
        best = [i for i in comp if all(_vec_ge(spec_vector(case, flows[i]), spec_vector(case, flows[j])) for j in comp)]
        if not any(i in best for i in winners):
            return (f"loop {lname}: winning action {wtag} is not the action of a most specific flow "
                    f"(vectors {[(i, spec_vector(case, flows[i])) for i in comp]})")
        for i in comp:
            a = step0["flows"][f"f{i}"]
            if i in winners:
                if a is None or a["status"] in ("stopped", "stopping"):
                    return f"loop {lname}: flow f{i} with the identical action failed"
                if flows[i]["shape"] == "when" and a["lost"]:
                    return f"loop {lname}: flow f{i} with the identical action was sent to its failure branch"
            elif flows[i]["shape"] == "when":
                if a is None or a["status"] in ("stopped", "stopping") or not a["lost"]:
                    return f"loop {lname}: losing `when` flow f{i} did not take its else branch ({a})"
            else:
                if a is not None and a["status"] not in ("stopped",):
                    return f"loop {lname}: losing flow f{i} did not fail (status {a['status']})"
    return None


def oracle(case, obs):
    return obs.get("_oracle")


def _oracle(case, obs):
    if case["kind"] == "fn":
        if "exc" in obs:
            return "conflict resolution raised " + obs["exc"]
        for call in obs["calls"]:
            r = oracle_call(call)
            if r:
                return r
        return None
    if "skip" in obs:
        return None
    for run in obs["runs"]:
        r = oracle_run(case, run)
        if r:
            return r
        for call in run["calls"]:
            r = oracle_call(call)
            if r:
                return r
    return None


def signature(case, obs, msg):
    return obs.get("_sig")


def _signature(case, obs):
    try:
        calls = all_calls(case, obs)
        if case.get("kind") == "prog" and any(f["prio"] and float(f["prio"]) == 0.0 and _pat_fits(case, f["pat"]) for f in case["flows"]):
            return "priority-zero-unscaled"
        # most specific region first (the regions of the repaired findings overlap with the open ones)
        if any(double_delete_region(c) for c in calls):
            return "cowin-double-delete"
        if any(borrowed_action_region(c) for c in calls):
            return "cowin-on-borrowed-action"
        if any(distinct_actions_identical_event(c) for c in calls):
            return "identical-event-of-different-actions"
        if any(shared_action_region(c) for c in calls):
            return "cowin-on-shared-action"
    except Exception:  # noqa
        return None
    return None


def nontrivial(case, obs):
    return bool(obs.get("_nt"))


def _nontrivial(case, obs):
    for c in all_calls(case, obs):
        loops = [h["loop"] for h in c["heads"]]
        if len(loops) != len(set(loops)):
            return True
    return False


def tags(case, obs):
    return obs.get("_tags", [])


def _tags(case, obs):
    t = ["kind:" + case["kind"]]
    if "skip" in obs:
        t.append("skip:" + obs["skip"][:40])
        return t
    calls = all_calls(case, obs)
    t.append(f"calls:{min(len(calls), 9)}")
    if case["kind"] == "prog":
        if case.get("choices") == "tree":
            t.append("tie-tree-complete" if obs.get("tree_complete") else "tie-tree-truncated")
        t.append("mode:" + case["mode"])
        for f in case["flows"]:
            t.append("shape:" + f["shape"])
            if f["prio"] and float(f["prio"]) == 0.0:
                t.append("priority-zero")
            if f.get("wait"):
                t.append("wait:" + f["wait"]["kind"])
            for p_ in f.get("pre", []):
                t.append("pre:" + p_.split(":")[0])
            if f.get("wrap"):
                t.append(f"wrap:{f['wrap']}")
        if case.get("evtype"):
            t.append("trigger:action-event")
        if case.get("itrig"):
            t.append("trigger:internal:" + case["itrig"]["kind"])
            for form in sorted({f.get("iform", "bare") for f in case["flows"]} - {"bare"}):
                t.append("imatch:" + form)
        t += sorted({x for r in obs["runs"] for x in r.get("score_tags", [])})
        if case.get("loopbody"):
            t.append("loop-body")
        if case.get("rounds"):
            t.append(f"later-rounds-judged:{sum(rounds_judged(case, r) for r in obs['runs'] if 'steps' in r)}")
    for c in calls:
        t.append(f"heads:{min(len(c['heads']), 8)}")
        t.append(f"loops:{len({h['loop'] for h in c['heads']})}")
        for n, _ in c["choice"]:
            t.append(f"tie:{n}")
        lens = {len(h["scores"]) for h in c["heads"]}
        if len(lens) > 1:
            t.append("mixed-vector-lengths")
        if c["aborts"]:
            t.append("has-loser")
        if any(h["catch"] for h in c["heads"]):
            t.append("has-catch")
        if len(c.get("advancing", [])) > len(c["gen"]):
            t.append("has-cowinner-or-caught")
        if shared_action_region(c):
            t.append("shared-action-region")
        if distinct_actions_identical_event(c):
            t.append("identical-nonstart-event-of-different-actions")
        if borrowed_action_region(c):
            t.append("borrowed-action-region")
        if double_delete_region(c):
            t.append("double-delete-region")
    return t


def shrink(case):
    if case["kind"] == "fn":
        hs = case["heads"]
        for i in range(len(hs)):
            if len(hs) > 1:
                yield dict(case, heads=hs[:i] + hs[i + 1:])
        for i, h in enumerate(hs):
            if len(h["scores"]) > 0:
                yield dict(case, heads=hs[:i] + [dict(h, scores=h["scores"][:-1])] + hs[i + 1:])
            if h["catch"]:
                yield dict(case, heads=hs[:i] + [dict(h, catch=False)] + hs[i + 1:])
        return
    if "flows" not in case:  # other case kinds have no shrinker
        return
    fl = case["flows"]
    for i in range(len(fl)):
        if len(fl) > 1:
            nf = fl[:i] + fl[i + 1:]
            yield dict(case, flows=nf, followup=any(f["stop_after"] for f in nf))
    for i, f in enumerate(fl):
        for k in ("wait", "pre", "wrap"):
            if f.get(k):
                g = {a: b for a, b in f.items() if a != k}
                yield dict(case, flows=fl[:i] + [g] + fl[i + 1:])
        if f.get("wrap", 0) > 1:
            yield dict(case, flows=fl[:i] + [dict(f, wrap=f["wrap"] - 1)] + fl[i + 1:])
        if len(f.get("pre", [])) > 1:
            yield dict(case, flows=fl[:i] + [dict(f, pre=f["pre"][1:])] + fl[i + 1:])
        for k, v in (("shape", "direct"), ("prio", None), ("loop", None), ("ref", False), ("stop_after", False)):
            if f[k] != v and not (k == "ref" and f["stop_after"]):
                g = dict(f, **{k: v})
                if k == "shape" and f["kind"] == "send":
                    pass
                nf = fl[:i] + [g] + fl[i + 1:]
                yield dict(case, flows=nf, followup=any(x["stop_after"] for x in nf))
    if case.get("rounds"):
        yield dict(case, rounds=case["rounds"][:-1])
    if isinstance(case.get("choices"), list) and len(case["choices"]) > 1:
        for c in case["choices"]:
            yield dict(case, choices=[c])
    if case["mode"] != "start":
        yield dict(case, mode="start")
