"""C16 — generation options run exactly the selected rail categories; the log lists the rails that ran, `stop` on the blocker.

Tie
  * translator (harness/translate/c16.py): literal tables of `compute_generation_log`, the `$generation_options` /
    `$config.rails.*.flows` / `$skip_output_rails` guards of llm_flows.co (parsed by the repo's parser) -> Generated/C16.lean;
  * correspondence, kind "e2e": real `LLMRails.generate(messages, options={"rails": …, "log": {"activated_rails": True}})`
    with scripted rails, FakeLLM and a deterministic embedding engine  vs  `PipelineOpts.turn` on the generated guards:
    reply, rail-call trace (category, index, text seen), number of LLM calls, rail-level skeleton of the processing log,
    and `GenLog.compute(model log)` vs the returned `log.activated_rails` (type, name, stop, action names);
    additionally `GenLog.compute` fed with the abstraction of the REAL processing log of the same run vs the returned log
    (type, name, stop, finished, decisions, actions with their LLM tasks, LLM call count);
  * correspondence + oracle, kind "seq": 2-3 such calls one after the other on one LLMRails - on one conversation (carried `state` /
    message history) or on separate conversations; each call in a task of its own or all calls awaited in ONE task (one async
    context); calls with `options=None` (everything enabled) between / after calls with restricting options; the selection written
    as list / dict / partial dict / `GenerationOptions` object, optionally the SAME options object re-used by several calls -
    vs `PipelineOpts.session` (calls are independent: `calls_independent`), every call judged by the same documented table
    with the options of THAT call;
  * correspondence, kind "log": the real `compute_generation_log` on synthetic processing logs (well-shaped and malformed)
    vs `GenLog.compute`.
Oracle (from docs/user_guides/advanced/generation-options.md and the property text, independent of the Lean model):
  only selected categories run; replies per the documented table; the log lists exactly the input/output rails whose
  action was really invoked, in order, `stop` on exactly the one whose scripted verdict was reject/fault (on none when a
  dialog flow refuses and every rail finished); no LLM call when dialog is not selected; selected retrieval rails do run
  before a bot message is generated for a dialog decision.
"""
import itertools
import json

from ..impl import pipeline_opts as po
from ..impl import c16_interp as ci
from ..translate import c16 as tr

PROPERTY = "C16"
CASE_TIMEOUT = 300  # s of wall clock per case in pool workers (runner watchdog): a case that spins forever is a verdict, not exit 2
THEOREM_MODULE = "NemoVerif.Theorems.C16"
RULE = ("e2e: every subset of {input, dialog, retrieval, output} (+ the call without options) x configurations with 0-2 input / 0-2 output / "
        "0-1 retrieval rails (declared as flow or subflow, refusal or rails-exception mode, three dialog behaviours) x rule tables whose "
        "verdict (accept / reject / fault / append / replace) depends on the text a rail is shown x user / bot / LLM texts from a pool with the "
        "trigger words; thorough additionally enumerates all verdict tables over 5 verdicts for <= 2 rails per category for all 16 subsets. "
        "the selection is written as list (documented), dict of booleans, dict naming only the deselected categories, or GenerationOptions object; "
        "dialog behaviours: general / intent flow with predefined message / with generated message / intent flow that answers with the refusal. "
        "seq: 2-3 generate calls with different option subsets on ONE LLMRails (55% carried `state`, 25% message history, 20% separate conversations), "
        "half of them awaited in one task (one async context), 15% of the calls with options=None (everything enabled) between/after restricting calls, "
        "20% with ONE options object (mostly GenerationOptions) used for every call (one of the calls often ended by its input rails, without bot message), "
        "a third 'call without output (often blocked), then calls with output + bot message'; the documented table is applied to every call with that call's options. "
        "log: synthetic processing logs (rail segments finished / unfinished, dialog steps, ignored flows and actions, LLM infos) and a malformed "
        "stream (finish without start, action outside a rail, nested starts). non-trivial = e2e with at least one rail invoked or one LLM call, "
        "log with at least one rail start; distinct = distinct case JSON. "
        "texts: 30% of the user texts / supplied bot messages (20-40% in seq / interp) and the results of rewriting rails (prepend / replace / append) are texts that look like syntax to the runtime's own plumbing: "
        "$-first texts, $name for every context variable the code mentions, Jinja, quotes, backslashes, newlines, blanks, the empty text, keywords, JSON, 3 000 / 20 000 characters, the predefined messages, "
        "and every string literal the code path compares a value with (ast scan on every run); a third of the configurations let the rail action read the text from the context instead of a parameter; "
        "30% of the sequences derive later calls' texts from earlier calls' texts; a failing case is confirmed on a freshly built LLMRails. "
        "interp: rails of the two shipped shapes (check rail / rewriting rail, one registered action each) in lists of 0-4 input x 0-3 output rails x the 17 option values x texts: the real runtime vs the interpreter model on the generated llm_flows.co program (RailsInterp.drive), rail calls, LLM calls, reply and the complete event sequence of the call.")
TRUSTED_BASE = [
    "translator harness/translate/c16.py (literal lists of compute_generation_log by AST path; llm_flows.co guards through the repo's own Colang 1.0 parser + Python ast; the shape of the two `$name`-replacing loops of _process_start_action / create_event by normalised AST comparison)",
    "correspondence harness harness/props/C16.py + harness/impl/pipeline_opts.py (scripted rails, FakeLLM, md5 embedding engine, processing-log abstraction) + Lean driver Drive/C16.lean (JSON codecs, rule-table interpreter)",
    "the Colang 1.0 interpreter model (C14's V1Interp) inside RailsInterp.drive (generate_events with scripted actions) is PROVED to refine PipelineOpts.turn (pipeline_refines_interp, unbounded rail lists); that this model is what flows.py/runtime.py do is validated by C14's correspondence and by the `interp` family (harness/impl/c16_interp.py, event for event against log.internal_events), not proved",
]
ASSUMPTIONS = [
    "Colang 1.0; options.rails given as a list of category names, a dict of booleans (missing keys = enabled), a GenerationOptions object, or omitted (per-rail name lists are documented as unsupported)",
    "a bot message is supplied whenever output rails are selected and dialog rails are not (the documented usage), except when the input rails end the turn before it is needed; retrieval rails only accept",
    "rails have the shape `$v = execute action; if blocked: bot refuse to respond / create event XException; stop; if rewrite: $text = …`; one utterance per turn",
    "timestamps / durations of the generation log are not modelled",
    "LLM completions are post-processed by the generation actions (strip, first line, quotes): texts that look like syntax are used as LLM answers only in `general` mode and only where the completion is returned as it is",
    "turns stay below the runtime's safety cap of 100 new events (a handful of thorough cases with 3+2+2 rails and a two-call dialog exceed it: the valve ends the turn with the internal-error message since /repo e77d9e1 (before: generate raised 'Too many events.'); recognised by the runtime's warning, skipped and counted as event-cap-hit)",
]
EXHAUSTIVE = {"quick": False, "thorough": True}

CATS = po.CATS
VERDICTS = [["accept"], ["reject"], ["fault"], ["append", "!"], ["replace", "zz"]]  # the exhaustive tables; the sampled ones also prepend / produce hostile texts
WORDS = ["hi", "bad", "boom", "x", "evil", "ok", ""]


def translate():
    info = tr.run()
    # phase 2: the theorems about the interpreter are about Generated/LlmFlowsV1.lean (the compiled llm_flows.co), regenerate it too
    from ..translate import c14

    info["llm_flows_v1"] = c14.run()
    return info


# ----------------------------------------------------------------------------- generators

def g_rule(rng, force=None):
    v = force or rng.choice([["accept"], ["reject"], ["reject"], ["fault"], ["append", rng.choice(["!", " bad", " x", "evil"])], ["replace", rng.choice(["zz", "bad", "", "boom x"])],
                             g_rewrite_hostile(rng)])
    needle = rng.choice(["", "", "bad", "boom", "x", "evil", "!", "zz", "$", "{{", "\n", '"', " "])
    return [needle, v]


def g_rewrite_hostile(rng):
    """a rewriting rail whose RESULT looks like syntax of the runtime's plumbing (a `$`-text made by prefixing, a replacement
    that names a context variable, a template, an empty / blank / multi-line text)"""
    k = rng.random()
    if k < 0.4:
        return ["prepend", rng.choice(["$", "$", "$ ", "{{ ", '"', "\n", " ", "$bot_message ", "#"])]
    if k < 0.8:
        return ["replace", rng.choice(po.hostile_texts())]
    return ["append", rng.choice([" }}", '"', "\n", " ", "$", "\nbad", " $user_message"])]


def g_rail(rng, faults=True):
    rules = [g_rule(rng) for _ in range(rng.choice([0, 1, 1, 1, 2]))]
    if not faults:
        rules = [[n, (["reject"] if v == ["fault"] else v)] for n, v in rules]
    return rules


def g_text(rng, hostile=0.3):
    """a user text / supplied bot message: words with the trigger words of the rules, or (30 %) a text that looks like syntax
    to some layer of the runtime (`po.hostile_texts()`: `$`-texts, names of context variables, templates, quotes, newlines,
    blanks, the empty text, very long texts), sometimes with a trigger word behind it."""
    if rng.random() < hostile:
        t = po.pick_hostile(rng)
        if rng.random() < 0.2:
            t += rng.choice([" bad", " evil", " x", "!", " boom"])
        return t
    n = rng.choice([1, 1, 2, 3])
    return " ".join(rng.choice(WORDS) for _ in range(n)).strip() or rng.choice(["hi", "q"])


def g_llm_text(rng, dialog="general"):
    """what the fake LLM answers.  The generation actions post-process an LLM completion (strip, first line / quotes in the
    flows mode) - that is not the property's subject, so LLM texts are hostile only where the completion is returned as it is:
    `general` mode, no surrounding blanks, not empty, no leading quote."""
    if dialog == "general":
        for _ in range(4):
            t = g_text(rng, hostile=0.3)
            if t and t.strip() == t and not t.startswith('"') and "\n" not in t and "\r" not in t:
                return t
    t = g_text(rng, hostile=0)
    return "t" + t if t.startswith('"') else t


TPL_HEADS = ["I can't respond to that (", "Refused: ", "", "Sorry - ", "No. Reason: ", "Blocked by "]
TPL_MIDS = [" / ", ", because of ", " ", ": ", ") ("]
TPL_TAILS = [")", ").", ". Sorry", "", "!", ", ok", " - no", "."]
STATIC_MSGS = ["Custom refusal.", "No.", "I will not answer that; ask something else.", "bad request"]


def g_tpl(rng, variables=("block_reason", "block_reason", "blocked_text", "user_message", "nothing_set"), static=0.15, worded=False):
    """a predefined bot message: mostly with template variables, in both syntaxes (`{{ var }}`, `{{var}}`, `$var`), as the whole
    message, inside a sentence, or two of them; `static` of them are plain custom texts"""
    if rng.random() < static:
        return [["lit", rng.choice(STATIC_MSGS)]]
    var = lambda: ["var", rng.choice(variables), rng.choice(["jinja", "dollar", "dollar", "tight"])]
    k = rng.random()
    head = rng.choice([h for h in TPL_HEADS if h or not worded])  # worded: the message never renders to the empty text
    if k < 0.25 and not worded:
        return [var()]
    if k < 0.75:
        return [p for p in (["lit", head], var(), ["lit", rng.choice(TPL_TAILS)]) if p != ["lit", ""]]
    return [p for p in (["lit", head], var(), ["lit", rng.choice(TPL_MIDS)], var(), ["lit", rng.choice(TPL_TAILS)]) if p != ["lit", ""]]


REASONS = ["long reason " * 60, "input policy", "policy 7", "output policy", "bad words", "evil", "boom x", "", "$user_message", "$bot_message", "{{ 1/0 }}", "{{ block_reason }}",
           'it\'s "quoted"', "a\nb", " lead", "zz", "!", po.REFUSAL, "$", "{{", "x" * 300]


def g_reasons(rng, cfg):
    """the texts the scripted rails hand out as `$verdict.reason` (-> `$block_reason`): names, texts with the trigger words of the
    OUTPUT rails' rules (a refusal that mentions them is still the refusal), texts that look like syntax"""
    needles = [n for rules in cfg["output"] for n, _ in rules if n]
    return {cat: [(rng.choice(needles) + " reason" if needles and rng.random() < 0.3 else rng.choice(REASONS)) if rng.random() < 0.8 else po.rail_name(cat, i)
                  for i in range(len(cfg[cat]))] for cat in ("input", "output")}


def g_msgs(rng, n_in, n_out, dialog):
    """the predefined messages of a configuration: 45 % leave everything to the library (static refusal); otherwise the refusal is a
    template, some rails have a refusal of their own, and a fifth utter a (templated) notice before the refusal"""
    if rng.random() < 0.45:
        return None
    # a dialog flow that says `bot refuse to respond` sets no variables: its refusal only reads the runtime's own ones
    rv = ("user_message", "nothing_set") if dialog == "refuse" else ("block_reason", "block_reason", "blocked_text", "user_message", "nothing_set")
    m = {"refusal": g_tpl(rng, rv, worded=(dialog == "refuse")) if rng.random() < 0.8 else None,
         "own": {"input": [g_tpl(rng) if rng.random() < 0.3 else None for _ in range(n_in)], "output": [g_tpl(rng) if rng.random() < 0.3 else None for _ in range(n_out)]},
         "notice": g_tpl(rng, static=0.3) if rng.random() < 0.2 else None}
    return m


def g_cfg(rng, small):
    cfg = {
        "input": [g_rail(rng) for _ in range(rng.choice([0, 1, 1, 2, 2] if small else [0, 1, 2, 2, 3]))],
        "output": [g_rail(rng) for _ in range(rng.choice([0, 1, 1, 2, 2] if small else [0, 1, 2, 2, 3]))],
        "retrieval": [[] for _ in range(rng.choice([0, 1, 1] if small else [0, 1, 2]))],
        "rail_def": rng.choice(["subflow", "flow"]),
        "dialog": rng.choice(["general", "general", "predef", "llm", "refuse"]),
        "exceptions": rng.random() < 0.2,
        "text_from": rng.choice(["param", "param", "context"]),
    }
    m = g_msgs(rng, len(cfg["input"]), len(cfg["output"]), cfg["dialog"])
    if m is not None:
        if cfg["retrieval"]:
            # a notice + a refusal are TWO utterances of one rail; with retrieval rails configured the blocked rail is not resumed
            # after the retrieval rails ran inside the first utterance's `generate bot message` (observation in design_notes/C16.md:
            # its `stop` is never emitted either) - what is said then is not documented: the notice is used without retrieval rails only
            m["notice"] = None
        cfg["msgs"] = m
    if cfg["dialog"] == "predef" and rng.random() < 0.5:
        # the dialog flow's predefined message interpolates the runtime's own variable
        cfg["predef_parts"] = g_tpl(rng, ("user_message", "user_message", "nothing_set"), static=0, worded=True)
    return cfg


def with_rules(rng, base, faults=True):
    """the structural configuration `base` (one LLMRails) with fresh rule tables and fresh reason texts (data only)"""
    cfg = dict(base, input=[g_rail(rng, faults) for _ in base["input"]], output=[g_rail(rng, faults) for _ in base["output"]])
    if "msgs" in base:
        cfg["reasons"] = g_reasons(rng, cfg)
        if rng.random() < 0.35:
            # more turns that a rail ends: where the predefined messages are templates the refusal is what matters
            cat = rng.choice([c for c in ("input", "output") if cfg[c]] or ["input"])
            if cfg[cat]:
                cfg[cat][rng.randrange(len(cfg[cat]))].insert(0, [rng.choice(["", "bad", "x", "evil", "hi"]), ["reject"]])
    return cfg


EXH_MSGS = {"refusal": [["lit", "I can't respond to that ("], ["var", "block_reason", "jinja"], ["lit", ": "], ["var", "blocked_text", "dollar"], ["lit", ")."]],
            "own": {"input": [], "output": []}, "notice": None}


def subsets():
    for r in range(5):
        for s in itertools.combinations(CATS, r):
            yield list(s)


def mk_e2e(cfg, opts, user, bot, llm_text, no_options=False, form="list"):
    if no_options or opts is None or "dialog" in opts:
        bot = None  # a trailing assistant message is only routed when dialog rails are off
    elif "output" in opts and bot is None:
        bot = "ok"  # documented usage: output rails without dialog need the bot message
    c = {"kind": "e2e", "cfg": cfg, "opts": opts, "no_options": bool(no_options), "user": user, "bot": bot, "llm_text": llm_text}
    if form != "list":
        c["form"] = form  # how the selection is written: list (documented) / dict / partial dict / GenerationOptions object
    return c


def g_form(rng):
    return rng.choice(["list", "list", "list", "dict", "partial", "object"])


def gen_e2e(rng, tier):
    per_subset = 40 if tier == "quick" else 700
    n_cfg = 24 if tier == "quick" else 160
    cfgs = [g_cfg(rng, small=(tier == "quick")) for _ in range(n_cfg)]
    cases = []
    subs = list(subsets())
    for s in subs + [None, "NOOPT"]:
        for k in range(per_subset):
            base = rng.choice(cfgs)
            cfg = with_rules(rng, base)
            llm_text = g_llm_text(rng, cfg["dialog"])
            cases.append(mk_e2e(cfg, None if s in (None, "NOOPT") else s, g_text(rng), rng.choice([None, g_text(rng), g_text(rng)]), llm_text, no_options=(s == "NOOPT"), form=g_form(rng)))
    if tier == "thorough":
        # exhaustive: all 16 subsets x all verdict tables (5 verdicts) for <= 2 rails per category, unconditional rules
        for s in subs:
            for n_in in range(3):
                for n_out in range(3):
                    for vin in itertools.product(VERDICTS, repeat=n_in):
                        for vout in itertools.product(VERDICTS, repeat=n_out):
                            cfg = {"input": [[["", v]] for v in vin], "output": [[["", v]] for v in vout], "retrieval": [[]], "rail_def": "subflow",
                                   "dialog": "general" if (n_in + n_out) % 2 == 0 else "llm", "exceptions": False}
                            if len(s) % 2 == 1:
                                # every other selection: the refusal is a template over what the blocking rail sets
                                cfg["msgs"] = EXH_MSGS
                                cfg["reasons"] = {"input": ["in-%d says" % i for i in range(n_in)], "output": ["out-%d says" % i for i in range(n_out)]}
                            cases.append(mk_e2e(cfg, s, "hi", "bot says", "llm says"))
    cases.sort(key=lambda c: json.dumps(po._cfg_key(c["cfg"])))  # group by structural configuration (one LLMRails each)
    return cases


def input_blocks(cfg, opts, user):
    """does the documented input chain end the turn for this user text?"""
    return opts is not None and "input" in opts and "dialog" not in opts and bool(cfg["input"]) and chain(cfg["input"], user)[0][0] != "ok"


def mk_call(rng, opts, cfg=None, no_options=False):
    user = g_text(rng, hostile=0.2)
    bot = rng.choice([None, g_text(rng), g_text(rng)])
    if no_options:
        opts = None
    if opts is None or "dialog" in opts:
        bot = None
    elif "output" in opts and bot is None:
        # the bot message may only be left out when the input rails end the turn before it is needed
        if not (cfg is not None and input_blocks(cfg, opts, user) and rng.random() < 0.7):
            bot = g_text(rng)
    llm_text = g_llm_text(rng, (cfg or {}).get("dialog", "predef"))
    c = {"opts": opts, "user": user, "bot": bot, "llm_text": llm_text}
    if no_options:
        c["no_options"] = True  # `generate(messages)` without any options in the middle of the conversation
    else:
        f = g_form(rng)
        if f != "list":
            c["form"] = f
    return c


def derive_text(rng, t):
    r = rng.random()
    if r < 0.5:
        return t
    if r < 0.7:
        return t + rng.choice([" bad", " evil", " x"])
    if r < 0.8:
        return t.upper() if t.upper() != t else t.lower()
    if r < 0.9:
        return t + " "
    return t[: max(1, len(t) // 2)]


def gen_seq(rng, tier):
    """2-3 `generate` calls with different option subsets one after the other on ONE LLMRails: on one conversation (carried
    `state`, or the message history) or on separate conversations; each call in a task of its own or all in one task; calls
    without any options interleaved; the same options object re-used by calls with the same selection."""
    n = 480 if tier == "quick" else 8000
    n_cfg = 16 if tier == "quick" else 80
    cfgs = [g_cfg(rng, small=True) for _ in range(n_cfg)]
    subs = list(subsets()) + [None]
    no_out = [s for s in subs if s is not None and "output" not in s and "input" in s]
    with_out = [s for s in subs if s is not None and "output" in s and "dialog" not in s]
    cases = []
    for k in range(n):
        base = rng.choice(cfgs)
        # no faulting rails here: what a fault (hide_prev_turn) does to LATER turns is C03's subject
        cfg = with_rules(rng, base, faults=False)
        via = rng.choice(["state"] * 11 + ["history"] * 5 + ["separate"] * 4)
        ln = 2 if (via == "state" and rng.random() < 0.8) else rng.choice([2, 3])
        r = rng.random()
        if r < 0.35:
            # the pattern the quantifier text singles out: a call without `output` (often blocked), then one with `output`
            opts_seq = [rng.choice(no_out)] + [rng.choice(with_out) for _ in range(ln - 1)]
        elif r < 0.5:
            o = rng.choice(subs)
            opts_seq = [o] * ln  # same options: the message-history cache hits / the options object can be shared
        else:
            opts_seq = [rng.choice(subs) for _ in range(ln)]
        # a call WITHOUT options between / after calls with options (never the only kind of call)
        noopt = [rng.random() < 0.15 for _ in opts_seq]
        if all(noopt):
            noopt[0] = False
        case = {"kind": "seq", "cfg": cfg, "via": via, "calls": [mk_call(rng, o, cfg, no_options=z) for o, z in zip(opts_seq, noopt)]}
        if rng.random() < 0.5:
            case["ctx"] = "one-task"  # all calls awaited in one task (one async context)
        if rng.random() < 0.2:
            # ONE options object (mostly a GenerationOptions, as a server keeps it) used for every call of the conversation;
            # often one of the calls is ended by its input rails (then it needs no bot message) and the others are not
            o = rng.choice([x for x in with_out if "input" in x]) if rng.random() < 0.5 else rng.choice(with_out) if rng.random() < 0.4 else rng.choice(subs)
            f = rng.choice(["object", "object", "object", "dict", "list", "partial"])
            calls = [mk_call(rng, o, cfg) for _ in range(ln)]
            if o is not None and "input" in o and "dialog" not in o and cfg["input"] and rng.random() < 0.6:
                j = rng.randrange(ln)
                cfg["input"][rng.randrange(len(cfg["input"]))].insert(0, ["bad", ["reject"]])
                for i, c in enumerate(calls):
                    c["user"] = "bad" if i == j else c["user"].replace("bad", "ok")
            for c in calls:
                c.pop("form", None)
                if f != "list":
                    c["form"] = f
                if c["bot"] is not None and input_blocks(cfg, o, c["user"]) and rng.random() < 0.7:
                    c["bot"] = None  # nothing to check: the input rails end the turn
                elif c["bot"] is None and o is not None and "output" in o and "dialog" not in o and not input_blocks(cfg, o, c["user"]):
                    c["bot"] = g_text(rng)  # the texts / rules were changed above: the bot message is needed after all
            case["calls"] = calls
            case["share"] = True
        elif rng.random() < 0.3:
            case["share"] = True  # calls with the same selection + form pass the very same options object
            if rng.random() < 0.5:
                f = g_form(rng)
                for c in case["calls"]:
                    if not c.get("no_options"):
                        c.pop("form", None)
                        if f != "list":
                            c["form"] = f
        if rng.random() < 0.3:
            # texts of later calls DERIVED from those of earlier calls (the same text again, with a trigger word behind it, in
            # another case, with a blank, cut): whatever is remembered per text / per part of a text is hit a second time
            calls = case["calls"]
            for j in range(1, len(calls)):
                src = calls[rng.randrange(j)]
                k = rng.choice(["user", "user", "bot"])
                if k == "user":
                    calls[j]["user"] = derive_text(rng, src["user"])
                elif calls[j]["bot"] is not None and src["bot"] is not None:
                    calls[j]["bot"] = derive_text(rng, src["bot"])
                o = calls[j]["opts"]
                if calls[j]["bot"] is None and not calls[j].get("no_options") and o is not None and "output" in o and "dialog" not in o and not input_blocks(cfg, o, calls[j]["user"]):
                    calls[j]["bot"] = g_text(rng)
            case["derived"] = True
        if not in_domain(case):
            raise AssertionError("gen_seq left the region of the property: " + json.dumps(case))
        cases.append(case)
    cases.sort(key=lambda c: json.dumps(po._cfg_key(c["cfg"])))
    return cases


def seg_rail(rng, kind, name, finished=True, with_refusal=False):
    ev = [[kind, name]]
    if rng.random() < 0.3:
        ev.append(["step", rng.choice(["run input rails", "run output rails", "process user input"]), [["other"], ["act", "create_event"]]])
        ev += [["act", "create_event"], ["actfin", "create_event"]]
    n_act = rng.choice([0, 1, 1, 2])
    for a in range(n_act):
        an = rng.choice(["self_check_input", "scripted_rail", "mask", "create_event"])
        ev.append(["step", name, [["act", an]]])
        ev.append(["act", an])
        for _ in range(rng.choice([0, 0, 1, 2])):
            if an != "create_event":
                ev.append(["llm", rng.choice(["self_check_input", "general", "self_check_output"])])
        if rng.random() < 0.5:
            ev.append(["other", "ContextUpdate"])
        ev.append(["actfin", an])
    if finished:
        ev.append(["fin"])
    elif with_refusal:
        ev.append(["step", name, [["intent", "refuse to respond"]]])
        ev += seg_gbm(rng)
        if rng.random() < 0.5:
            ev.append(["step", name, [["intent", "stop"]]])
    return ev


def seg_gbm(rng):
    ev = [["step", "generate bot message", [["act", "retrieve_relevant_chunks"]]], ["act", "retrieve_relevant_chunks"], ["actfin", "retrieve_relevant_chunks"],
          ["step", "generate bot message", [["other"], ["act", "generate_bot_message"]]], ["act", "generate_bot_message"]]
    if rng.random() < 0.5:
        ev.append(["llm", "generate_bot_message"])
    ev.append(["actfin", "generate_bot_message"])
    return ev


def seg_dialog(rng):
    ev = []
    task = rng.choice(["general", "generate_user_intent"])
    fid = rng.choice(["generate user intent", "generate user intent", "greeting", "run dialog rails"])
    ev.append(["step", fid, [["act", "generate_user_intent"]]])
    if fid != "run dialog rails":
        ev += [["act", "generate_user_intent"]] + [["llm", task]] * rng.choice([0, 1, 1, 2]) + [["actfin", "generate_user_intent"]]
    if rng.random() < 0.5:
        # a dialog flow may itself decide to refuse: a refusal in the log although every rail finished
        ev.append(["step", rng.choice(["greeting", "other flow", "generate next step"]), [["intent", rng.choice(["express greeting", "express greeting", "refuse to respond"])]]])
        ev += seg_gbm(rng)
    return ev


def gen_log_case(rng):
    ev = [["other", "UtteranceUserActionFinished"]]
    names = ["input rail 0", "input rail 1", "self check input", "generate user intent", "x"]
    shape = "well"
    n_in = rng.choice([0, 1, 2, 3])
    blocked = False
    if n_in:
        ev.append(["other", "StartInputRails"])
    for i in range(n_in):
        last_block = rng.random() < 0.25
        ev += seg_rail(rng, "in", rng.choice(names), finished=not last_block, with_refusal=last_block and rng.random() < 0.7)
        if last_block:
            blocked = True
            break
    if not blocked:
        if n_in:
            ev.append(["other", "InputRailsFinished"])
        ev.append(["other", "UserMessage"])
        if rng.random() < 0.6:
            ev += seg_dialog(rng)
        n_out = rng.choice([0, 1, 2])
        if n_out:
            ev.append(["other", "StartOutputRails"])
        for i in range(n_out):
            last_block = rng.random() < 0.3
            ev += seg_rail(rng, "out", rng.choice(["output rail 0", "self check output", "generate user intent"]), finished=not last_block, with_refusal=last_block and rng.random() < 0.7)
            if last_block:
                blocked = True
                break
        if not blocked and n_out:
            ev.append(["other", "OutputRailsFinished"])
    ev.append(["other", "Listen"])
    if rng.random() < 0.3:
        shape = "malformed"
        for _ in range(rng.choice([1, 1, 2, 3])):
            op = rng.choice(["drop", "dup", "insert", "swap", "truncate"])
            if op == "drop" and len(ev) > 1:
                ev.pop(rng.randrange(len(ev)))
            elif op == "dup" and ev:
                i = rng.randrange(len(ev))
                ev.insert(i, ev[i])
            elif op == "insert":
                ev.insert(rng.randrange(len(ev) + 1), rng.choice([["fin"], ["in", "x"], ["out", "y"], ["act", "a"], ["actfin", "a"], ["llm", "general"], ["step", "f", [["intent", "i"]]], ["step", "run input rails", []]]))
            elif op == "swap" and len(ev) > 1:
                i, j = rng.sample(range(len(ev)), 2)
                ev[i], ev[j] = ev[j], ev[i]
            elif op == "truncate" and len(ev) > 1:
                ev = ev[: rng.randrange(len(ev))]
    return {"kind": "log", "log": ev, "shape": shape}


def gen_cases(rng, tier):
    n_log = 3000 if tier == "quick" else 60000
    return [gen_log_case(rng) for _ in range(n_log)] + gen_e2e(rng, tier) + gen_seq(rng, tier) + ci.gen(rng, tier)


def escalate(rng, case, tier):
    """focused search after a broken proof / tie / correspondence: the corpus-like table first, then fresh e2e and log cases"""
    out = gen_seq(rng, "quick") + gen_e2e(rng, "quick") + gen_e2e(rng, "quick") + gen_seq(rng, "quick") + [gen_log_case(rng) for _ in range(4000)]
    if tier == "thorough":
        out += gen_e2e(rng, "thorough")
    return out


# ----------------------------------------------------------------------------- implementation

def worker_init():
    po._setup()


def concrete_plog(alog):
    """abstract events -> a processing log the real compute_generation_log accepts (increasing timestamps)."""
    from nemoguardrails.logging.explain import LLMCallInfo

    out = []
    t = 1000.0
    for e in alog:
        t += 0.25
        k = e[0]
        if k == "step":
            ns = []
            for s in e[2]:
                if s[0] == "act":
                    ns.append({"type": "StartInternalSystemAction", "action_name": s[1], "action_params": {}})
                elif s[0] == "intent":
                    ns.append({"type": "BotIntent", "intent": s[1]})
                else:
                    ns.append({"type": "ContextUpdate", "data": {}})
            out.append({"type": "step", "timestamp": t, "flow_id": e[1], "next_steps": ns})
        elif k == "llm":
            out.append({"type": "llm_call_info", "timestamp": t, "data": LLMCallInfo(task=e[1], duration=0.125, prompt_tokens=1, completion_tokens=1, total_tokens=2)})
        else:
            if k == "in":
                d = {"type": "StartInputRail", "flow_id": e[1]}
            elif k == "out":
                d = {"type": "StartOutputRail", "flow_id": e[1]}
            elif k == "fin":
                d = {"type": "InputRailFinished", "flow_id": "?"}
            elif k == "act":
                d = {"type": "StartInternalSystemAction", "action_name": e[1], "action_params": {}}
            elif k == "actfin":
                d = {"type": "InternalSystemActionFinished", "action_name": e[1], "return_value": None}
            else:
                d = {"type": e[1] if len(e) > 1 else "Other"}
            out.append({"type": "event", "timestamp": t, "data": d})
    return out


def rails_obs(rails):
    return [{"type": r.type, "name": r.name, "stop": bool(r.stop), "finished": r.finished_at is not None, "decisions": list(r.decisions),
             "actions": [{"name": a.action_name, "finished": a.finished_at is not None, "llm": [c.task for c in a.llm_calls]} for a in r.executed_actions]} for r in rails]


_CONFIRMS = {"n": 0}


def run_impl(case):
    """One LLMRails per structural configuration serves many cases (building one costs more than a case).  A case that FAILS the
    documented table is therefore run once more on a freshly built LLMRails: the observation reported is the fresh one, so that
    a replay (fresh process) sees what the check saw.  If the failure does not come back, it needed what EARLIER cases left
    behind in that LLMRails / runtime (state that survives across conversations): reported through `compare` (a broken tie, the
    search then looks for a self-contained sequence - the `seq` cases on separate conversations are such sequences), never
    silently dropped."""
    obs = _run_impl(case)
    if case["kind"] in ("e2e", "seq", "interp") and _CONFIRMS["n"] < 60:
        d = oracle(case, obs)
        if d:
            _CONFIRMS["n"] += 1
            po._CACHE.clear()
            ci._CACHE.clear()
            obs2 = _run_impl(case)
            if oracle(case, obs2) is None:
                obs2["_stale_state"] = d
            return obs2
    return obs


class _CapWatch:
    """Since /repo e77d9e1 the 100-new-events safety valve of `RuntimeV1_0.generate_events` ends the turn with the internal-error
    events and logs a warning instead of raising 'Too many events.': the valve is observed through that warning."""

    def __init__(self):
        import logging

        self.hit = False
        outer = self

        class H(logging.Handler):
            def emit(self, record):
                try:
                    if "Too many events" in record.getMessage():
                        outer.hit = True
                except Exception:  # noqa
                    pass

        self.h = H(level=logging.WARNING)
        self.lg = logging.getLogger("nemoguardrails.colang.v1_0.runtime.runtime")

    def __enter__(self):
        self.lg.addHandler(self.h)
        return self

    def __exit__(self, *a):
        self.lg.removeHandler(self.h)


def _run_impl(case):
    with _CapWatch() as w:
        obs = _run_impl0(case)
    if w.hit and isinstance(obs, dict):
        obs["event_cap_hit"] = True
    return obs


def _run_impl0(case):
    if case["kind"] == "interp":
        return ci.run(case)
    if case["kind"] == "log":
        from nemoguardrails.logging.processing_log import compute_generation_log

        try:
            g = compute_generation_log(concrete_plog(case["log"]))
            return {"res": "ok", "rails": rails_obs(g.activated_rails), "llm_calls": g.stats.llm_calls_count}
        except (AttributeError, IndexError) as e:
            return {"res": type(e).__name__}
        except Exception as e:  # noqa
            return {"res": "Other:" + type(e).__name__, "msg": str(e)[:200]}
    cfg = case["cfg"]
    if case["kind"] == "seq":
        return {"per_call": po.run_session(cfg, case["calls"], case["via"], ctx=case.get("ctx", "task-per-call"), share=bool(case.get("share")))}
    obs = po.run_turn_full(cfg, case["opts"], case["user"], case["bot"], case["llm_text"], no_options=case.get("no_options", False), form=case.get("form", "list"))
    return obs


# ----------------------------------------------------------------------------- model

def selection(c):
    return set(CATS) if (c.get("no_options") or c["opts"] is None) else set(c["opts"])


def user_after_input(cfg, c):
    """`$user_message` once the input rails are through (documented chain); None when they end the turn"""
    if "input" in selection(c) and cfg["input"]:
        res, _ = chain(cfg["input"], c["user"])
        return res[1] if res[0] == "ok" else None
    return c["user"]


def expected_block(cfg, c):
    """(category, index, text the rail was shown, `$user_message` at that moment) of the rail that ends the call `c` with a refusal
    according to the documented chain (rails-only selections; None: nobody refuses / a fault / rails-exception mode)"""
    sel = selection(c)
    text = c["user"]
    if "input" in sel and cfg["input"]:
        res, seen = chain(cfg["input"], text)
        if res[0] == "blocked":
            return ("input", res[1], seen[-1], seen[-1])
        if res[0] != "ok":
            return None
        text = res[1]
    if "output" in sel and cfg["output"]:
        if "dialog" in sel:
            bot = c["llm_text"] if cfg.get("dialog", "general") in ("general", "llm") else None
        else:
            bot = c["bot"]
        if bot is not None:
            res, seen = chain(cfg["output"], bot)
            if res[0] == "blocked":
                return ("output", res[1], seen[-1], text)
    return None


def dialog_req(cfg, llm_text, c=None):
    """what the dialog rails answer (model side).  The text of a predefined message is what it SAYS in this call (its template
    variables replaced - harness-side rendering, `po.tpl_render`; the model's message texts are plain strings)"""
    d = cfg.get("dialog", "general")
    um = (user_after_input(cfg, c) if c is not None else None) or ""
    if d == "general":
        return {"kind": "general", "text": llm_text}
    if d == "predef":
        return {"kind": "intent", "flow": "greeting", "bot_intent": "express greeting", "predefined": True, "text": po.predef_text(cfg, um)}
    if d == "refuse":
        return {"kind": "intent", "flow": "greeting", "bot_intent": "refuse to respond", "predefined": True, "text": po.dialog_refusal(cfg, um)}
    return {"kind": "intent", "flow": "greeting", "bot_intent": "express greeting", "predefined": False, "text": llm_text}


def model_requests(case, obs):
    if case["kind"] == "interp":
        return [ci.request(case)]
    if case["kind"] == "log":
        return [{"m": "C16.genlog", "log": case["log"]}]
    cfg = case["cfg"]
    mcfg = {"input": cfg["input"], "output": cfg["output"], "retrieval": cfg["retrieval"], "exceptions": bool(cfg.get("exceptions")), "refusal": po.REFUSAL}
    if case["kind"] == "seq":
        n = len(obs["per_call"])
        reqs = [{"m": "C16.session", "cfg": mcfg, "calls": [{"opts": None if c.get("no_options") else (c["opts"] if c["opts"] is not None else list(CATS)), "user": c["user"], "bot": c["bot"],
                                                               "dialog": dialog_req(cfg, c["llm_text"], c)} for c in case["calls"][:n]]}]
        for o in obs["per_call"]:
            reqs.append({"m": "C16.genlog", "log": o.get("alog") or []})
        return reqs
    reqs = [{"m": "C16.turn", "cfg": mcfg,
             "opts": None if case.get("no_options") else (case["opts"] if case["opts"] is not None else list(CATS)), "user": case["user"], "bot": case["bot"], "dialog": dialog_req(cfg, case["llm_text"], case)}]
    if obs.get("alog") is not None:
        reqs.append({"m": "C16.genlog", "log": obs["alog"]})
    return reqs


def skeleton(alog, refusals=("refuse to respond",)):
    """what is compared between the model's log and the real one: everything but steps without a decision other than `stop`
    (the interpreter's attribution of such steps is not modelled) — after `denoise`.  A rail's OWN refusal intent
    (`bot refuse input 0`) is read as the refusal intent (the model's rails all say `bot refuse to respond`)."""
    out = []
    for e in po.denoise(alog):
        if e[0] == "step" and all(s == ["intent", "stop"] for s in e[2]):
            continue
        if e[0] == "step":
            e = ["step", e[1], [["intent", "refuse to respond"] if (s[0] == "intent" and s[1] in refusals) else s for s in e[2]]]
        out.append(e)
    return out


def _rails_key(rails, full):
    if full:
        return [[r["type"], r["name"], r["stop"], r["finished"], r["decisions"], [[a["name"], a["finished"], a["llm"]] for a in r["actions"]]] for r in rails]
    return [[r["type"], r["name"], r["stop"], [a["name"] for a in r["actions"]]] for r in rails]


def compare(case, obs, mouts):
    if obs.get("_stale_state"):
        return ("fails only after EARLIER cases were run on the same LLMRails (state that survives across conversations), passes on a "
                "freshly built one: " + obs["_stale_state"])
    if case["kind"] == "interp":
        return ci.compare(case, obs, mouts[0])
    m = mouts[0]
    if case["kind"] == "log":
        if m["res"] != obs["res"]:
            return f"compute_generation_log -> {obs['res']}, GenLog.compute -> {m['res']}"
        if m["res"] == "ok":
            if _rails_key(m["rails"], True) != _rails_key(obs["rails"], True):
                return f"activated rails differ: impl {json.dumps(_rails_key(obs['rails'], True))} model {json.dumps(_rails_key(m['rails'], True))}"
            if m["llm_calls"] != obs["llm_calls"]:
                return f"llm_calls_count impl {obs['llm_calls']} model {m['llm_calls']}"
        return None
    if case["kind"] == "seq":
        if m["res"] != "ok":
            return f"model: {m['res']}"
        for k, o in enumerate(obs["per_call"]):
            d = _compare_e2e(call_case(case, k), o, m["calls"][k], mouts[1 + k])
            if d:
                return f"call #{k} (via {case['via']}): {d}"
        return None
    return _compare_e2e(case, obs, m, mouts[1] if len(mouts) > 1 else None)


def call_case(case, k):
    c = case["calls"][k]
    return {"kind": "e2e", "cfg": case["cfg"], "opts": c["opts"], "no_options": bool(c.get("no_options")), "user": c["user"], "bot": c["bot"], "llm_text": c["llm_text"]}


def _compare_e2e(case, obs, m, g2):
    if capped(obs):
        return None
    if "exc" in obs:
        return f"generate raised {obs['exc']} (model: {m.get('reply')})"
    if m["res"] != "ok":
        return f"model: {m['res']}"
    # reply
    if obs.get("exception"):
        exp = {"exception": {"InputRailException": "input", "OutputRailException": "output", "RetrievalRailException": "retrieval"}.get(obs["exception"], obs["exception"])}
    else:
        exp = {"text": obs["response"]}
    cfg = case["cfg"]
    mreply = m["reply"]
    notice = (cfg.get("msgs") or {}).get("notice") is not None
    if cfg.get("msgs") is not None and m.get("blocker") and mreply == {"text": po.REFUSAL}:
        # the model's refusal is ONE plain text; what the blocking rail's predefined message(s) say in this call is rendered here
        # (documented chain -> values of the variables the rail sets; `po.blocked_utterances`)
        b = expected_block(cfg, case)
        if b is not None:
            mreply = {"text": "\n".join(po.blocked_utterances(cfg, *b))}
            if "" in po.blocked_utterances(cfg, *b):
                mreply = exp  # an utterance without any text: the reply is not compared (see the oracle)
    if mreply != exp:
        return f"reply: impl {exp}, model {mreply}"
    # trace: rail calls (category, index, text; text of retrieval rails not modelled) and LLM calls
    mcalls = [[s[1], s[2], (None if s[1] == "retrieval" else s[4])] for s in m["trace"] if s[0] == "rail"]
    icalls = [[c[0], c[1], (None if c[0] == "retrieval" else c[2])] for c in obs["calls"]]
    if mcalls != icalls:
        return f"rail calls: impl {icalls}, model {mcalls}"
    mllm = sum(1 for s in m["trace"] if s[0] == "llm")
    if mllm != obs["llm_calls"]:
        return f"LLM calls: impl {obs['llm_calls']}, model {mllm}"
    if case.get("no_options"):
        return None
    # processing log skeleton and generation log computed from the MODEL's log
    # (a blocking rail that utters a NOTICE before its refusal generates two bot messages; the model's rails utter one: for such a
    # turn the model's log is not compared - reply, rail calls, LLM calls above and the real log below are)
    two_utterances = notice and bool(m.get("blocker")) and not cfg.get("exceptions")
    refusals = po.refusal_intents(cfg)
    if not two_utterances and skeleton(m["log"]) != skeleton(obs["alog"], refusals):
        return f"processing-log skeleton differs: impl {json.dumps(skeleton(obs['alog'], refusals))} model {json.dumps(skeleton(m['log']))}"
    g = m["genlog"]
    if g["res"] != "ok":
        return f"GenLog.compute on the model's log: {g['res']}"
    if not two_utterances and _rails_key(g["rails"], False) != _rails_key(obs["rails"], False):
        return f"activated rails (from the model's log) differ: impl {_rails_key(obs['rails'], False)} model {_rails_key(g['rails'], False)}"
    # generation log computed by the model from the REAL processing log: everything
    if g2["res"] != "ok":
        return f"GenLog.compute on the real log: {g2['res']}"
    if _rails_key(g2["rails"], True) != _rails_key(obs["rails"], True):
        return f"activated rails (from the real log) differ: impl {json.dumps(_rails_key(obs['rails'], True))} model {json.dumps(_rails_key(g2['rails'], True))}"
    if g2["llm_calls"] != obs["log_llm_calls"]:
        return f"stats.llm_calls_count impl {obs['log_llm_calls']} model {g2['llm_calls']}"
    return None


# ----------------------------------------------------------------------------- oracle (documentation table)

def chain(rails, text):
    """documented behaviour of a category: ('ok', text') | ('blocked', i) | ('fault', i), plus the texts each rail saw."""
    seen = []
    for i, rules in enumerate(rails):
        seen.append(text)
        kind, new = po.apply_rail(rules, text)
        if kind == "reject":
            return ("blocked", i), seen
        if kind == "fault":
            return ("fault", i), seen
        if kind == "rewrite":
            text = new
    return ("ok", text), seen


def capped(obs):
    """`RuntimeV1_0.generate_events` stops a turn after more than 100 new events (configurations with many rails): older trees
    raise, the current one logs the warning "Too many events" (captured by `_CapWatch`: `obs["event_cap_hit"]`) and appends the
    internal-error utterance to whatever was said."""
    return obs.get("exc", "").startswith("Exception: Too many events") or bool(obs.get("event_cap_hit"))


def well_shaped(alog):
    """every rail start is followed by its own finish before the next start, except possibly the last one"""
    open_ = False
    for e in alog:
        if e[0] in ("in", "out"):
            if open_:
                return False
            open_ = True
        elif e[0] == "fin":
            if not open_:
                return False
            open_ = False
    return True


def oracle(case, obs):
    if case["kind"] == "interp":
        return ci.oracle(case, obs)
    if case["kind"] == "log":
        if obs["res"] != "ok" or not well_shaped(case["log"]):
            return None  # the property speaks about logs the pipeline produces
        starts = [(i, e) for i, e in enumerate(case["log"]) if e[0] in ("in", "out")]
        io = [r for r in obs["rails"] if r["type"] in ("input", "output")]
        names_expected = [[{"in": "input", "out": "output"}[e[0]], e[1]] for _, e in starts]
        relabelled = [n for n in names_expected if n[1] == "generate user intent"]
        if not relabelled and [[r["type"], r["name"]] for r in io] != names_expected:
            return f"log lists input/output rails {[[r['type'], r['name']] for r in io]} but the rails started were {names_expected}"
        if relabelled:
            return None
        for k, (i, e) in enumerate(starts):
            finished = any(x[0] == "fin" for x in case["log"][i + 1:]) if k == len(starts) - 1 else True
            if io[k]["stop"] != (not finished):
                return f"rail #{k} {io[k]['name']!r}: stop={io[k]['stop']} but it {'finished' if finished else 'never finished'}"
        if any(r["stop"] for r in obs["rails"] if r["type"] not in ("input", "output")):
            return "a dialog/generation rail is flagged stop"
        return None
    if case["kind"] == "seq":
        # the same documented table for every call of the conversation: an earlier call must not change a later one
        for k, o in enumerate(obs["per_call"]):
            d = _oracle_e2e(call_case(case, k), o)
            if d:
                where = "on separate conversations of one LLMRails" if case["via"] == "separate" else f"on one conversation (via {case['via']})"
                how = ("; all calls in one task" if case.get("ctx") == "one-task" else "") + ("; equal selections share ONE options object" if case.get("share") else "")
                prev = [("no options" if c.get("no_options") else c["opts"]) for c in case["calls"][:k]]
                return f"call #{k} of {len(case['calls'])} {where}{how}, after calls with options {prev}: {d}"
        return None
    return _oracle_e2e(case, obs)


def _oracle_e2e(case, obs):
    cfg = case["cfg"]
    sel = set(CATS) if (case.get("no_options") or case["opts"] is None) else set(case["opts"])
    if capped(obs):
        # the runtime's safety cap (> 100 events in one turn) is outside the model; counted in the tags.  It excuses LONG documented
        # runs only (a rail takes about eleven events): with few rails selected, 100 events mean that something ran again and again
        n_doc = sum(len(cfg[c]) for c in ("input", "output", "retrieval") if c in sel)
        if n_doc >= 5:
            return None
        return (f"the turn was cut off by the runtime's safety cap (more than 100 events) although only {n_doc} rail(s) are configured for the selected "
                f"categories {sorted(sel)}: input/output rails invoked {[c for c in obs.get('calls', []) if c[0] in ('input', 'output')][:8]}…")
    if "exc" in obs:
        return f"generate raised {obs['exc']}"
    # (1) only selected categories run
    for c in obs["calls"]:
        if c[0] not in sel:
            return f"{c[0]} rail {c[1]} ran although {sorted(sel)} were selected"
    if "dialog" not in sel and obs["llm_calls"] != 0:
        return f"{obs['llm_calls']} LLM call(s) although dialog rails are not selected"
    # (2) replies per the documented table
    blocked = None  # (category, index, 'blocked' | 'fault')
    said = None  # what the blocking rail says: the texts of its predefined message(s)
    expected_calls = []
    text = case["user"]
    if "input" in sel and cfg["input"]:
        res, seen = chain(cfg["input"], text)
        expected_calls += [["input", i, t] for i, t in enumerate(seen)]
        if res[0] == "ok":
            text = res[1]
        else:
            blocked = ("input", res[1], res[0])
            said = po.blocked_utterances(cfg, "input", res[1], seen[-1], seen[-1])
    reply = None
    if blocked is None:
        if "dialog" in sel:
            d = cfg.get("dialog", "general")
            # predefined messages (incl. the refusal a dialog flow answers with) are not shown to the output rails
            # (a predefined message says its text with the template variables replaced by their current values)
            bot, checked = (po.predef_text(cfg, text), False) if d == "predef" else (po.dialog_refusal(cfg, text), False) if d == "refuse" else (case["llm_text"], True)
            want_llm = {"general": 1, "predef": 1, "llm": 2, "refuse": 1}[d]
            if obs["llm_calls"] != want_llm:
                return f"dialog rails selected: expected {want_llm} LLM call(s), saw {obs['llm_calls']}"
        elif "output" in sel:
            bot, checked = case["bot"], True
        else:
            bot, checked = None, False
            reply = text  # neither dialog nor output: the (possibly altered) user text comes back
        if reply is None:
            if checked and "output" in sel and cfg["output"]:
                res, seen = chain(cfg["output"], bot)
                expected_calls += [["output", i, t] for i, t in enumerate(seen)]
                if res[0] == "ok":
                    reply = res[1]
                else:
                    blocked = ("output", res[1], res[0])
                    said = po.blocked_utterances(cfg, "output", res[1], seen[-1], text)
            else:
                reply = bot
    if blocked is not None:
        if blocked[2] == "fault":
            reply = po.INTERNAL_ERROR
        elif cfg.get("exceptions"):
            reply = None
        else:
            # the refusal: the predefined message(s) of the blocking rail, whatever they interpolate - and nothing checks it again
            reply = "\n".join(said)
    if blocked is not None and blocked[2] == "blocked" and cfg.get("exceptions"):
        want_exc = {"input": "InputRailException", "output": "OutputRailException"}[blocked[0]]
        if obs.get("exception") != want_exc:
            return f"blocked by {blocked[0]} rail {blocked[1]} in rails-exception mode: expected {want_exc}, got {obs.get('exception')} / {obs.get('response')!r}"
    elif said is not None and blocked[2] == "blocked" and "" in said:
        pass  # a predefined message that says NOTHING for the current values (only variables, all empty): what is returned for an empty utterance is not stated
    elif obs.get("exception") or obs["response"] != reply:
        return f"documented reply {reply!r}, got {obs.get('response')!r} {obs.get('exception') or ''}".strip()
    io_calls = [c for c in obs["calls"] if c[0] in ("input", "output")]
    if io_calls != expected_calls:
        return f"input/output rails invoked {io_calls}, documented {expected_calls}"
    # (2b) "exactly the selected categories": a selected category with configured rails is not left out.  For retrieval rails
    # this is asserted where the documentation places them: before a bot message is generated for the bot intent a dialog
    # flow decided on (what happens around refusals of blocked turns is not documented and not asserted).
    if "retrieval" in sel and "dialog" in sel and cfg["retrieval"] and cfg.get("dialog") in ("predef", "llm", "refuse") and not (blocked and blocked[0] == "input"):
        first = []
        for c in obs["calls"]:
            if c[0] == "retrieval" and c[1] not in first:
                first.append(c[1])
        if first != list(range(len(cfg["retrieval"]))):
            return f"retrieval rails are selected ({sorted(sel)}) and a bot message was generated for a dialog decision, but the retrieval rails invoked were {first} of {len(cfg['retrieval'])} configured"
    # (3) the log lists the rails that actually ran, stop on exactly the blocker
    if not case.get("no_options"):
        io = [[r["type"], r["name"], r["stop"]] for r in obs["rails"] if r["type"] in ("input", "output")]
        want = [[c[0], po.rail_name(c[0], c[1]), bool(blocked and blocked[0] == c[0] and blocked[1] == c[1])] for c in io_calls]
        if io != want:
            return f"log.activated_rails (input/output) {io}, but the rails that ran were {want}"
        others = [r["name"] for r in obs["rails"] if r["type"] not in ("input", "output") and r["stop"]]
        if others:
            return f"non input/output rails flagged stop: {others}"
    return None


def _failure_class(d):
    for needle, cls in (("generate raised", "raised"), ("ran although", "unselected-category-ran"), ("LLM call(s) although", "llm-without-dialog"),
                        ("dialog rails selected: expected", "llm-count"), ("documented reply", "reply"), ("rails-exception mode", "reply"),
                        ("input/output rails invoked", "rails-invoked"), ("retrieval rails are selected", "selected-retrieval-missing"),
                        ("log.activated_rails", "log"), ("flagged stop", "log"), ("safety cap", "event-cap-with-few-rails")):
        if needle in d:
            return cls
    return "other"


def signature(case, obs, msg):
    """Signature of a recorded finding if the failure lies in its region; otherwise, for a sequence, a description of the
    failure (first or later call, kind of deviation).  The description matches no recorded finding; it only keeps the
    minimisation on the SAME failure: the smaller candidates are evaluated one after the other in one process, and a
    shortened sequence whose FIRST call fails there (because of what ran before it) is not a smaller witness of a failure
    of a LATER call."""
    if case.get("kind") == "interp":
        d = ci.oracle(case, obs)
        return "reply-text-is-control-script" if d == f"interp: reply '', documented {po.CONTROL_SCRIPT!r}" else None
    s = _known_signature(case, obs, msg)
    if s is None and case.get("kind") == "seq":
        for k, o in enumerate(obs.get("per_call", [])):
            d = _oracle_e2e(call_case(case, k), o)
            if d:
                return f"seq:{'first' if k == 0 else 'later'}-call:{_failure_class(d)}"
    return s


def _known_signature(case, obs, msg):
    """Structural signatures of recorded findings.

    `state-loses-earlier-calls`: a conversation driven through `generate(..., state=...)` whose FIRST deviating call is
    the third or a later one, i.e. a call whose carried state was produced by a call that was itself given a state (that
    state holds only the events of that one call).  A deviation in the first or second call never gets this signature."""
    # `reply-text-is-control-script`: the FIRST deviation is exactly "the documented reply is the in-band control script of the
    # 1.0 response assembly and the reply came back empty" (any other deviation of such a case keeps no signature)
    ctl = f"documented reply {po.CONTROL_SCRIPT!r}, got ''"
    if case.get("kind") == "e2e" and "exc" not in obs and _oracle_e2e(case, obs) == ctl:
        return "reply-text-is-control-script"
    if case.get("kind") == "seq":
        for k, o in enumerate(obs.get("per_call", [])):
            d = None if "exc" in o else _oracle_e2e(call_case(case, k), o)
            if d or "exc" in o:
                if d == ctl:
                    return "reply-text-is-control-script"
                break
    if case.get("kind") == "seq" and case.get("via") == "state":
        for k, o in enumerate(obs.get("per_call", [])):
            if _oracle_e2e(call_case(case, k), o) or "exc" in o:
                return "state-loses-earlier-calls" if k >= 2 else None
        m = __import__("re").search(r"call #(\d+)", msg or "")
        if m and int(m.group(1)) >= 2:
            return "state-loses-earlier-calls"
    if case.get("kind") == "seq" and case.get("via") == "history":
        # `history-hit-stale-bot-message`: the first deviating call repeats the options AND the supplied bot message of an
        # earlier call (then its context message is part of the cached prefix and is not replayed)
        calls = case["calls"]
        for k, o in enumerate(obs.get("per_call", [])):
            if _oracle_e2e(call_case(case, k), o) or "exc" in o:
                c = calls[k]
                if k >= 1 and c["bot"] is not None and c["opts"] is not None and "output" in c["opts"] and "dialog" not in c["opts"] and \
                        any(calls[j]["opts"] == c["opts"] and calls[j]["bot"] == c["bot"] for j in range(k)):
                    return "history-hit-stale-bot-message"
                return None
    return None


def nontrivial(case, obs):
    if case["kind"] == "interp":
        return bool(obs.get("calls")) or obs.get("llm_calls", 0) > 0
    if case["kind"] == "log":
        return any(e[0] in ("in", "out") for e in case["log"])
    if case["kind"] == "seq":
        return len(obs["per_call"]) >= 2 and any(o.get("calls") or o.get("llm_calls", 0) > 0 for o in obs["per_call"])
    return not capped(obs) and (bool(obs.get("calls")) or obs.get("llm_calls", 0) > 0)


def msg_tags(cfg, calls):
    """coverage of the predefined-message dimension: which messages are templates, in which syntax, and whether a rendered
    refusal differs from its template / mentions a trigger word of an output rail"""
    m = cfg.get("msgs")
    t = []
    if m is None and cfg.get("predef_parts") is None:
        return ["msgs:library-static"]
    tpls = []
    if m is not None:
        tpls = [x for x in [m.get("refusal"), m.get("notice")] + list((m.get("own") or {}).get("input") or []) + list((m.get("own") or {}).get("output") or []) if x is not None]
        t.append("msgs:refusal-" + ("library" if m.get("refusal") is None else "template" if po.tpl_is_templated(m["refusal"]) else "custom-static"))
        if any(x is not None for cat in ("input", "output") for x in (m.get("own") or {}).get(cat) or []):
            t.append("msgs:rail-own-refusal")
        if m.get("notice") is not None:
            t.append("msgs:notice-before-refusal")
    if cfg.get("predef_parts") is not None:
        tpls.append(cfg["predef_parts"])
        t.append("msgs:dialog-predefined-template")
    for x in tpls:
        for p_ in x:
            if p_[0] == "var":
                t += ["tpl-syntax:" + p_[2], "tpl-var:" + p_[1]]
    for c in calls:
        b = expected_block(cfg, c) if m is not None and not cfg.get("exceptions") else None
        if b is not None:
            said = po.blocked_utterances(cfg, *b)
            t.append("blocked-with-msgs:" + b[0])
            if "" in said:
                t.append("predefined-message-says-nothing")
            if "output" in selection(c) and cfg["output"]:
                t.append("blocked-with-msgs-output-selected")
                if any(chain(cfg["output"], u)[0][0] != "ok" or chain(cfg["output"], u)[0][1] != u for u in said):
                    t.append("rendered-refusal-would-trip-an-output-rail")
    return sorted(set(t))


def tags(case, obs):
    if case["kind"] == "interp":
        return ci.tags(case, obs)
    if case["kind"] == "log":
        t = ["kind:log", "shape:" + case["shape"], "res:" + obs["res"]]
        if obs["res"] == "ok":
            t.append("stops:%d" % sum(1 for r in obs["rails"] if r["stop"]))
            t.append("rails:%d" % min(len(obs["rails"]), 6))
        return t
    if case["kind"] == "seq":
        t = ["kind:seq", "via:" + case["via"], "seq-len:%d" % len(case["calls"]), "seq-ran:%d" % len(obs["per_call"]), "ctx:" + case.get("ctx", "task-per-call")]
        if case.get("share"):
            keys = [(c.get("form", "list"), json.dumps(c["opts"])) for c in case["calls"] if not c.get("no_options")]
            t.append("options-object-reused" if len(set(keys)) < len(keys) else "share-without-repeat")
        if any(c.get("no_options") for c in case["calls"][1:]):
            t.append("call-without-options-after-calls-with")
        if case.get("derived"):
            t.append("texts-derived-from-earlier-calls")
        us = [c["user"] for c in case["calls"]]
        if len(set(us)) < len(us):
            t.append("same-user-text-again")
        for c in case["calls"]:
            t += ["seq-" + x for x in po.text_classes(c["user"]) + po.text_classes(c["bot"])]
            if not c.get("no_options"):
                t.append("seq-form:" + c.get("form", "list"))
            if c["bot"] is None and c["opts"] is not None and "output" in c["opts"] and "dialog" not in c["opts"]:
                t.append("no-bot-message-input-blocks")
        for k, o in enumerate(obs["per_call"]):
            if k > 0 and o.get("response") == po.REFUSAL and any(r["stop"] for r in o.get("rails", [])):
                t.append("later-call-blocked")
            if "exc" in o:
                t.append("seq-exc")
        t += msg_tags(case["cfg"], [call_case(case, k) for k in range(len(obs["per_call"]))])
        prev_block_unselected_out = any(("output" not in (c["opts"] if c["opts"] is not None else CATS)) and obs["per_call"][k].get("response") == po.REFUSAL
                                        for k, c in enumerate(case["calls"][: len(obs["per_call"]) - 1]))
        if prev_block_unselected_out:
            t.append("refusal-with-output-deselected-then-more-calls")
        return t
    cfg = case["cfg"]
    sel = "noopt" if case.get("no_options") else ("default" if case["opts"] is None else "+".join(c[0] for c in case["opts"]) or "none")
    if capped(obs):
        return ["kind:e2e", "event-cap-hit"]
    t = ["kind:e2e", "opts:" + sel, "dialog:" + cfg["dialog"], "def:" + cfg["rail_def"], "text-from:" + cfg.get("text_from", "param"), "n_in:%d" % len(cfg["input"]), "n_out:%d" % len(cfg["output"]), "form:" + case.get("form", "list")]
    rails_only = case["opts"] is not None and not case.get("no_options") and "dialog" not in case["opts"]
    t += [("user-" if rails_only else "user-dialog-") + x for x in po.text_classes(case["user"])] + ["bot-" + x for x in po.text_classes(case["bot"])]
    if rails_only and obs.get("response") is not None and obs["response"] not in (po.REFUSAL, po.INTERNAL_ERROR):
        t += ["reply-" + x for x in po.text_classes(obs["response"])]
    if cfg["dialog"] == "refuse" and obs.get("response") == po.REFUSAL and not any(r["stop"] for r in obs.get("rails", [])) and obs.get("llm_calls"):
        t.append("dialog-refusal-no-rail-blocked")
    if cfg.get("exceptions"):
        t.append("exceptions-mode")
    t += msg_tags(cfg, [case])
    eb = expected_block(cfg, case)
    if obs.get("exception"):
        t.append("reply:exception")
    elif obs.get("response") == po.REFUSAL or (eb is not None and obs.get("response") == "\n".join(po.blocked_utterances(cfg, *eb))):
        t.append("reply:refusal")
    elif obs.get("response") == po.INTERNAL_ERROR:
        t.append("reply:internal-error")
    else:
        t.append("reply:text")
    stops = [r["type"] for r in obs.get("rails", []) if r["stop"]]
    t.append("stop:" + (stops[0] if stops else "none"))
    t.append("llm:%d" % obs.get("llm_calls", 0))
    if any(c[0] == "retrieval" for c in obs.get("calls", [])):
        t.append("retrieval-ran")
    return t


def in_domain(case):
    """ASSUMPTIONS: where output rails are selected without dialog rails a bot message is supplied, unless the input rails
    end the turn before it is needed (a smaller case must not leave the region the property speaks about)."""
    if case["kind"] == "log":
        return True
    calls = case["calls"] if case["kind"] == "seq" else [case]
    for c in calls:
        o = c["opts"]
        if not c.get("no_options") and o is not None and "output" in o and "dialog" not in o and c["bot"] is None and not input_blocks(case["cfg"], o, c["user"]):
            return False
    return True


def shrink(case):
    if case["kind"] == "interp":
        yield from ci.shrink(case)
        return
    for c in _shrink(case):
        if in_domain(c):
            yield c


def _shrink(case):
    if case["kind"] == "log":
        ev = case["log"]
        for i in range(len(ev)):
            yield dict(case, log=ev[:i] + ev[i + 1:])
        return
    cfg = case["cfg"]
    if cfg.get("msgs") is not None:
        # predefined messages back to the library's static ones, one at a time
        m = cfg["msgs"]
        yield dict(case, cfg={k: v for k, v in cfg.items() if k not in ("msgs", "reasons")})
        if m.get("notice") is not None:
            yield dict(case, cfg=dict(cfg, msgs=dict(m, notice=None)))
        if any(x is not None for cat in ("input", "output") for x in (m.get("own") or {}).get(cat) or []):
            yield dict(case, cfg=dict(cfg, msgs=dict(m, own={"input": [], "output": []})))
        if m.get("refusal") is not None and len(m["refusal"]) > 1:
            for part in m["refusal"]:
                if part[0] == "var":
                    yield dict(case, cfg=dict(cfg, msgs=dict(m, refusal=[part])))
        if cfg.get("reasons") and any(r not in ("r", "") for cat in ("input", "output") for r in cfg["reasons"].get(cat, [])):
            yield dict(case, cfg=dict(cfg, reasons={cat: ["r" for _ in cfg["reasons"].get(cat, [])] for cat in ("input", "output")}))
    if cfg.get("predef_parts") is not None:
        yield dict(case, cfg={k: v for k, v in cfg.items() if k != "predef_parts"})
    if case["kind"] == "seq":
        calls = case["calls"]
        for i in range(len(calls)):
            # calls on SEPARATE conversations can only influence each other through process-wide state; the candidates are
            # evaluated one after the other in one process, so a shortened sequence could fail only because of the candidates
            # run before it - such a witness keeps all its calls (it must fail when replayed in a fresh process)
            if len(calls) > 1 and case["via"] != "separate":
                yield dict(case, calls=calls[:i] + calls[i + 1:])
        for k in ("share", "ctx"):  # back to the plain way of calling
            if k in case:
                yield {a: b for a, b in case.items() if a != k}
        if any("form" in c for c in calls):
            yield dict(case, calls=[{a: b for a, b in c.items() if a != "form"} for c in calls])
        for i, c in enumerate(calls):
            for k in ("user", "bot", "llm_text"):
                if c.get(k) and len(c[k]) > 2 and " " in c[k]:
                    yield dict(case, calls=calls[:i] + [dict(c, **{k: c[k].split(" ")[0] or "q"})] + calls[i + 1:])
    for cat in ("input", "output", "retrieval"):
        for i in range(len(cfg[cat])):
            c2 = dict(cfg, **{cat: cfg[cat][:i] + cfg[cat][i + 1:]})
            if cat != "retrieval":
                if cfg.get("reasons") and len(cfg["reasons"].get(cat, [])) > i:
                    c2["reasons"] = dict(cfg["reasons"], **{cat: cfg["reasons"][cat][:i] + cfg["reasons"][cat][i + 1:]})
                own = ((cfg.get("msgs") or {}).get("own") or {}).get(cat) or []
                if len(own) > i:
                    c2["msgs"] = dict(cfg["msgs"], own=dict(cfg["msgs"]["own"], **{cat: own[:i] + own[i + 1:]}))
            yield dict(case, cfg=c2)
        for i, rules in enumerate(cfg[cat]):
            for j in range(len(rules)):
                yield dict(case, cfg=dict(cfg, **{cat: cfg[cat][:i] + [rules[:j] + rules[j + 1:]] + cfg[cat][i + 1:]}))
    if case["kind"] == "seq":
        return
    if "form" in case:
        yield {a: b for a, b in case.items() if a != "form"}
    for k in ("user", "bot", "llm_text"):
        if case.get(k) and len(case[k]) > 2:
            yield dict(case, **{k: case[k].split(" ")[0] or "q"})
            if len(case[k]) > 8:
                yield dict(case, **{k: case[k][: len(case[k]) // 2]})
