"""C09 — after each event the interpreter is quiescent and its dispatch index is exact.

Layers (DESIGN §7 C09, design_notes/C09.md):
  1. Lean index model + T1 theorems over operation sequences (Models/CoreIndex.lean, Theorems/C09.lean)
  2. ORACLE on the real `State` after every `run_to_completion` (this decides the property on the code):
     queue empty; from-scratch scan == event_matching_heads (multisets) and the reverse map is its inverse; every
     active head of every listening instance parked on match / wait-for-heads; done instances hold no head; no
     instance left STOPPING; every referenced flow / action uid exists; every index entry is the (flow uid, head uid) tuple
     the interpreter itself adds and removes.  DURING the event (worklist tie): at every boundary of the loops of
     `run_to_completion` (recorded by harness/impl/corevm.py: each call / return of `_advance_head_front` from
     run_to_completion, each call of `_resolve_action_conflicts`) the invariant `PendingCovers` — every non-INACTIVE head of a
     listening instance that is neither on a match nor on a wait-for-heads element is in the pending list — and, where the
     actionable heads are resolved, an empty internal queue (`check_loops`).  The recorded worklists stay in the observation
     (`steps[i]["loops"]`) for a comparison with the model's pending lists.
  3. record / replay tie: the primitive index operations the real interpreter performed (recorded by
     harness/impl/corevm.py) are replayed in the Lean model; the model's index must equal the real one after every
     external event and every guard of the model must hold on the recorded stream.
  4. CoreVM correspondence (whole-interpreter model) on the program fragment it covers.
  5. reference matches (phase 5): every real registration of a head on `match $ref.M()` / `$e.action.M()` ... is re-computed by
     Models/RefName.lean::nameOf from the referent observed at that moment (driver op C09.refname) — `compare_refnames`; the
     oracle's scan takes the waited name from `get_event_from_element` evaluated on the CURRENT context.
  6. object-by-NAME matches (wave 6): every real registration of a head on `match some_flow.M()` / `match SomeAction.M()` is
     re-computed by Models/RefName.lean::nameOfSpec (cases 2 and 3 of the name function) — same driver op, same comparison.
"""
import json
import random
import signal

from ..impl import corevm as cv
from ..impl import corevm_gen as gen
from ..impl import corevm_namegen as namegen
from ..impl import corevm_refgen as refgen
from ..impl import valjson as vj
from ..translate import corevm as trvm

PROPERTY = "C09"
THEOREM_MODULE = "NemoVerif.Theorems.C09"
SERIAL = False
RULE = ("program: 1-5 generated Colang 2.x flows (match/send/start/await, and/or groups, when/or when/else, if/else, while, "
        "activate, references, return/abort, shared-context children) or the shipped core.co/guardrails.co with stub rails; "
        "history: random external events (plain events of the program's alphabet, Started/Finished events of actions the "
        "program started, state save/restore, clock jumps) of length <=12 quick / <=40 thorough, exhaustive over <=3 events "
        "x length <=5 for small programs; several tie-break seeds; extra shapes: main flow not kept alive (restarted, stays WAITING), "
        "histories dense in clock jumps / save-restore round trips, observer flows (flow-object events of flows started by somebody "
        "else inside `when` conditions and groups), control events addressed through a flow reference (`send $ref.Stop()`, "
        "StopFlow / FinishFlow by flow_instance_uid), `deactivate`; ONE reference match statement reached several times with references of different kinds (harness/impl/corevm_refgen.py: "
        "generic helper flows over a `$ref` parameter used with actions of two types and flows, loops re-binding one variable, activated watcher flows "
        "waiting on `$e.action.Finished()` / `$e.flow.Finished()` that restart, parametrised flows, every member of the event-name maps; outgoing events echoed as input); "
        "observer flows (harness/impl/corevm_namegen.py): every (flow by name / action by name / flow reference / action reference / bare event) x (every member of "
        "FlowState._event_name_map and Action._event_name_map, plus members outside the maps) parked as match / group / when condition / in a loop / in an activated flow, "
        "with a second flow that starts / awaits / stops / finishes / pauses the named flow or action (by name, by instance uid, through a reference). non-trivial = at least one event moved a head that was "
        "parked (index changed) AND the program has >=2 flow instances or a fork; distinct = distinct (program, history, seed).")
TRUSTED_BASE = [
    "recorder harness/impl/corevm.py (monkey-patched setters / dict wrapper; appends only) and the pattern grouping `group_ops`",
    "Lean driver Drive/C09.lean (JSON codec) ; the repo's own parser + expand_elements produce the programs both sides run",
    "oracle harness/props/C09.py::oracle (from-scratch scan written from the property statement; the name a parked match waits for is "
    "taken from get_event_from_element on the current context, the function the dispatcher compares incoming events with)",
    "recorder wrapper of _add_head_to_event_matching_structures (referent class / type as seen at the registration; for an object given by name: "
    "spec type, name, member names, whether the name is a key of state.flow_configs; appends only)",
]
ASSUMPTIONS = [
    "uuid4 uids are fresh and head uids have fixed length (reverse-map key flow_uid+head_uid modelled as a pair)",
    "the event name of a parked match element does not change while the head is parked (NoRefReassignWhileParked); the oracle "
    "recomputes the name on every observation and reports when it differs (index-name-stale: changed since a correct registration at "
    "the current position; index-name-wrong-at-registration: never was the element's name)",
    "hand-modelled: _flow_head_changed, _add/_remove_head_*_event_matching_structures, FlowHead.position/status setters, "
    "every write to FlowState.heads / FlowState.status in statemachine.py (slide, _abort_flow, _finish_flow, add_new_flow_instance, _clean_up_state)",
]
EXHAUSTIVE = {"quick": False, "thorough": True}


_NONTERMINATING = {}


class CaseTimeout(BaseException):
    """not an `Exception`: the interpreter's own `except Exception` in `_advance_head_front` must not swallow it"""


def _alarm(signum, frame):
    raise CaseTimeout("case exceeded its time budget")


def worker_init():
    import logging

    logging.disable(logging.CRITICAL)
    cv.install()
    try:
        signal.signal(signal.SIGALRM, _alarm)
    except Exception:  # noqa
        pass


MODELLED = {
    "nemoguardrails/colang/v2_x/runtime/statemachine.py": [
        "initialize_state", "create_flow_instance", "add_new_flow_instance", "_create_event_reference", "run_to_completion", "_clean_up_state",
        "_process_internal_events_without_default_matchers", "_get_reference_activated_flow_instance", "_get_all_head_candidates",
        "_handle_event_matching", "_resolve_action_conflicts", "_advance_head_front", "slide", "_start_flow", "_abort_flow", "_finish_flow",
        "_flow_head_changed", "_add_head_to_event_matching_structures", "_remove_head_from_event_matching_structures",
        "_update_action_status_by_event", "_compute_event_matching_score", "get_event_name_from_element", "get_event_from_element",
        "_generate_action_event_from_actionable_element", "create_umim_event", "_generate_umim_event", "_get_eval_context",
        "_is_reference_activated_flow", "_is_child_activated_flow", "is_listening_flow", "is_active_flow", "is_inactive_flow", "_is_done_flow"],
}


def translate():
    """Constants of the matcher (shared with C04: InternalEvents.ALL, the argument filter) are regenerated; the hand-modelled
    interpreter functions are fingerprinted (a changed fingerprint is recorded in the evidence, it does not fail by itself)."""
    from ..translate import c04 as tr04
    from ..translate import util

    info = {"c04": tr04.run()}
    fps = {}
    for rel, names in MODELLED.items():
        tree = util.parse(rel)
        for n in names:
            fps[n] = util.fingerprint(util.find_def(tree, n))
    fl = util.parse("nemoguardrails/colang/v2_x/runtime/flows.py")
    for cls, names in (("FlowHead", ["position", "status", "get_child_head_uids"]), ("FlowState", ["status", "active_heads", "get_event", "start_event", "finished_event", "_create_out_event"]),
                       ("Action", ["process_event", "get_event", "from_event"])):
        c = util.find_def(fl, cls)
        import ast as _ast

        for node in c.body:
            if isinstance(node, (_ast.FunctionDef,)) and node.name in names:
                fps[cls + "." + node.name + ":" + str(node.lineno)] = util.fingerprint(node)
    info["fingerprints"] = fps
    return info


def static_tie():
    """Facts about the parser output that the guards of the model rely on."""
    cv.install()
    problems = []
    probs = gen.static_facts()
    problems.extend(probs)
    return problems


def _history_x(rng, n):
    """History with many clock jumps (state clean-up of instances older than 5 s) and save/restore round trips in the
    MIDDLE of the history (the base generator has ~3 % of either per item): old parked / waiting / done instances meet
    `_clean_up_state`, and the restored state is driven further with non-main flows parked."""
    h = []
    for _ in range(n):
        x = rng.random()
        if x < 0.18:
            h.append(["clock", rng.choice([1, 6, 6, 20])])
        elif x < 0.30:
            h.append(["reload"])
        else:
            h.extend(gen.history(rng, 1))
    return h


class _GX(gen.G):
    """Base program generator, except that the conditions of `when` / `or when` (the base generator builds them without the
    flow index) may use what a top-level `match` may — in particular flow-object events `fx.Started()/.Finished()/.Failed()`
    of flows that SOMEBODY ELSE started — and that such events are frequent; plus `send $ref.Stop()`, StopFlow / FinishFlow by
    `flow_instance_uid`, and `deactivate`. A `when` condition is evaluated inside a scope:
    a FlowStarted event matched there registers the (foreign) flow in the scope of the matching flow, which stays open while
    the rest of an `and` group is still waiting."""

    _fi = None

    def stmt(self, fi, depth, in_loop=False):
        self._fi = fi
        r = self.rng
        # control events addressed to ONE flow instance through a reference (`start fx as $f` ... `send $f.Stop()`): the
        # by-uid branches of StopFlow / FinishFlow (the base generator addresses flows by name only)
        frefs = [v for v in self.pending_refs if v.startswith("f")]
        if frefs and r.random() < 0.2:
            v = r.choice(frefs)
            self.feats.add("stop-by-ref")
            return ["raw", r.choice([f"send ${v}.Stop()", f"send ${v}.Stop()", f"send StopFlow(flow_instance_uid=${v}.uid)",
                                     f"send FinishFlow(flow_instance_uid=${v}.uid)"])]
        if not frefs and r.random() < 0.08:
            j = self.callee(fi)
            if j is not None:
                name, args = self.flow_call(j)
                ref = self.var("f")
                self.pending_refs.append(ref)
                self.feats.add("start-flow")
                return ["start_flow", name, args, ref]
        if r.random() < 0.03:
            j = self.callee(fi)
            if j is not None:
                self.feats.add("deactivate")
                return ["raw", "deactivate " + self.flows_meta[j]["name"]]
        s = super().stmt(fi, depth, in_loop)
        self._fi = fi
        return s

    def match_group(self, depth=2, fi=None):
        r = self.rng
        if fi is None:
            fi = self._fi
        if fi is not None and (depth <= 0 or r.random() < 0.5) and r.random() < 0.3:
            j = self.callee(fi)
            if j is not None:
                self.feats.add("match-flow-event")
                return ["objev", self.flows_meta[j]["name"], r.choice(["Started", "Started", "Finished", "Failed"]), []]
        return super().match_group(depth, fi)

    def program(self):
        """Often with an *observer*: a flow Y that waits, inside a `when` condition, for the start (and something else) of a
        flow X which the main flow starts later on — Y parks first, X starts while Y's scope is open."""
        prog = super().program()
        r = self.rng
        n = len(prog["flows"])
        if n >= 3 and r.random() < 0.75:
            y = r.randrange(1, n - 1)
            x = r.randrange(y + 1, n)
            xname = self.flows_meta[x]["name"]
            cond = ["objev", xname, r.choice(["Started", "Started", "Started", "Finished"]), []]
            if r.random() < 0.8:
                cond = [r.choice(["and", "and", "and", "or"]), cond, self.ev()]
            cases = [[cond, [["send", r.choice(OUTS_), []]]]]
            if r.random() < 0.5:
                cases.append([self.ev(), [["send", r.choice(OUTS_), []]]])
            prog["flows"][y]["body"].insert(0, ["when", cases, None])
            yn, yargs = self.flow_call(y)
            xn, xargs = self.flow_call(x)
            between = [["match", self.ev()]] if r.random() < 0.3 else []
            prog["flows"][0]["body"][0:0] = [["start_flow", yn, yargs, None]] + between + [["start_flow", xn, xargs, None]]
            self.feats.add("observer")
        return prog


OUTS_ = gen.OUTS


def _extra_cases(rng, tier):
    """Shapes the base generator (harness/impl/corevm_gen.py) does not reach — added AFTER the base cases, with the same rng,
    so the base distribution is unchanged:
      * `main-ends`: the main flow is NOT kept alive by a trailing `match Never()`: it finishes, is restarted by
        `_finish_flow` and stays a WAITING instance (head at position 0, registered under StartFlow) for the rest of the
        history — the only long-lived WAITING instances there are; clock jumps follow, so the clean-up sees them;
      * `clocky`: ordinary programs under histories dense in clock jumps and save/restore round trips;
      * `when-objev`: programs of `_GX` (flow-object events of foreign flows inside `when` conditions and groups), same histories."""
    quick = tier == "quick"
    hmax = 12 if quick else 40
    out = []
    for i in range(60 if quick else 600):
        g = gen.G(rng, rng.choice([1, 2, 2, 3, 3, 4]), rng.choice([1, 2, 2, 3]))
        prog = g.program()
        main = prog["flows"][0]
        if main["body"] and main["body"][-1] == ["match", ["ev", "Never", []]]:
            main["body"] = main["body"][:-1]
        n1 = rng.randrange(1, hmax // 2 + 1)
        n2 = rng.randrange(1, hmax // 2 + 1)
        hist = gen.history(rng, n1) + [["clock", rng.choice([6, 6, 20])]] + _history_x(rng, n2)
        out.append({"kind": "gen", "prog": prog, "history": hist, "tie_seed": rng.randrange(1 << 30), "feats": sorted(g.feats | {"main-ends"})})
    for i in range(60 if quick else 600):
        g = gen.G(rng, rng.choice([2, 2, 3, 3, 4, 5]), rng.choice([1, 2, 2, 3]))
        prog = g.program()
        out.append({"kind": "gen", "prog": prog, "history": _history_x(rng, rng.randrange(3, hmax + 1)), "tie_seed": rng.randrange(1 << 30),
                    "feats": sorted(g.feats | {"clocky"})})
    for i in range(100 if quick else 1000):
        g = _GX(rng, rng.choice([3, 3, 4, 5]), rng.choice([1, 2, 2, 3]))
        prog = g.program()
        n1 = rng.randrange(1, hmax // 2 + 1)
        n2 = rng.randrange(2, hmax // 2 + 2)
        hist = gen.history(rng, n1) + [["clock", rng.choice([6, 6, 20])]] + _history_x(rng, n2)
        out.append({"kind": "gen", "prog": prog, "history": hist, "tie_seed": rng.randrange(1 << 30), "feats": sorted(g.feats | {"when-objev"})})
    return out


def gen_cases(rng, tier):
    cases = gen.gen_cases(rng, tier)
    cases.extend(_extra_cases(rng, tier))
    # one match statement over a reference reached several times with references of different kinds (second instance of a
    # generic helper flow, next loop iteration, restart of an activated flow): harness/impl/corevm_refgen.py
    cases.extend(refgen.cases(rng, tier))
    # observer flows: a match over a member event of an object given by NAME / by reference / as a bare event, for every member of
    # the two event-name maps, next to a second flow that causes the event: harness/impl/corevm_namegen.py
    cases.extend(namegen.cases(rng, tier))
    return cases


# ----------------------------------------------------------------------------------------- implementation

def _elem_kind(el):
    from nemoguardrails.colang.v2_x.lang import colang_ast as A

    if el is None:
        return "end"
    if isinstance(el, A.SpecOp):
        return "match" if el.op == "match" else ("send" if el.op == "send" else "op:" + str(el.op))
    if isinstance(el, A.WaitForHeads):
        return "wait"
    if isinstance(el, A.MergeHeads):
        return "merge"
    return type(el).__name__


def snapshot(state):
    sm = cv.sm
    insts = []
    for uid, fs in state.flow_states.items():
        els = state.flow_configs[fs.flow_id].elements if fs.flow_id in state.flow_configs else []
        heads = []
        for hu, h in fs.heads.items():
            el = els[h.position] if 0 <= h.position < len(els) else None
            heads.append({"uid": hu, "pos": h.position, "status": h.status.value, "kind": _elem_kind(el),
                          # the event the element waits for NOW (dispatcher's view, current context); `reg_name`: what it named
                          # when the head was last registered (None: never registered through the interpreter's own function)
                          "name": cv.waited_name_at(state, fs, h.position), "reg_name": (cv.REC.regnames.get((uid, hu)) or [None, None])[0],
                          "reg_pos": (cv.REC.regnames.get((uid, hu)) or [None, None])[1],
                          "key_ok": hu == h.uid and h.flow_state_uid == uid,
                          "cb": h.position_changed_callback is not None and h.status_changed_callback is not None})
        scopes_f, scopes_a = [], []
        for sc in fs.scopes.values():
            scopes_f.extend(sc[0])
            scopes_a.extend(sc[1])
        insts.append({"uid": uid, "key_ok": uid == fs.uid, "flow_id": fs.flow_id, "status": fs.status.value, "activated": fs.activated,
                      "parent": fs.parent_uid, "heads": heads, "children": list(fs.child_flow_uids), "actions": list(fs.action_uids),
                      "scope_flows": scopes_f, "scope_actions": scopes_a, "loop": fs.loop_id})
    return {
        "queue": len(state.internal_events),
        # the interpreter removes an entry with `list.remove((flow_uid, head_uid))`: an entry that is not Python-equal to that
        # tuple (e.g. a 2-element list after a save/restore round trip) can never be removed again
        "entry_shape": [f"{nm}:{k!r}" for nm, ks in state.event_matching_heads.items() for k in ks
                        if not (type(k) is tuple and len(k) == 2 and all(isinstance(x, str) for x in k))][:3],
        "index": [[nm, [list(k) for k in ks]] for nm, ks in state.event_matching_heads.items()],
        "rev": [[k, nm] for k, nm in state.event_matching_heads_reverse_map.items()],
        "insts": insts,
        "actions": {u: [a.name, a.status.value] for u, a in state.actions.items()},
        "id_states": {fid: [f.uid for f in lst] for fid, lst in state.flow_id_states.items()},
    }


OUT_DROP = ("type", "uid", "event_created_at", "source_uid", "action_info_modality", "action_info_modality_policy",
            "action_started_at", "action_updated_at", "action_finished_at", "action_uid")


def _enc(v):
    try:
        return vj.enc(v)
    except Exception:  # noqa
        return {"s": "<" + type(v).__name__ + ">"}


def vm_digest(state):
    """The observables CoreVM is compared on (same shape as Drive/CoreVMJson.lean::digest)."""
    order = {u: n for n, u in enumerate(state.flow_states.keys())}
    insts = []
    for uid, fs in state.flow_states.items():
        insts.append([uid, fs.flow_id, fs.status.value, int(fs.activated), fs.parent_uid,
                      [[h.position, h.status.value] for h in fs.heads.values()], fs.loop_id, list(fs.child_flow_uids), list(fs.action_uids)])
    index = []
    for nm, ks in state.event_matching_heads.items():
        for (f, h) in ks:
            fs = state.flow_states.get(f)
            pos = fs.heads[h].position if fs is not None and h in fs.heads else None
            index.append([nm, order.get(f, 9999), pos])
    out = []
    for oe in state.outgoing_events:
        out.append([oe.get("type"), sorted([k, _enc(v)] for k, v in oe.items() if k not in OUT_DROP), oe.get("action_uid")])
    return {
        "out": out,
        "insts": insts,
        "index": index,
        "actions": [[u, a.name, a.status.value, a.flow_scope_count] for u, a in state.actions.items()],
        "queue": len(state.internal_events),
        "gctx": [[k, _enc(v)] for k, v in state.context.items()],
    }


def _model_event(ev):
    """external event as `run_to_completion` converts it"""
    if ev.get("type") == "StartFlow" and ev.get("flow_id") == "main" and len(ev) == 2:
        return {"kind": "internal", "name": "StartFlow", "args": [["flow_id", {"s": "main"}]]}
    kind = "action" if "Action" in ev["type"] else "plain"
    d = {"kind": kind, "name": ev["type"], "args": [[k, _enc(v)] for k, v in ev.items() if k != "type"]}
    if kind == "action" and "action_uid" in ev:
        d["action_uid"] = ev["action_uid"]
    return d


def _ref_vars(el):
    """names under which a match element stores the matched event (`... as $e`)"""
    r = getattr(getattr(el, "spec", None), "ref", None)
    if not r:
        return []
    try:
        return [r["elements"][0]["elements"][0].lstrip("$")]
    except Exception:  # noqa
        return ["?"]


def _waited_event(state, item, started):
    """An external event built from what the k-th registered (non-internal) head is waiting for."""
    sm = cv.sm
    internal = cv.fl.InternalEvents.ALL
    cands = [(nm, f, h) for nm, ks in state.event_matching_heads.items() if nm not in internal for (f, h) in ks]
    if not cands:
        return None
    nm, f, h = cands[item[1] % len(cands)]
    fs = state.flow_states.get(f)
    if fs is None or h not in fs.heads:
        return None
    els = state.flow_configs[fs.flow_id].elements
    pos = fs.heads[h].position
    if not (0 <= pos < len(els)):
        return None
    saved = cv.REC.uid
    try:
        ref = sm.get_event_from_element(state, fs, els[pos])
    except Exception:  # noqa
        return None
    finally:
        cv.REC.uid = saved
    args = {}
    for k, v in ref.arguments.items():
        if isinstance(v, (str, int, float, bool)) or v is None:
            args[k] = v
    mode = item[2] if len(item) > 2 else "exact"
    if mode == "more":
        args["zz"] = 1
    elif mode == "less" and args:
        args.pop(sorted(args)[0])
    elif mode == "other" and args:
        k0 = sorted(args)[0]
        args[k0] = "other"
    ev = {"type": ref.name, **args}
    au = getattr(ref, "action_uid", None)
    if not au and "Action" in ref.name and _ref_vars(els[pos]):
        # the match stores the event in a reference (`match StartFooAction() as $e`, `match FooAction.Started() as $e`): hand in
        # the event of a RUNNING action of that type (the runtime feeds every outgoing event back; the action server names the
        # action), so that `$e.action` is an action
        hit = [x for x in started if ref.name in ("Start" + x[1], x[1] + "Started", x[1] + "Updated")]
        if hit:
            ev["action_uid"] = hit[item[1] % len(hit)][0]
        elif mode == "exact":
            return None   # (the spurious event of an action nobody started is still sent in the other modes)
    if au:
        ev["action_uid"] = au
        if ref.name.endswith("Finished"):
            ev.setdefault("is_success", True)
            for x in list(started):
                if x[0] == au:
                    started.remove(x)
    return ev


def run_impl(case):
    """Runs the real interpreter on the case; observation = per step: snapshot, recorded operations, outgoing events."""
    from nemoguardrails.colang.v2_x.runtime.flows import InternalEvent

    sm = cv.sm
    cv.REC.reset()
    cv.REC.rng = random.Random(case.get("tie_seed", 0))
    cv.REC.loops_on = True
    obs = {"steps": [], "notes": []}
    pkey = json.dumps(case.get("prog") or case.get("src"), sort_keys=True)
    hist = list(case["history"])
    if any(hist[:len(pre)] == pre for pre in _NONTERMINATING.get(pkey, [])):
        # the same program already ran into the time budget on the same history prefix (non-termination is C10's subject)
        obs["timeout"] = True
        obs["findings"] = []
        return obs
    try:
        # repeating timer: a first expiry inside a `__del__` / ignored context would otherwise be lost
        signal.setitimer(signal.ITIMER_REAL, float(case.get("budget_s", 4)), 0.5)
    except Exception:  # noqa
        pass
    try:
        try:
            with cv.quiet():
                state = cv.build_state(gen.sources_of(case))
        except Exception as e:  # noqa
            obs["skip"] = "build:" + type(e).__name__ + ":" + str(e)[:120]
            return obs
        obs["flows"] = {fid: len(c.elements) for fid, c in state.flow_configs.items()}
        if case.get("vm", True):
            try:
                obs["prog"] = trvm.program_to_json(state)
            except Exception as e:  # noqa
                obs["prog_error"] = type(e).__name__ + ":" + str(e)[:100]
        started = []   # uids of actions the program started and that are not finished yet: [uid, name]
        events = [["start_main"]] + list(case["history"])
        auto = case.get("auto") or {}
        auto_n = {}
        budget_auto = 200
        last_out = []
        while events:
            item = events.pop(0)
            step = {"item": item}
            kind = item[0]
            ev = None
            if kind == "start_main":
                ev = InternalEvent(name="StartFlow", arguments={"flow_id": "main"})
            elif kind == "ev":
                ev = dict(type=item[1], **{k: v for k, v in item[2]})
            elif kind in ("act_finished", "act_started"):
                if not started:
                    step["noop"] = "no running action"
                    obs["steps"].append(step)
                    continue
                idx = item[1] % len(started)
                uid, name = started[idx]
                if kind == "act_finished":
                    started.pop(idx)
                    ev = {"type": name + "Finished", "action_uid": uid, "is_success": True, **{k: v for k, v in item[2]}}
                else:
                    ev = {"type": name + "Started", "action_uid": uid}
            elif kind == "auto":
                hit = [x for x in started if x[0] == item[1]]
                if not hit:
                    continue
                started.remove(hit[0])
                vals = auto[hit[0][1]]
                k_ = auto_n.get(hit[0][1], 0)
                auto_n[hit[0][1]] = k_ + 1
                ev = {"type": hit[0][1] + "Finished", "action_uid": hit[0][0], "is_success": True, "return_value": vals[k_ % len(vals)]}
            elif kind == "waited":
                ev = _waited_event(state, item, started)
                if ev is None:
                    step["noop"] = "nothing waited for"
                    obs["steps"].append(step)
                    continue
            elif kind == "echo":
                # an outgoing event of the previous step handed back as input — what RuntimeV2_x.process_events does with
                # every outgoing event (`input_events.extend(new_outgoing_events)`)
                if not last_out:
                    step["noop"] = "nothing to echo"
                    obs["steps"].append(step)
                    continue
                ev = dict(last_out[item[1] % len(last_out)])
            elif kind == "clock":
                cv.REC.clock += float(item[1])
                step["noop"] = "clock"
                obs["steps"].append(step)
                continue
            elif kind == "reload":
                from nemoguardrails.colang.v2_x.runtime.serialization import json_to_state, state_to_json

                try:
                    with cv.quiet():
                        state = json_to_state(state_to_json(state))
                    cv.adopt(state)
                    cv.take_prims()
                    step["noop"] = "reload"
                    step["snap"] = snapshot(state)
                    step["ops"], step["op_problems"] = [], []
                except Exception as e:  # noqa  -- serialisation faults are C11's subject
                    step["noop"] = "reload-failed:" + type(e).__name__
                obs["steps"].append(step)
                continue
            else:
                raise ValueError(kind)
            step["event"] = ev if isinstance(ev, dict) else {"type": ev.name, **ev.arguments}
            cv.take_loops()
            try:
                with cv.quiet():
                    sm.run_to_completion(state, ev)
            except CaseTimeout:
                raise
            except Exception as e:  # noqa  -- an exception escaping run_to_completion is C10's subject; the state is still observed
                step["exc"] = type(e).__name__ + ":" + str(e)[:100]
            prims = cv.take_prims()
            step["loops"] = cv.take_loops()
            step["ops"], step["op_problems"] = cv.group_ops(prims)
            step["choices"] = cv.take_choices()
            step["refregs"] = cv.take_refregs()
            step["snap"] = snapshot(state)
            step["caught"], cv.REC.notes = cv.REC.notes, []
            step["vm"] = vm_digest(state)
            step["clock"] = int(cv.REC.clock)
            out = []
            for oe in state.outgoing_events:
                d = {k: v for k, v in oe.items() if k not in ("uid", "event_created_at", "source_uid", "action_info_modality", "action_info_modality_policy")}
                out.append(d)
                if isinstance(oe.get("type"), str) and oe["type"].startswith("Start") and oe["type"].endswith("Action") and "action_uid" in oe:
                    started.append([oe["action_uid"], oe["type"][5:]])
                if isinstance(oe.get("type"), str) and oe["type"].startswith("Stop") and oe["type"].endswith("Action"):
                    pass
            step["out"] = json.loads(json.dumps(out, default=str))
            if state.outgoing_events:
                last_out = [json.loads(json.dumps(oe, default=str)) for oe in state.outgoing_events if isinstance(oe.get("type"), str)]
            obs["steps"].append(step)
            if "exc" in step:
                break
            if auto and budget_auto > 0:
                pend = [x for x in started if x[1] in auto]
                if pend:
                    budget_auto -= 1
                    events.insert(0, ["auto", pend[0][0]])
    except CaseTimeout:
        obs["timeout"] = True
        # history items consumed so far (the `start_main` step and auto-answers are not history items)
        done = sum(1 for st_ in obs["steps"] if st_["item"][0] not in ("start_main", "auto"))
        _NONTERMINATING.setdefault(pkey, []).append(hist[:done + 1])
    finally:
        try:
            signal.setitimer(signal.ITIMER_REAL, 0)
        except Exception:  # noqa
            pass
    # how many different event names ONE match statement was registered with during this case (1 for every statement whose
    # name is static; >= 2: a reference statement reached with references of different kinds)
    obs["stmt_names_max"] = max([len(v) for v in cv.REC.stmt_names.values()] or [0])
    obs["stmt_multi"] = sorted({k[0] for k, v in cv.REC.stmt_names.items() if len(v) >= 2})
    # the oracle is evaluated here (in the worker) on the full snapshots; only what the comparisons need travels back
    obs["findings"] = _compute_findings(obs)
    obs["latent"] = _latent_regions(obs)
    keep_full = bool(obs["findings"]) or case.get("keep_snapshots")
    for st in obs["steps"]:
        if not keep_full:
            # the worklists at the loop boundaries stay in the observation (key "loops": [{"at", "queue", <worklists>}]) for the
            # comparison with the model's pending lists; the per-boundary list of all live heads was only needed by the oracle
            for b_ in st.get("loops", []):
                b_.pop("live", None)
        if "snap" in st and not keep_full:
            sn = st["snap"]
            st["snap"] = {"index": sn["index"], "rev": sn["rev"],
                          "insts": [{"uid": i["uid"], "status": i["status"], "heads": [{"uid": h["uid"], "pos": h["pos"], "status": h["status"]} for h in i["heads"]]} for i in sn["insts"]],
                          "n_insts": len(sn["insts"]), "n_entries": sum(len(ks) for _, ks in sn["index"]), "multi": len(sn["insts"]) >= 2 or any(len(i["heads"]) > 1 for i in sn["insts"])}
    return json.loads(json.dumps(obs, default=str))


# ----------------------------------------------------------------------------------------- model

def model_requests(case, obs):
    if "skip" in obs or obs.get("timeout"):
        return []
    segs = []
    for st in obs["steps"]:
        if "ops" in st:
            segs.append(st["ops"])
    if not segs:
        return []
    reqs = [{"m": "C09.replay", "segments": segs}]
    if "prog" in obs:
        evs = []
        table = []
        for st in obs["steps"]:
            if "vm" in st and "event" in st:
                evs.append({"ev": cv.to_refs(_model_event(st["event"]), table), "choices": [c[1] for c in st.get("choices", [])], "clock": st.get("clock", 0)})
                d = _norm_digest(st["vm"])
                cv.digest_uid_order(d, table)
        reqs.append({"m": "C09.run", "prog": obs["prog"], "events": evs, "fuel": 300})
    # every registration of a head on a reference match (`match $ref.Finished()`, `$e.action.Finished()` ...): the name is
    # re-computed by Models/RefName.lean::nameOf from the referent observed at that moment
    # (and, wave 6, on a flow / action given by NAME: `nameOfSpec`, cases 2 and 3)
    items = [{k: r.get(k) for k in ("var", "members", "obj", "name", "type", "known", "change_args") if k in r} for st in obs["steps"] for r in st.get("refregs", [])]
    if items:
        reqs.append({"m": "C09.refname", "items": items})
    return reqs


def _multiset(entries):
    return sorted(entries)


def _norm_digest(d):
    return {"out": d["out"], "insts": [i[:5] + [sorted(i[5])] + i[6:] for i in d["insts"]], "index": sorted(d["index"], key=lambda e: json.dumps(e)),
            "actions": d["actions"], "queue": d["queue"], "gctx": d["gctx"]}


def _norm_op(op, table):
    """(kind, canonical uids…, position/status, name) of a recorded or model operation; None for a no-op setter call"""
    k = op[0]
    if k in ("setPos", "setStatus") and len(op) > 5 and op[5] is False:
        return None

    def c(u):
        if u not in table:
            table.append(u)
        return table.index(u)

    if k == "addInst":
        return [k, c(op[1]), c(op[2]), op[3]]
    if k == "setPos" or k == "setStatus":
        return [k, c(op[1]), c(op[2]), op[3], op[4]]
    if k == "fork":
        return [k, c(op[1]), c(op[2]), op[4], op[5]]
    if k in ("delHead", "rmHead"):
        return [k, c(op[1]), c(op[2])]
    if k == "mainRestart":
        return [k, c(op[1]), c(op[2]), op[3]]
    if k == "setFlowStatus":
        return [k, c(op[1]), op[2]]
    return [k, c(op[1])]


def _compare_op_streams(real_ops, model_ops, table_r, table_m):
    r = [x for x in (_norm_op(o, table_r) for o in real_ops) if x is not None]
    m = [x for x in (_norm_op(o, table_m) for o in model_ops) if x is not None]
    for i in range(max(len(r), len(m))):
        a = r[i] if i < len(r) else None
        b = m[i] if i < len(m) else None
        if a is None or b is None:
            return f"operation #{i}: real {a} model {b} (lengths {len(r)} / {len(m)})"
        # the event name is evaluated lazily by the model (only when the head is going to be registered)
        if a[0] != b[0]:
            return f"operation #{i}: real {a} model {b}"
        if a[0] in ("addInst", "setPos", "setStatus", "fork", "mainRestart"):
            if a[:-1] != b[:-1]:
                return f"operation #{i}: real {a} model {b}"
            if b[-1] is not None and a[-1] != b[-1]:
                return f"operation #{i}: event name differs: real {a} model {b}"
        elif a != b:
            return f"operation #{i}: real {a} model {b}"
    return None


def _canon_digests(ds):
    table = []
    out = []
    for d in ds:
        cv.digest_uid_order(d, table)
        idx = {u: f"#{n}" for n, u in enumerate(table)}
        out.append(json.loads(cv.UID_RE.sub(lambda m: idx.get(m.group(0), m.group(0)), json.dumps(d))))
    return out


def compare_vm(case, obs, res):
    """CoreVM correspondence after every external event. Records what happened in obs["_vm"] (for the tags)."""
    info = {"compared": 0, "stop": None}
    obs["_vm"] = info
    if not isinstance(res, list):
        return f"CoreVM driver failed: {res}"
    steps = [st for st in obs["steps"] if "vm" in st and "event" in st]
    real, model = [], []
    optable_r, optable_m = [], []
    for n, st in enumerate(steps):
        if n >= len(res):
            return f"CoreVM returned {len(res)} digests for {len(steps)} events"
        m = res[n]
        if m["res"] == "unsupported":
            info["stop"] = "unsupported:" + m["why"]
            if "tie-break" in m["why"]:
                # the model asked for a different number of random.choice outcomes than the interpreter used: a divergence
                return f"event {n} {st['item']}: {m['why']}"
            break
        if m["res"] == "guard":
            return f"event {n} {st['item']}: CoreVM stopped on a run-time assertion of the model (`{m['op']}`): an index operation whose guard does not hold, or an instance left STOPPING (the interpreter went on)"
        if m["res"] == "fuel":
            info["stop"] = "fuel"
            break
        if m["res"] == "raise":
            if "exc" in st:
                info["stop"] = "both-raised"
                break
            return f"event {n} {st['item']}: CoreVM raised {m['cls']} ({m.get('msg')}) but the interpreter did not"
        if "exc" in st:
            return f"event {n} {st['item']}: the interpreter raised {st['exc']} but CoreVM did not"
        if not m.get("guards_ok", True):
            return f"event {n} {st['item']}: a guard of the index layer failed inside CoreVM"
        real.append(_norm_digest(st["vm"]))
        model.append(_norm_digest(m))
        rc, mc = _canon_digests(real), _canon_digests(model)
        if rc[-1] != mc[-1]:
            diffs = [k for k in rc[-1] if rc[-1][k] != mc[-1][k]]
            k = diffs[0]
            return f"event {n} {st['item']}: CoreVM and the interpreter differ on {diffs}: {k}: model {json.dumps(mc[-1][k])[:600]} real {json.dumps(rc[-1][k])[:600]}"
        # the index operations CoreVM performed during this event are the ones the real interpreter performed (same order)
        d = _compare_op_streams(st.get("ops", []), m.get("ops", []), optable_r, optable_m)
        if d:
            return f"event {n} {st['item']}: CoreVM and the interpreter wrote the index-relevant state differently: {d}"
        info["ops_agreed"] = info.get("ops_agreed", 0) + len(m.get("ops", []))
        mch = [list(c) for c in m.get("choices", [])]
        rch = [list(c) for c in st.get("choices", [])]
        if mch != rch:
            return f"event {n} {st['item']}: tie-breaks differ: model {mch} real {rch}"
        info["compared"] += 1
    return None


def compare_refnames(case, obs, res):
    """Every head the interpreter registered on a reference match is filed under the name `RefName.nameOf` computes from the
    referent the variable held at that moment (or both raise the same class of exception)."""
    regs = [(n, r) for n, st in enumerate(obs["steps"]) for r in st.get("refregs", [])]
    if not isinstance(res, list) or len(res) != len(regs):
        return f"C09.refname driver failed: {str(res)[:200]}"
    obs["_refnames"] = len(regs)
    for (n, r), m in zip(regs, res):
        what = ("$" + r["var"]) if r.get("var") else f"{r.get('name')} [{r.get('type')} by name]"
        where = f"step {n}: head {r['key']} reached `match {what}{''.join('.' + x for x in (r['members'] or []))}` at {r['flow_id']}:{r['pos']} holding {json.dumps(r['obj'])[:120]}"
        if "raise" in r:
            if m.get("err") != r["raise"]:
                return f"{where}: the interpreter raised {r['raise']} but the model says {m}"
        elif m.get("ok") != r.get("bucket"):
            return f"{where}: filed under {r.get('bucket')!r} but the model names {m}"
        # the dispatcher's side (`get_event_from_element`, Models/RefName.lean::dispatchNameOfSpec): same name, or both cannot name it
        d = m.get("dispatch") or {}
        if "dispatch" in r and (d.get("ok") if r["dispatch"] != "!raise" else ("!raise" if "err" in d else d.get("ok"))) != r["dispatch"]:
            return f"{where}: the dispatcher (get_event_from_element) names {r['dispatch']!r} but the model says {d}"
    return None


def compare(case, obs, mouts):
    if not mouts:
        return None
    mouts = list(mouts)
    has_ref = any(st.get("refregs") for st in obs["steps"])
    ref_out = mouts.pop() if has_ref and len(mouts) >= 2 else None
    if ref_out is not None:
        r = compare_refnames(case, obs, ref_out)
        if r:
            return r
    r = compare_index(case, obs, mouts[0])
    if r:
        return r
    if len(mouts) > 1:
        return compare_vm(case, obs, mouts[1])
    return None


def compare_index(case, obs, res):
    if not isinstance(res, list):
        return f"model replay failed: {res}"
    i = 0
    for n, st in enumerate(obs["steps"]):
        if "ops" not in st:
            continue
        m = res[i]
        i += 1
        if "exc" in st:
            return None   # the interpreter raised in the middle of an event: the recorded stream is truncated mid-statement
        if st["op_problems"]:
            return f"step {n}: the interpreter wrote index-relevant state in an unmodelled way: {st['op_problems'][0]}"
        if m["bad"]:
            op = st["ops"][m["bad"][0]]
            return f"step {n}: guard of recorded operation #{m['bad'][0]} {op} does not hold in the model"
        snap = st["snap"]
        if m["index"] != [[nm, ks] for nm, ks in snap["index"]]:
            return f"step {n}: model index {m['index']} != real event_matching_heads {snap['index']}"
        mrev = [[k[0] + k[1], nm] for k, nm in m["rev"]]
        if mrev != snap["rev"]:
            return f"step {n}: model reverse map {mrev} != real {snap['rev']}"
        # instances / heads as the model tracked them through the recorded writes
        real = [[i_["uid"], i_["status"], [[h["uid"], h["pos"], h["status"]] for h in i_["heads"]]] for i_ in snap["insts"]]
        mod = [[u, s_, [[h[0], h[1], h[2]] for h in hs]] for u, s_, hs in m["insts"]]
        if real != mod:
            return f"step {n}: model instances/heads differ from the real state: model {mod} real {real}"
    return None


# ----------------------------------------------------------------------------------------- oracle

LISTENING = ("waiting", "started", "starting")
DONE = ("stopped", "finished")


def scan(snap, recompute=True):
    """From-scratch scan written from the property statement."""
    out = []
    for i in snap["insts"]:
        if i["status"] not in LISTENING:
            continue
        for h in i["heads"]:
            if h["status"] != "inactive" and h["kind"] == "match":
                out.append([h["name"], [i["uid"], h["uid"]]])
    return out


def check_snapshot(snap):
    """Returns a list of (signature, message)."""
    bad = []
    if snap["queue"] != 0:
        bad.append(("queue-not-empty", f"{snap['queue']} internal events pending after run_to_completion"))
    entries = [[nm, k] for nm, ks in snap["index"] for k in ks]
    want = scan(snap)
    if _multiset(entries) != _multiset(want):
        missed = [e for e in want if e not in entries]
        stale = [e for e in entries if e not in want]
        by_key_w = {tuple(k): nm for nm, k in want}
        renamed = [e for e in stale if tuple(e[1]) in by_key_w]
        if renamed and len(missed) == len(stale) == len(renamed):
            # every difference is a head filed under another name than the one its element names now.  Two different classes:
            #   * the bucket IS the name the element named when the head was registered AT THE POSITION IT STILL HAS, and the name
            #     changed afterwards (a context variable was reassigned while the head waited)     -> index-name-stale
            #   * the bucket was never the element's name, not even at the moment of the registration (the name was not taken from
            #     the current value of the reference: cached per statement / flow / position ...)  -> index-name-wrong-at-registration
            reg = {(i["uid"], h["uid"]): (h.get("reg_name") if h.get("reg_pos") == h["pos"] else None) for i in snap["insts"] for h in i["heads"]}
            wrong = [e for e in renamed if reg.get(tuple(e[1])) != e[0]]
            if wrong:
                e = wrong[0]
                names_now = by_key_w[tuple(e[1])]
                names_txt = ("NO event (the dispatcher's get_event_from_element raises for it even without its argument expressions: a head must not stay parked there)"
                             if names_now == "!raise" else repr(names_now))
                bad.append(("index-name-wrong-at-registration", f"head {e[1]} is filed under {e[0]!r} but its match element names {names_txt} "
                            f"(and named {reg.get(tuple(e[1]))!r} when the head was registered there; None = never registered at this position): "
                            f"the event of that name never reaches the head"))
            else:
                bad.append(("index-name-stale", f"head registered under {renamed[0][0]!r} but its element now names {by_key_w[tuple(renamed[0][1])]!r}"))
        else:
            sig = "index-missed" if missed and not stale else ("index-stale" if stale and not missed else "index-differs")
            bad.append((sig, f"index != scan: missed {missed[:3]} stale {stale[:3]}"))
    if snap.get("entry_shape"):
        bad.append(("index-entry-shape", f"index entry is not the (flow uid, head uid) tuple the interpreter adds and removes: {snap['entry_shape'][0]}"))
    rev = sorted([k, nm] for k, nm in snap["rev"])
    inv = sorted([k[0] + k[1], nm] for nm, k in entries)
    if rev != inv:
        bad.append(("reverse-map", f"reverse map is not the inverse of the index: {rev[:4]} vs {inv[:4]}"))
    if len({tuple(e[1]) for e in entries}) != len(entries):
        bad.append(("index-duplicate", "a head occurs twice in the index"))
    uids = {i["uid"] for i in snap["insts"]}
    by_uid = {i["uid"]: i for i in snap["insts"]}
    for i in snap["insts"]:
        if not i["key_ok"]:
            bad.append(("key", f"flow_states key differs from uid {i['uid']}"))
        if i["status"] == "stopping":
            bad.append(("left-stopping", f"instance {i['uid']} left in status STOPPING"))
        if i["status"] in DONE and i["heads"]:
            bad.append(("done-with-heads", f"done instance {i['uid']} ({i['status']}) still holds heads {[h['uid'] for h in i['heads']]}"))
        if i["status"] in LISTENING:
            for h in i["heads"]:
                if h["status"] == "merging":
                    bad.append(("unparked-merging", f"head {h['uid']} of {i['uid']} left in status MERGING"))
                elif h["status"] == "active" and h["kind"] not in ("match", "wait"):
                    bad.append(("unparked", f"active head of {i['uid']} left on a {h['kind']} element at {h['pos']}"))
                if not h["cb"]:
                    bad.append(("no-callback", f"head {h['uid']} of {i['uid']} has no change callback"))
            for c in i["children"]:
                if c not in uids:
                    bad.append(("dangling-child", f"{i['uid']} references child flow {c} that no longer exists"))
            for a in i["actions"]:
                if a not in snap["actions"]:
                    bad.append(("dangling-action", f"{i['uid']} references action {a} that no longer exists"))
            for c in i["scope_flows"]:
                if c not in uids:
                    bad.append(("dangling-scope-flow", f"a scope of {i['uid']} references flow {c} that no longer exists"))
            for a in i["scope_actions"]:
                if a not in snap["actions"]:
                    bad.append(("dangling-scope-action", f"a scope of {i['uid']} references action {a} that no longer exists"))
    for nm, k in entries:
        i = by_uid.get(k[0])
        if i is None:
            bad.append(("index-dangling-flow", f"index entry {nm}:{k} names a flow instance that does not exist"))
        elif k[1] not in [h["uid"] for h in i["heads"]]:
            bad.append(("index-dangling-head", f"index entry {nm}:{k} names a head that does not exist"))
    for fid, lst in snap["id_states"].items():
        for u in lst:
            if u not in uids:
                bad.append(("id-states-dangling", f"flow_id_states[{fid}] lists {u} which is not in flow_states"))
    for i in snap["insts"]:
        if i["uid"] not in snap["id_states"].get(i["flow_id"], []):
            bad.append(("id-states-missing", f"{i['uid']} missing from flow_id_states[{i['flow_id']}]"))
    return bad


# Which worklists make up "the pending list" at each boundary of the loops of `run_to_completion` (recorded by
# harness/impl/corevm.py): the local `actionable_heads` of run_to_completion plus the list handed to / returned by
# `_advance_head_front`; at `resolve` (once per iteration of `while heads_are_advancing`) the argument list itself.
PENDING_AT = {
    "resolve": ("pending",),
    "match-in": ("actionable", "heads"), "match-out": ("actionable", "out"),
    "merge-in": ("actionable", "heads"), "merge-out": ("actionable", "out"),
    "advance-in": ("heads",), "advance-out": ("out",),
}


def check_loops(loops):
    """Worklist invariant `PendingCovers` at every loop boundary of run_to_completion: every non-INACTIVE head of every
    listening (WAITING / STARTING / STARTED) instance that is NOT on a `match` element and NOT on a wait-for-heads element is
    in the pending list (or in the list of heads being advanced) — a head that is neither parked nor pending can never be
    advanced again within this event.  At `resolve` additionally: no internal event is queued."""
    bad = []
    for k, b in enumerate(loops):
        keys = PENDING_AT.get(b["at"])
        if keys is None or "live" not in b or any(b.get(x) is None for x in keys):
            continue
        pend = {(e[0], e[1]) for x in keys for e in b[x]}
        for f, fst, h, pos, hst, kind in b["live"]:
            if fst in LISTENING and kind not in ("match", "wait") and (f, h) not in pend:
                bad.append(("pending-covers", f"loop boundary #{k} ({b['at']}): head {h} of {f} ({hst}, on a {kind} element at {pos}) is neither parked nor in the pending list {sorted(pend)[:6]}"))
                break
        if b["at"] == "resolve" and b["queue"] != 0:
            bad.append(("pending-queue", f"loop boundary #{k} (resolve): {b['queue']} internal events queued when the actionable heads are resolved"))
    return bad


def _findings(case, obs):
    if "findings" in obs:
        return [tuple(f) for f in obs["findings"]]
    return _compute_findings(obs)


def _compute_findings(obs):
    out = []
    if "skip" in obs or obs.get("timeout"):
        return out
    for n, st in enumerate(obs["steps"]):
        if "snap" not in st:
            continue
        if "exc" in st:
            # an exception escaped run_to_completion (C10's subject): the event was not processed to completion,
            # C09 speaks about states "once an external event has been processed"
            continue
        for sig, msg in check_snapshot(st["snap"]):
            out.append((sig, f"after step {n} ({st['item']}): {msg}"))
        for sig, msg in check_loops(st.get("loops", [])):
            out.append((sig, f"during step {n} ({st['item']}): {msg}"))
    return out


def _latent_regions(obs):
    """The defect behind an open finding is present in the state although the property (which speaks about RUNNING flows)
    is not violated: e.g. a stopped parent still listing a cleaned-up child. Model (repaired behaviour) and code differ there."""
    out = set()
    for st in obs.get("steps", []):
        # the interpreter itself caught a KeyError on a uid: a reference to a deleted action / flow was followed inside
        # this event (the dangling reference may be gone again by the time the state is observed)
        for cls, msg in st.get("caught", []):
            if cls == "KeyError" and cv.UID_RE.search(msg):
                out.add("dangling-scope-action")
        sn = st.get("snap")
        if not sn or "exc" in st:
            continue
        uids = {i["uid"] for i in sn["insts"]}
        for i in sn["insts"]:
            if any(c not in uids for c in i.get("children", [])):
                out.add("dangling-child")
            if any(a not in sn.get("actions", {}) for a in i.get("scope_actions", [])):
                out.add("dangling-scope-action")
            if any(c not in uids for c in i.get("scope_flows", [])):
                out.add("dangling-scope-flow")
    return sorted(out)


def _lead(f):
    """The finding a case is reported with: `index-name-stale` (the class of the open finding) only if there is nothing else."""
    for x in f:
        if x[0] != "index-name-stale":
            return x
    return f[0]


def oracle(case, obs):
    f = _findings(case, obs)
    return _lead(f)[1] if f else None


def signature(case, obs, msg):
    f = _findings(case, obs)
    if f:
        s = _lead(f)[0]
        # exactly the open finding: the head WAS filed under the name its element named at the moment of the registration
        # (`check_snapshot` says `index-name-stale` only then) and a flow sharing the context reassigned the variable while the
        # head waited.  A head filed under a name its element did not name even when it was registered is another class
        # (`index-name-wrong-at-registration`), whatever the program does with contexts.
        if s == "index-name-stale" and gen.shares_context(case):
            return "index-name-stale:shared-context"
        return s
    lat = obs.get("latent") or []
    if lat and msg:
        # a correspondence difference (no oracle finding) in a case where the defect of an open finding is visible
        return lat[0]
    return None


def nontrivial(case, obs):
    if "skip" in obs or obs.get("timeout"):
        return False
    moved = 0
    multi = False
    for st in obs["steps"]:
        if "snap" in st:
            sn = st["snap"]
            if sn.get("multi") or len(sn["insts"]) >= 2 or any(len(i["heads"]) > 1 for i in sn["insts"]):
                multi = True
        if st.get("ops") and st["item"][0] != "start_main" and any(o[0] in ("setPos", "setStatus", "fork", "dropHeads") for o in st["ops"]):
            moved += 1
    return moved >= 1 and multi


def tags(case, obs):
    t = ["kind:" + case.get("kind", "gen")]
    if "skip" in obs:
        return t + ["skip:" + obs["skip"].split(":")[1]]
    if obs.get("timeout"):
        return t + ["timeout"]
    t.append("steps:" + str(min(40, len(obs["steps"]) // 5 * 5)))
    vm = obs.get("_vm")
    if vm is not None:
        t.append("vm:events-agreed:" + str(min(40, vm["compared"] // 2 * 2)))
        t.append("vm:" + (vm["stop"] or "complete")[:70])
        t.append("vm:index-ops-agreed:" + str(min(2000, vm.get("ops_agreed", 0) // 50 * 50)))
    opk = set()
    nops = 0
    for st in obs["steps"]:
        for o in st.get("ops", []):
            opk.add(o[0])
            nops += 1
        if "exc" in st:
            t.append("exc:" + st["exc"].split(":")[0])
        if st.get("noop"):
            t.append("noop:" + st["noop"].split(":")[0])
        if st.get("op_problems"):
            t.append("op-problem")
        if st.get("choices"):
            t.append("tie-break")
    t.append("stmt-names-max:" + str(obs.get("stmt_names_max", 0)))
    t.append("refname-registrations:" + str(min(50, obs.get("_refnames", 0) // 5 * 5)))
    for st in obs["steps"]:
        for r in st.get("refregs", []):
            if not r.get("var"):
                t.append("byname-reg:" + str(r.get("type")) + ":" + str((r.get("members") or ["?"])[0]) + ":" + (r.get("bucket") or ("raise-" + str(r.get("raise")))))
    t.extend("stmt-multi-name-in:" + f for f in obs.get("stmt_multi", []))
    nb = sum(len(st.get("loops", [])) for st in obs["steps"])
    t.append("loop-boundaries:" + str(min(2000, nb // 50 * 50)))
    for st in obs["steps"]:
        for b_ in st.get("loops", []):
            if b_["at"].startswith("unknown") or (b_["at"] in PENDING_AT and any(b_.get(x) is None for x in PENDING_AT[b_["at"]])):
                t.append("loop-boundary-unclassified")
                break
    t.extend("op:" + k for k in sorted(opk))
    t.append("nops:" + str(min(2000, nops // 50 * 50)))
    for f in gen.features(case):
        t.append("feat:" + f)
    last = [st for st in obs["steps"] if "snap" in st]
    if last:
        s = last[-1]["snap"]
        t.append("insts:" + str(min(20, len(s["insts"]))))
        t.append("entries:" + str(min(20, sum(len(ks) for _, ks in s["index"]))))
    return t


def shrink(case):
    return gen.shrink(case)


def escalate(rng, case, tier):
    out = gen.escalate(rng, case, tier)
    if case is not None and case.get("kind") != "lib":
        for _ in range(100):
            out.append(dict(case, history=_history_x(rng, rng.randrange(2, 30)), tie_seed=rng.randrange(1 << 30)))
    out.extend(_extra_cases(rng, "quick"))
    out.extend(refgen.cases(rng, "quick"))
    out.extend(namegen.cases(rng, "quick"))
    return out
