"""C20 — the server loads configs only from its root; threads keep the exact history.

Tie (every run):
  * translator `harness/translate/c20.py`: the rejection regex (parsed by Python's own regex parser into the
    character-class/literal form the Lean model uses), cache-key separator, fixed replies, `"thread-"` prefix,
    thread-id length limits -> Generated/C20.lean; static check of the statement order inside `_get_rails`.
  * function level ("fn" cases, batched): the REAL `nemoguardrails.server.api._get_rails([id])` (with
    `RailsConfig.from_path` / `LLMRails` replaced by recording stubs), `os.path.join/normpath/abspath/commonprefix`
    and `re.search(<regex source>)` against the Lean `Server` model on generated roots / ids / paths.
  * end to end ("e2e" cases): HISTORIES through FastAPI `TestClient` on freshly executed copies of the real module
    `nemoguardrails/server/api.py` (one per server process / restart) that share one datastore (a real `MemoryStore` or a
    `DataStore` subclass): requests, external changes of stored keys (set / append / delete / truncate / redact), datastore
    swaps, process switches, restarts, rails-cache evictions, pre-seeded stores; responses, paths given to `from_path`,
    messages given to `generate_async`, the rails cache of every process and the final datastore are compared with the
    model's `runOps` (Models/ServerOps.lean).
  * static: statement order in `_get_rails`; module-level state reachable from `chat_completion` / `register_datastore` must be
    within what the model has; shape of the three thread statements.
Oracle (written from the property statement, independent of the model): every path handed to `from_path`
is the configured root or lies below it (`os.path.abspath` + component prefix); a request naming an id whose
joined path leaves the root gets the fixed reply; with a thread id, the messages handed to the LLM are what the datastore holds
for the thread (read directly from the store object right before the request) ++ new, right after the request the store holds
that list ++ [reply] (unchanged when no turn completed), no other key changed, and the store always equals the store of the
statement (initial content + operations of other actors + completed turns), whichever process answered.
"""
import json
import logging
import os
import re

from ..translate import c20 as tr

PROPERTY = "C20"
CASE_TIMEOUT = 300  # s of wall clock per case in pool workers (runner watchdog): a case that spins forever is a verdict, not exit 2
THEOREM_MODULE = "NemoVerif.Theorems.C20"
RULE = ("fn: batches of config ids built from path-ish fragments (separators, dot runs, %2e, NUL, unicode look-alikes, absolute "
        "paths, root-relative escapes such as ../<root>2/x, empty, very long) over 12 roots (absolute, relative, trailing slash, "
        "'/', '//', un-normalised), evaluated by the real _get_rails + os.path + re; plus all ids of length<=3 (quick) / <=4 (thorough) "
        "over {., /, \\, a, %}. e2e: 3-12 requests over 5 thread ids (prefix-related, unicode, too short/long), config_id/config_ids/"
        "default/single-config mode, context, streaming, failing from_path / generate, interleaved with operations of other actors on the shared "
        "datastore (set/append/del/take/redact of a key, register_datastore swaps, pre-seeded stores incl. 120-1500-message threads), 1-3 server "
        "processes (api.py executed afresh per process), restarts, rails-cache evictions; id lists that glue into a rejected id; escapes in 25 encodings. non-trivial = fn batch with both accepted and "
        "rejected ids, or e2e sequence with >=2 completed turns on one thread or a rejected id; distinct = distinct case JSON.")
TRUSTED_BASE = [
    "translator harness/translate/c20.py (regex source parsed with re._parser; constants by AST path)",
    "correspondence harness harness/props/C20.py + Lean driver Drive/C20.lean (JSON codecs; stubs for RailsConfig.from_path / LLMRails)",
    "FastAPI/pydantic/starlette TestClient, json.dumps/loads round trip of message dicts, CPython os.path (POSIX) and re (tied by differential runs only)",
]
ASSUMPTIONS = [
    "POSIX path semantics; the filesystem (symlinks, what from_path reads below the directory it is given) is not modelled",
    "streaming requests do not update the thread (TODO in chat_completion); the thread statement is about completed non-streaming turns",
    "values written to the datastore by other actors are JSON lists of message objects; operations and requests are sequential",
    "messages are JSON values that survive json.dumps/json.loads unchanged; request `messages` is a list",
    "the auto-reload watcher thread is represented by its effect (deleting a cache entry: the evict operation); the redis/other DataStore back-ends are not modelled",
]
EXHAUSTIVE = {"quick": True, "thorough": True}

_INFO = None


# used only when the translator cannot find its anchors any more (that is reported as tie_broken by the runner);
# the adapters and the oracle keep working so that the search can still produce a concrete failing input
FALLBACK = {
    "rx_source": None, "key_sep": "-", "loop_order": [], "could_prefix": "Could not load the ",
    "could_suffix": " guardrails configuration. An internal error has occurred.", "internal_reply": "Internal server error.",
    "short_reply": "The `thread_id` must have a minimum length of 16 characters.", "thread_prefix": "thread-",
    "handler_min": 16, "field_min": 16, "field_max": 255, "fallback": True, "process_state": {},
}


def info():
    global _INFO
    if _INFO is None:
        try:
            _INFO = tr.extract()
        except Exception:  # noqa  (TieBroken or a crash of the extractor)
            _INFO = dict(FALLBACK)
    return _INFO


def translate():
    global _INFO
    out = tr.run()
    _INFO = None
    return out


# module-level variables of api.py the request path may reach, and what they are in the model
MODEL_STATE = {
    "chat_completion": ["api_request_headers",   # context variable, written only
                        "app",                   # Cfg (root, single-config mode, default id)
                        "datastore",             # State.store
                        "llm_rails_events_history_cache", "llm_rails_instances",   # State.cache (the events cache only travels with an instance)
                        "log", "registered_loggers"],
    "register_datastore": ["datastore"],
}


def static_tie():
    inf = info()
    probs = []
    if inf.get("fallback"):
        return probs  # already reported by translate()
    ps = inf.get("process_state") or {}
    for entry, want in MODEL_STATE.items():
        extra = sorted(set(ps.get(entry, [])) - set(want))
        if extra:
            probs.append(f"{entry} can reach module-level state {extra} that the model does not have (model: rails cache + datastore only; "
                         f"theorem chat_step_reads_store says a turn depends on nothing else)")
    if inf.get("thread_shape") != tr.THREAD_SHAPE:
        probs.append(f"chat_completion no longer reads the thread from the datastore once, prepends it and writes back messages + [reply]: {inf.get('thread_shape')}")
    if inf["loop_order"] != ["regex", "commonprefix", "from_path"]:
        probs.append(f"_get_rails loop no longer runs regex test, common-prefix test, from_path in this order: {inf['loop_order']}")
    return probs


# ----------------------------------------------------------------------------- generators

ROOTS = ["/srv/configs", "/srv/configs/", "/", "//", "//srv", "/a/b/../c", "rel/configs", ".", "", "/srv/./configs//x", "/tmp/\u00e9", "/srv/configs/."]
FRAGS = ["", ".", "..", "...", "/", "\\", "//", "a", "b", "cfg", "configs2", "%2e", "%2E%2e", "%2f", "%5c", "\x00", "\u2215", "\u2044",
         "\uff0f", "\uff0e", "\u2024", "\u3002", " ", "\n", "-", "~", "\u00e9", "\U0001F600", "..\\", "../", "..;/", "a/..", "./", "/.", ".a", "a.",
         "/etc/passwd", "C:\\x", "x", "y", "..%2f", "\u202e"]
SMALL = [".", "/", "\\", "a", "%"]


def _pct(s, which, lower=False):
    return "".join(("%%%02x" if lower else "%%%02X") % ord(c) if (c in which and ord(c) < 128) else c for c in s)


ENCODINGS = [
    lambda s: _pct(s, "./\\"), lambda s: _pct(s, "./\\", True), lambda s: _pct(s, "."), lambda s: _pct(s, "/\\"),
    lambda s: _pct(_pct(s, "./"), "%"),                                               # double encoding
    lambda s: s.replace(".", "\uff0e").replace("/", "\uff0f"),                        # fullwidth (NFKC-equivalent to . and /)
    lambda s: s.replace(".", "\uff0e"), lambda s: s.replace("/", "\uff0f"),
    lambda s: s.replace("..", "\u2025"), lambda s: s.replace(".", "\u2024"),          # two dot leader / one dot leader (NFKC -> .. / .)
    lambda s: s.replace(".", "\ufe52"), lambda s: s.replace("/", "\u2215"), lambda s: s.replace("/", "\u2044"),
    lambda s: s.replace("/", "\\"), lambda s: s.replace("/", "%c0%af"), lambda s: s.replace(".", "%u002e"),
    lambda s: s.upper(), lambda s: " " + s, lambda s: s + " ", lambda s: s + "\x00", lambda s: "./" + s, lambda s: s.replace("/", "//"),
    lambda s: s.replace("../", "....//"), lambda s: s.replace("../", "..;/"), lambda s: s.replace("..", ".\u200b."),
]


def g_id(rng, root):
    r = rng.random()
    if 0.7 <= r < 0.85 and rng.random() < 0.5:
        # an escape attempt (into a sibling whose name starts with the root's name, or upwards), written in some encoding
        base = os.path.basename(os.path.normpath(root)) or "x"
        t = rng.choice(["../" + base + "2/x", "../" + base + "2", "../" + base + "_private", "..", "../..", "../" * rng.randrange(1, 5) + "etc", "a/../../" + base + "2",
                        "../" + base, "..\\" + base + "2", "../" + base + "/../" + base + "-staging/x"])
        for _ in range(rng.choice([1, 1, 1, 2])):
            t = rng.choice(ENCODINGS)(t)
        return t
    if r < 0.55:
        return "".join(rng.choice(FRAGS) for _ in range(rng.choice([0, 1, 1, 2, 2, 3, 3, 4, 5])))
    if r < 0.7:
        return "".join(rng.choice(SMALL + ["..", "a"]) for _ in range(rng.randrange(0, 7)))
    if r < 0.85:
        base = os.path.basename(root.rstrip("/")) or "x"
        return rng.choice([
            "../" + base + "2/x", "../" + base, "..\\" + base + "2", root, root + "/x", root + "2/x", root.rstrip("/") + "2",
            "../" * rng.randrange(1, 6) + "etc/passwd", base, base + "/../..", "a/../../" + base + "2", "/" + base, "..", ".", "",
            "..." , "a..b", "a.b", "a-b", ".hidden", "..hidden",
        ])
    if r < 0.9:
        return rng.choice(["a" * 5000, "../" * 700, "a/" * 900, "." * 3000, "%2e" * 1000, "\\" * 2000, "\u00e9" * 4000])
    return rng.choice(["a", "b", "cfg", "config_1", "hello_world", "abc", "x1", "A B"])


def g_path(rng):
    n = rng.choice([0, 1, 2, 3, 4, 5, 6, 8])
    return rng.choice(["", "", "/", "//", "///", "////", "./", "../"]) + rng.choice(["/", "/", "/", "//", ""]).join(
        rng.choice(["a", "b", "..", ".", "", "...", "..a", "a..", "x\x00y", "\u00e9", "\\", "a\\..", " "]) for _ in range(n))


def all_small(maxlen):
    out = [""]
    layer = [""]
    for _ in range(maxlen):
        layer = [s + c for s in layer for c in SMALL]
        out += layer
    return out


def g_fn_case(rng, n):
    root = rng.choice(ROOTS)
    return {
        "kind": "fn", "root": root,
        "ids": [g_id(rng, root) for _ in range(n)],
        "paths": [g_path(rng) for _ in range(n // 4)],
        "joins": [[rng.choice(ROOTS + ["a", "a/", ""]), g_id(rng, root)] for _ in range(n // 8)],
        "cps": [[g_path(rng) for _ in range(rng.choice([0, 1, 2, 2, 2, 3]))] + ([root] if rng.random() < 0.3 else []) for _ in range(n // 8)],
    }


TIDS_OK = ["t" * 16, "t" * 16 + "2", "thread-" + "t" * 16, "\u00e9" * 16, "A" * 255, "0123456789abcdef",
           # ids that a normalising / truncating key function would merge: case, trailing blank, last character of a long id,
           # composed vs decomposed accent, a key separator inside the id
           "T" * 16, "t" * 16 + " ", "A" * 254 + "B", "e\u0301" * 8, "0123456789abcde-f", "t" * 32, "t" * 64, "t" * 65]
TIDS_BAD = ["", "abc", "\u00e9" * 15, "A" * 256, "t" * 15]
E2E_IDS = ["a", "b", "a-b", "cfg", "missing", ".", "", "a.b", "c", "a-", "-b", "-", "a--b", "A", "a "]
E2E_BAD = ["../configs2/x", "..", "a/b", "\\", "a..b", "/etc", "../x", "a/../b", "%2e%2e/x", "\uff0e\uff0e/x", "..\\x", "a/", "/", "x\x00/..", "../configs",
           "a/b/c", "a\\b", "...", "a-../x", "-/-"]
CONTEXTS = [{"k": 1}, {"k": 1}, {"user": "bob"}, {"k": [1, 2], "n": None}]
OTHER_KEYS = ["other", "thread", "thread-", "config-a", "THREAD-" + "t" * 16, "thread-" + "t" * 17]


def _msg(rng, tag):
    """a message; contents repeat now and then (a client may say the same thing twice)."""
    r = rng.random()
    role = rng.choice(["user", "user", "assistant", "system"])
    if r < 0.75:
        return {"role": role, "content": tag}
    if r < 0.9:
        return {"role": "user", "content": rng.choice(["hi", "hi", "yes", ""])}
    return {"role": role, "content": tag, "extra": {"n": 1}}


def _redact(m):
    return dict(m, content="#" * len(m["content"])) if isinstance(m, dict) and isinstance(m.get("content"), str) else m


def _collision(rng):
    """an accepted id list whose pieces glue together (with ANY one-character separator) into a rejected id."""
    for _ in range(20):
        b = rng.choice(E2E_BAD + ["..", "a/b", "a\\b", "a..b", "./."])
        seps = sorted(set(b))
        c = rng.choice(seps)
        parts = b.split(c)
        if len(parts) >= 2 and len(parts) <= 4:
            return parts, b
    return ["a", "b"], "a/b"


def g_e2e_case(rng, maxlen=12):
    root = rng.choice(ROOTS[:8] + ["/srv/configs"] * 4)
    cfg = {
        "root": root,
        "single": rng.choice(["configs", "a-b", "a..b", "a"]) if rng.random() < 0.15 else None,
        "default": rng.choice(["a", "b", "../x", "missing", "", "..", "a/b", "a-b"]) if rng.random() < 0.3 else None,
        "has_store": rng.random() < 0.92,
        "streaming": rng.random() < 0.2,
        "gr_mode": rng.random() < 0.3,
        "store_kind": rng.choice(["memory", "memory", "custom"]),
    }
    tids = rng.sample(TIDS_OK, 3)
    if rng.random() < 0.25:  # two ids that differ only slightly
        tids = rng.choice([["t" * 16, "T" * 16, "t" * 16 + " "], ["A" * 255, "A" * 254 + "B", "t" * 64], ["t" * 32, "t" * 64, "t" * 65],
                           ["\u00e9" * 16, "e\u0301" * 8, "t" * 16], ["t" * 16, "thread-" + "t" * 16, "t" * 16 + "2"]])
    keys = ["thread-" + t for t in tids]
    n_procs = rng.choice([1, 1, 2, 2, 3])
    ext = cfg["has_store"] and rng.random() < 0.8       # somebody else uses the datastore as well
    long = cfg["has_store"] and rng.random() < 0.08     # a long conversation that exists already, used and changed by others
    ext = ext or long
    focus = long or (cfg["has_store"] and rng.random() < 0.4)   # a case about threads: loadable configs, valid thread ids
    n_ctr = [0]

    def fresh(n):
        out = []
        for _ in range(n):
            n_ctr[0] += 1
            out.append(_msg(rng, "x%d" % n_ctr[0]))
        return out

    def g_store(p):
        st = []
        for k in keys:
            if rng.random() < p:
                st.append([k, fresh(rng.choice([0, 1, 2, 3, 5]))])
        if rng.random() < 0.4:
            st.append([rng.choice(OTHER_KEYS), fresh(rng.choice([0, 1, 2]))])
        rng.shuffle(st)
        return st

    if cfg["has_store"] and (long or rng.random() < 0.5):   # threads that exist before this server is started
        cfg["store0"] = g_store(0.6)
        if long:
            cfg["store0"] = [kv for kv in cfg["store0"] if kv[0] != keys[0]]
            cfg["store0"].append([keys[0],
                                  [{"role": "user", "content": "h%d" % i} for i in range(rng.choice([120, 600, 1500]))]])
    approx = {}                                         # what the generator believes a thread holds (used for re-sent histories only)
    for k, v in cfg.get("store0") or []:
        approx.setdefault(k, list(v))

    def g_op():
        kinds = ["proc"] * (6 if n_procs > 1 else 0) + ["restart", "evict"]
        if ext:
            kinds += ["set"] * 4 + ["del"] * 3 + ["append"] * 4 + ["take"] * 2 + ["swap"] + ["redact"] * 2
        kind = rng.choice(kinds)
        if kind == "proc":
            return {"op": "proc", "i": rng.randrange(n_procs)}
        if kind == "restart":
            return {"op": "restart"}
        if kind == "evict":
            return {"op": "evict", "key": rng.choice(E2E_IDS + ["a-b", "a", "b"])}
        if kind == "swap":
            st = g_store(0.5)
            approx.clear()
            for k, v in st:
                approx.setdefault(k, list(v))
            return {"op": "swap", "store": st}
        key = keys[0] if long and rng.random() < 0.6 else rng.choice(keys * 4 + OTHER_KEYS[:3])
        if kind == "set" and long and rng.random() < 0.7:
            kind = "append"
        if kind == "set":
            v = fresh(rng.choice([0, 0, 1, 2, 4]))
            approx[key] = list(v)
            return {"op": "set", "key": key, "msgs": v}
        if kind == "del":
            approx.pop(key, None)
            return {"op": "del", "key": key}
        if kind == "append":
            v = fresh(rng.choice([1, 2, 2]))
            approx[key] = approx.get(key, []) + v
            return {"op": "append", "key": key, "msgs": v}
        if kind == "redact":   # an operator blanks the texts of a thread: same shape and size, other contents
            if key in approx:
                approx[key] = [_redact(m) for m in approx[key]]
            return {"op": "redact", "key": key}
        n = rng.choice([0, 0, 1, 2, 3])
        if key in approx:
            approx[key] = approx[key][:n]
        return {"op": "take", "key": key, "n": n}

    coll = _collision(rng) if rng.random() < 0.2 else None
    reqs = []
    n_req = rng.randrange(3, maxlen + 1)
    t = 0
    while t < n_req:
        if reqs and rng.random() < (0.35 if (ext or n_procs > 1) else 0.1):
            reqs.append(g_op())
            continue
        t += 1
        body = {}
        r = rng.random()

        def one():
            if focus:
                return cfg["single"] or rng.choice(["a", "b", "cfg"])
            if cfg["single"] and rng.random() < 0.6:
                return cfg["single"]
            if cfg["default"] and rng.random() < 0.3:
                return cfg["default"]
            if rng.random() < 0.1:      # anything the function-level generator writes (encoded escapes, look-alikes, …)
                for _ in range(5):
                    x = g_id(rng, root)
                    if len(x) < 300:
                        return x
            return rng.choice(E2E_BAD) if rng.random() < 0.15 else rng.choice(E2E_IDS)

        if coll and rng.random() < 0.5 and not focus:
            body["config_ids"] = list(coll[0]) if rng.random() < 0.55 else [coll[1]]
        elif focus:
            if rng.random() < 0.7 or cfg["single"]:
                body["config_id"] = one()
            else:
                body["config_ids"] = [one() for _ in range(rng.choice([1, 2]))]
        elif r < 0.45:
            body["config_id"] = one()
        elif r < 0.8:
            if cfg["single"] and rng.random() < 0.5:
                body["config_ids"] = [cfg["single"]]
            else:
                body["config_ids"] = [one() for _ in range(rng.choice([0, 1, 1, 2, 2, 3]))]
        elif r < 0.85:
            body["config_id"] = one()
            body["config_ids"] = [one()]
        elif r < 0.9:
            body["config_id"] = None
            body["config_ids"] = None
        # else: neither
        r = rng.random()
        if r < 0.7 or (focus and r < 0.95):
            body["thread_id"] = rng.choice(tids if not focus else tids[:2] + tids[:1] * (4 if long else 1))
        elif r < 0.8:
            body["thread_id"] = rng.choice(TIDS_BAD)
        elif r < 0.85:
            body["thread_id"] = None
        body["messages"] = [dict(_msg(rng, f"m{t}.{j}")) for j in range(rng.choice([0, 1, 1, 1, 2, 3]))]
        key = "thread-" + body["thread_id"] if body.get("thread_id") else None
        if key and approx.get(key) and rng.random() < 0.15:
            # a client that re-sends (part of) what the thread already holds before its new message
            h = approx[key]
            body["messages"] = [dict(m) for m in (h if rng.random() < 0.6 else h[-rng.randrange(1, len(h) + 1):])][:40] + body["messages"][:1]
        r = rng.random()
        if r < 0.1:
            body["context"] = {}
        elif r < 0.35:
            body["context"] = dict(rng.choice(CONTEXTS + [{"k": t}]))
        if rng.random() < 0.12:
            body["stream"] = True
        if rng.random() < 0.1:
            body["state"] = rng.choice([{}, {"events": [], "state": {}}])
        if rng.random() < 0.1:
            body["options"] = rng.choice([{}, {"rails": ["input"]}, {"log": {"activated_rails": True}}])
        r = rng.random()
        if r < 0.08:
            reply = None
        elif r < 0.2:
            reply = rng.choice([{"role": "assistant", "content": ""}, {"role": "assistant", "content": "hi"}, {"role": "assistant", "content": "ok", "extra": [1]}])
        else:
            reply = {"role": "assistant", "content": f"reply#{t}"}
        if focus and rng.random() < 0.15 and reqs and "op" not in reqs[-1] and reqs[-1]["body"].get("thread_id") in tids:
            # the same request on another thread, answered the same way: two threads with identical contents
            prev = reqs[-1]
            body = json.loads(json.dumps(prev["body"]))
            body["thread_id"] = rng.choice([x for x in tids if x != prev["body"]["thread_id"]])
            reply = prev["reply"]
            key = "thread-" + body["thread_id"]
        if key and reply is not None and not body.get("stream"):
            approx[key] = approx.get(key, []) + ([{"role": "context", "content": body["context"]}] if body.get("context") else []) + body["messages"] + [reply]
        reqs.append({"body": body, "reply": reply})
    return {"kind": "e2e", "cfg": cfg, "missing": ["missing"] if rng.random() < 0.8 else ["missing", "b"], "reqs": reqs}


def gen_cases(rng, tier):
    quick = tier == "quick"
    n_batches, per, n_e2e = (250, 400, 250) if quick else (750, 2000, 5000)
    cases = []
    # (a few small e2e cases first: the runner copies the first generated cases into the evidence file)
    for _ in range(3):
        cases.append(g_e2e_case(rng, 6))
    small = all_small(3 if quick else 4)
    for root in (["/srv/configs", "/"] if quick else ["/srv/configs", "/", "//srv", "rel/configs", "/srv/configs/"]):
        cases.append({"kind": "fn", "root": root, "ids": small, "paths": ["/" + s for s in small] + small, "joins": [], "cps": [], "exhaustive": True})
    for _ in range(n_batches):
        cases.append(g_fn_case(rng, per))
    for _ in range(n_e2e - 3):
        cases.append(g_e2e_case(rng))
    return cases


def escalate(rng, focus, tier):
    cases = [g_fn_case(rng, 1000) for _ in range(300)] + [g_e2e_case(rng) for _ in range(3000)]
    return cases


def shrink(case):
    if case["kind"] == "fn":
        for key in ("ids", "paths", "joins", "cps"):
            xs = case[key]
            if len(xs) > 1:
                h = len(xs) // 2
                for part in (xs[:h], xs[h:]):
                    yield dict(case, **{k: ([] if k != key else part) for k in ("ids", "paths", "joins", "cps")})
            elif len(xs) == 1 and any(case[k] for k in ("ids", "paths", "joins", "cps") if k != key):
                yield dict(case, **{k: ([] if k != key else xs) for k in ("ids", "paths", "joins", "cps")})
    else:
        reqs = case["reqs"]
        for i in range(len(reqs)):
            yield dict(case, reqs=reqs[:i] + reqs[i + 1:])
        cfg = case["cfg"]
        if cfg.get("store0"):
            yield dict(case, cfg={k: v for k, v in cfg.items() if k != "store0"})
            if len(cfg["store0"]) > 1:
                for i in range(len(cfg["store0"])):
                    yield dict(case, cfg=dict(cfg, store0=cfg["store0"][:i] + cfg["store0"][i + 1:]))
        for i, r in enumerate(reqs):
            if "op" in r:
                continue
            b = r["body"]
            if len(b.get("messages") or []) > 1:
                yield dict(case, reqs=reqs[:i] + [dict(r, body=dict(b, messages=b["messages"][:1]))] + reqs[i + 1:])
            for k in ("context", "stream", "state", "options"):
                if k in b:
                    yield dict(case, reqs=reqs[:i] + [dict(r, body={kk: v for kk, v in b.items() if kk != k})] + reqs[i + 1:])


# ----------------------------------------------------------------------------- implementation side

_API = None
_CLIENT = None
_REC = {"calls": [], "used": [], "turn": 0, "script": {}, "missing": set(), "streaming": False, "gr_mode": False}


class _StubConfig:
    def __init__(self, paths):
        self.paths = list(paths)
        self.streaming_supported = _REC["streaming"]

    def __add__(self, other):
        return _StubConfig(self.paths + other.paths)


class _StubRailsConfig:
    @staticmethod
    def from_path(path, *a, **k):
        _REC["calls"].append(path)
        if os.path.basename(path) in _REC["missing"]:
            raise ValueError(f"Invalid config path {path}.")
        return _StubConfig([path])


class _StubRails:
    def __init__(self, config, verbose=False, **k):
        self.config = config
        self.main_llm_supports_streaming = _REC["streaming"]
        self.events_history_cache = {}

    async def generate_async(self, messages=None, options=None, state=None, streaming_handler=None, **k):
        _REC["used"].append({"turn": _REC["turn"], "messages": json.loads(json.dumps(messages)), "served": list(self.config.paths), "streaming": streaming_handler is not None})
        if streaming_handler is not None:
            await streaming_handler.push_chunk("STREAMED")
            await streaming_handler.push_chunk(None)
            return None
        reply = _REC["script"].get(_REC["turn"])
        if reply is None:
            raise RuntimeError("scripted LLM failure")
        if _REC["gr_mode"]:
            from nemoguardrails.rails.llm.options import GenerationResponse

            return GenerationResponse(response=[dict(reply)])
        return dict(reply)


def worker_init():
    global _API, _CLIENT
    import warnings

    warnings.filterwarnings("ignore")
    logging.disable(logging.CRITICAL)
    from fastapi.testclient import TestClient
    from nemoguardrails.server import api

    api.RailsConfig = _StubRailsConfig
    api.LLMRails = _StubRails
    _API = api
    _CLIENT = TestClient(api.app, raise_server_exceptions=False)


def _reset(root, single=None, default=None):
    api = _API
    api.llm_rails_instances.clear()
    api.llm_rails_events_history_cache.clear()
    api.app.rails_config_path = root
    api.app.single_config_mode = single is not None
    api.app.single_config_id = single
    api.app.default_config_id = default
    api.registered_loggers.clear()
    _REC.update(calls=[], used=[], turn=0, script={}, missing=set(), streaming=False, gr_mode=False)


_ERRS = {"Invalid config_id.": "invalidId", "Access to the specified path is not allowed.": "notAllowed"}


def run_fn(case):
    api = _API
    inf = info()
    rx = re.compile(inf["rx_source"]) if inf["rx_source"] is not None else None
    root = case["root"]
    _reset(root)
    cwd = os.getcwd()
    base = os.path.abspath(root)
    out_ids = []
    for cid in case["ids"]:
        api.llm_rails_instances.clear()
        _REC["calls"] = []
        try:
            rails = api._get_rails([cid])
            res = {"ok": list(rails.config.paths)}
        except ValueError as e:
            m = str(e)
            res = {"err": _ERRS.get(m, "fromPathFailed" if m.startswith("Invalid config path") else "ValueError:" + m[:60])}
        except Exception as e:  # noqa
            res = {"err": "exc:" + type(e).__name__}
        j = os.path.join(base, cid)
        out_ids.append({"calls": list(_REC["calls"]), "res": res, "join": j, "norm": os.path.normpath(j), "bad": (rx.search(cid) is not None) if rx is not None else None,
                        "cached": list(api.llm_rails_instances.keys())})
    return {
        "cwd": cwd, "base": base, "ids": out_ids,
        "paths": [{"norm": os.path.normpath(p), "abs": os.path.abspath(p)} for p in case["paths"]],
        "joins": [os.path.join(a, b) for a, b in case["joins"]],
        "cps": [os.path.commonprefix(l) for l in case["cps"]],
    }


def classify(resp, turn, script):
    inf = info()
    if resp.status_code == 422:
        return {"r": "unprocessable"}
    if resp.status_code == 500:
        return {"r": "noConfig"}
    ctype = resp.headers.get("content-type", "")
    if resp.status_code == 200 and not ctype.startswith("application/json"):
        return {"r": "streaming", "body": resp.text}
    try:
        d = resp.json()
        msgs = d["messages"]
        content = msgs[0]["content"]
    except Exception:  # noqa
        return {"r": "other", "status": resp.status_code, "text": resp.text[:200]}
    if len(msgs) == 1 and isinstance(content, str):
        if content.startswith(inf["could_prefix"]) and content.endswith(inf["could_suffix"]):
            return {"r": "couldNotLoad", "ids_repr": content[len(inf["could_prefix"]):len(content) - len(inf["could_suffix"])]}
        if content == inf["internal_reply"]:
            return {"r": "internalError"}
        if content == inf["short_reply"]:
            return {"r": "threadTooShort"}
    return {"r": "ok", "reply": msgs[0], "n": len(msgs)}


def _load_process(i):
    """a server process of its own: the module `nemoguardrails/server/api.py` executed afresh (own `app`, own globals)."""
    import importlib.util
    import sys

    name = "nemoguardrails.server.api_proc%d" % i
    spec = importlib.util.spec_from_file_location(name, _API.__file__)
    m = importlib.util.module_from_spec(spec)
    sys.modules[name] = m
    spec.loader.exec_module(m)
    m.RailsConfig = _StubRailsConfig
    m.LLMRails = _StubRails
    return m


class _Store:
    """the datastore of a case, read and written directly (not through the server)."""

    def __init__(self, kind, items):
        from nemoguardrails.server.datastore.datastore import DataStore
        from nemoguardrails.server.datastore.memory_store import MemoryStore

        if kind == "custom":
            class DictStore(DataStore):
                def __init__(self):
                    self.rows = {}

                async def set(self, key, value):
                    self.rows[key] = value

                async def get(self, key):
                    return self.rows.get(key)

            self.ds = DictStore()
            self.d = self.ds.rows
        else:
            self.ds = MemoryStore()
            self.d = self.ds.data
        for k, v in items:
            self.d.setdefault(k, json.dumps(v))

    def snapshot(self):
        out = {}
        for k, v in self.d.items():
            try:
                out[k] = json.loads(v)
            except Exception:  # noqa
                out[k] = {"_raw": str(v)[:200]}
        return out

    def set(self, k, msgs):
        import asyncio

        asyncio.run(self.ds.set(k, json.dumps(msgs)))   # what any other user of the store does

    def get(self, k):
        v = self.d.get(k)
        return None if v is None else json.loads(v)

    def delete(self, k):
        self.d.pop(k, None)


def run_e2e(case):
    from fastapi.testclient import TestClient

    cfg = case["cfg"]
    _reset(cfg["root"], cfg.get("single"), cfg.get("default"))
    store = [_Store(cfg.get("store_kind"), cfg.get("store0") or []) if cfg.get("has_store") else None]
    procs = {}

    def start(i):
        m = _load_process(i)
        m.app.rails_config_path = cfg["root"]
        m.app.single_config_mode = cfg.get("single") is not None
        m.app.single_config_id = cfg.get("single")
        m.app.default_config_id = cfg.get("default")
        m.register_datastore(store[0].ds if store[0] is not None else None)
        procs[i] = (m, TestClient(m.app, raise_server_exceptions=False))

    cur = 0
    start(0)
    _REC["missing"] = set(case.get("missing") or [])
    _REC["streaming"] = bool(cfg.get("streaming"))
    _REC["gr_mode"] = bool(cfg.get("gr_mode"))
    n = 0
    script = {}
    for r in case["reqs"]:
        if "op" not in r:
            n += 1
            script[n] = r["reply"]
    _REC["script"] = script
    resps = []
    n = 0
    for r in case["reqs"]:
        if "op" in r:
            op = r["op"]
            c = {"r": "op"}
            if op == "proc":
                cur = r["i"]
                if cur not in procs:
                    start(cur)
            elif op == "restart":
                start(cur)
            elif op == "evict":
                procs[cur][0].llm_rails_instances.pop(r["key"], None)   # what the auto-reload watcher does
            elif store[0] is None:
                c["skipped"] = True
            elif op == "swap":
                store[0] = _Store(cfg.get("store_kind"), r["store"])
                for m, _ in procs.values():
                    m.register_datastore(store[0].ds)
            elif op == "set":
                store[0].set(r["key"], r["msgs"])
            elif op == "append":
                store[0].set(r["key"], (store[0].get(r["key"]) or []) + r["msgs"])
            elif op == "del":
                store[0].delete(r["key"])
            elif op == "take":
                v = store[0].get(r["key"])
                if v is not None:
                    store[0].set(r["key"], v[:r["n"]])
            elif op == "redact":
                v = store[0].get(r["key"])
                if v is not None:
                    store[0].set(r["key"], [_redact(m) for m in v])
            else:
                raise ValueError(op)
            resps.append(c)
            continue
        n += 1
        _REC["turn"] = n
        n_calls, n_used = len(_REC["calls"]), len(_REC["used"])
        before = store[0].snapshot() if store[0] is not None else None
        resp = procs[cur][1].post("/v1/chat/completions", json=r["body"])
        c = classify(resp, n, _REC["script"])
        c["calls"] = _REC["calls"][n_calls:]
        used = _REC["used"][n_used:]
        if used:
            c["used"] = used[-1]["messages"]
            c["served"] = used[-1]["served"]
            c["n_generate"] = len(used)
        c["proc"] = cur
        if store[0] is not None:
            after = store[0].snapshot()
            tk = "thread-" + r["body"]["thread_id"] if isinstance(r["body"].get("thread_id"), str) else None
            # the stored thread of this request as read from the store right before and right after it; every other key only if it changed
            c["stored_before"] = before.get(tk) if tk else None
            c["stored_after"] = after.get(tk) if tk else None
            c["others_changed"] = sorted(k for k in set(before) | set(after) if k != tk and before.get(k, "absent") != after.get(k, "absent"))
        resps.append(c)
    data = store[0].snapshot() if store[0] is not None else {}
    obs = {
        "cwd": os.getcwd(), "base": os.path.abspath(cfg["root"]),
        "resps": resps, "store": [[k, data[k]] for k in data], "store_json_ok": not any(isinstance(v, dict) and "_raw" in v for v in data.values()),
        "loads": list(_REC["calls"]),
        "caches": [[i, [[k, list(v.config.paths)] for k, v in procs[i][0].llm_rails_instances.items()]] for i in sorted(procs)],
    }
    obs["cache"] = [kv for _, c in obs["caches"] for kv in c]
    for m, _ in procs.values():
        m.register_datastore(None)
    return obs


def run_impl(case):
    if _API is None:
        worker_init()
    if case["kind"] == "fn":
        return run_fn(case)
    if case["kind"] == "e2e":
        return run_e2e(case)
    raise ValueError(case["kind"])


# ----------------------------------------------------------------------------- model side

def model_req(body):
    ctx = body.get("context")
    return {
        "config_id": body.get("config_id"),
        "config_ids": body.get("config_ids"),
        "thread_id": body.get("thread_id"),
        "context_msg": {"role": "context", "content": ctx} if ctx else None,
        "messages": body.get("messages") or [],
        "stream": bool(body.get("stream")),
    }


def model_requests(case, obs):
    if case["kind"] == "fn":
        items = [{"k": "path", "id": i} for i in case["ids"]]
        for p in case["paths"]:
            items.append({"k": "norm", "p": p})
            items.append({"k": "abs", "p": p})
        items += [{"k": "join", "a": a, "b": b} for a, b in case["joins"]]
        items += [{"k": "cp", "l": l} for l in case["cps"]]
        return [{"m": "C20.fn", "root": case["root"], "cwd": obs["cwd"], "items": items}]
    cfg = case["cfg"]
    miss = set(case.get("missing") or [])
    store_ops = ("set", "append", "del", "take", "swap", "redact")
    items = []
    for r in case["reqs"]:
        if "op" not in r:
            items.append(model_req(r["body"]))
        elif r["op"] in store_ops and not cfg.get("has_store"):
            items.append({"op": "proc", "i": -1})   # placeholder, replaced below (no datastore: nothing to operate on)
        else:
            items.append(r)
    # without a datastore the store operations do nothing: keep the positions aligned with a no-op
    cur = 0
    for i, it in enumerate(items):
        if it.get("op") == "proc":
            if it["i"] == -1:
                items[i] = {"op": "proc", "i": cur}
            else:
                cur = it["i"]
    return [{
        "m": "C20.run",
        "cfg": {"root": cfg["root"], "cwd": obs["cwd"], "single": cfg.get("single"), "default": cfg.get("default"),
                "has_store": bool(cfg.get("has_store")), "streaming": bool(cfg.get("streaming")),
                "store0": (cfg.get("store0") or []) if cfg.get("has_store") else []},
        # from_path fails on directories whose name is scripted as missing (decided on the name, as the stub does)
        "missing": sorted({p for p in obs["loads"] if os.path.basename(p) in miss} | {os.path.join(obs["base"], m) for m in miss}),
        "script": [r["reply"] for r in case["reqs"] if "op" not in r],
        "reqs": items,
    }]


def compare(case, obs, mouts):
    m = mouts[0]
    if case["kind"] == "fn":
        out = m["out"]
        k = 0
        for cid, o in zip(case["ids"], obs["ids"]):
            mo = out[k]
            k += 1
            if mo["base"] != obs["base"]:
                return f"abspath(root={case['root']!r}) = {obs['base']!r}, model {mo['base']!r}"
            if mo["join"] != o["join"]:
                return f"os.path.join(base, {cid!r}) = {o['join']!r}, model {mo['join']!r}"
            if mo["norm"] != o["norm"]:
                return f"normpath(join(base, {cid!r})) = {o['norm']!r}, model {mo['norm']!r}"
            if o["bad"] is not None and mo["bad"] != o["bad"]:
                return f"re.search(reject, {cid!r}) = {o['bad']}, model {mo['bad']}"
            want = {"ok": [mo["res"]["ok"]]} if "ok" in mo["res"] else {"err": mo["res"]["err"]}
            if want != o["res"]:
                return f"_get_rails([{cid!r}]) with root {case['root']!r}: {o['res']}, model {mo['res']}"
            wcalls = [mo["res"]["ok"]] if "ok" in mo["res"] else []
            if o["calls"] != wcalls:
                return f"_get_rails([{cid!r}]): from_path calls {o['calls']}, model {wcalls}"
            if o["cached"] != ([cid] if "ok" in mo["res"] else []):
                return f"_get_rails([{cid!r}]): cache keys {o['cached']} but model outcome {mo['res']}"
        for p, o in zip(case["paths"], obs["paths"]):
            if out[k]["norm"] != o["norm"]:
                return f"normpath({p!r}) = {o['norm']!r}, model {out[k]['norm']!r}"
            if out[k + 1]["abs"] != o["abs"]:
                return f"abspath({p!r}) = {o['abs']!r}, model {out[k + 1]['abs']!r}"
            k += 2
        for (a, b), o in zip(case["joins"], obs["joins"]):
            if out[k]["join"] != o:
                return f"join({a!r}, {b!r}) = {o!r}, model {out[k]['join']!r}"
            k += 1
        for l, o in zip(case["cps"], obs["cps"]):
            if out[k]["cp"] != o:
                return f"commonprefix({l!r}) = {o!r}, model {out[k]['cp']!r}"
            k += 1
        return None
    # e2e
    if len(m["resps"]) != len(obs["resps"]):
        return "model answered a different number of requests"
    for i, (a, b) in enumerate(zip(obs["resps"], m["resps"])):
        if a["r"] == "op" or b["r"] == "op":
            if a["r"] != b["r"]:
                return f"item {i + 1}: server side {a['r']}, model {b['r']}"
            continue
        body = case["reqs"][i]["body"]
        if a["r"] != b["r"]:
            return f"request {i + 1} {json.dumps(body, ensure_ascii=True)[:200]}: server {a}, model {b['r']}"
        if a["r"] == "couldNotLoad" and a["ids_repr"] != str(b["ids"]):
            return f"request {i + 1}: could-not-load reply names {a['ids_repr']}, model {b['ids']}"
        if a["r"] == "ok":
            if a["reply"] != b["reply"]:
                return f"request {i + 1}: reply {a['reply']}, model {b['reply']}"
            if a.get("used") != b["used"]:
                return f"request {i + 1}: messages given to the LLM {a.get('used')}, model {b['used']}"
            if a.get("served") != b["served"]:
                return f"request {i + 1}: served by config paths {a.get('served')}, model {b['served']}"
        if a["r"] == "streaming" and a.get("used") != b["used"]:
            return f"request {i + 1} (streaming): messages given to the LLM {a.get('used')}, model {b['used']}"
        if a["r"] not in ("ok", "streaming") and "used" in a and a["r"] != "internalError":
            return f"request {i + 1}: generate was called although the reply is {a['r']}"
    if obs["loads"] != m["loads"]:
        return f"paths given to from_path {obs['loads']}, model {m['loads']}"
    if sorted(obs["store"]) != sorted(m["store"]):
        return f"datastore {obs['store']}, model {m['store']}"
    if obs["caches"] != m["caches"]:
        return f"llm_rails_instances per process {obs['caches']}, model {m['caches']}"
    return None


# ----------------------------------------------------------------------------- oracle (independent of the model)

def inside(root_abs, p):
    """p (as given to from_path) denotes the root directory or something below it — decided on components."""
    if not isinstance(p, str) or not p.startswith("/"):
        return False
    pa = os.path.abspath(p)

    def comps(x):
        return [c for c in x.split("/") if c]

    r, q = comps(root_abs), comps(pa)
    return q[:len(r)] == r


def escapes(root_abs, cid):
    """joining cid onto the root names something outside the root (lexically)."""
    j = cid if cid.startswith("/") else root_abs.rstrip("/") + "/" + cid
    return not inside(root_abs, j)


def oracle(case, obs):
    if case["kind"] == "fn":
        root_abs = obs["base"]
        for cid, o in zip(case["ids"], obs["ids"]):
            for p in o["calls"]:
                if not inside(root_abs, p):
                    return f"load-outside-root: _get_rails([{cid!r}]) with root {case['root']!r} handed {p!r} to RailsConfig.from_path"
            if "ok" in o["res"] and escapes(root_abs, cid):
                return f"escape-not-rejected: config id {cid!r} leaves root {root_abs!r} but was accepted ({o['res']})"
            if "ok" not in o["res"] and o["cached"]:
                return f"cache-after-reject: config id {cid!r} was rejected but the cache holds {o['cached']}"
            if o["res"].get("err", "").startswith(("exc:", "ValueError:")):
                return f"unexpected-error: config id {cid!r}: {o['res']['err']}"
        return None
    cfg = case["cfg"]
    root_abs = obs["base"]
    for p in obs["loads"]:
        if not inside(root_abs, p):
            return f"load-outside-root: RailsConfig.from_path was given {p!r}, root {root_abs!r}"
    for key, paths in obs["cache"]:
        for p in paths:
            if not inside(root_abs, p):
                return f"load-outside-root: cached instance {key!r} combines {p!r}, root {root_abs!r}"
    # `exp` is the datastore as the property statement says it evolves: operations of other actors act on it directly, a completed
    # turn of thread t replaces exp[key(t)] by <stored thread> + <new messages> + [reply]; nothing else touches it.  Which server
    # process answers, and what it answered before, plays no role.
    has_store = bool(cfg.get("has_store"))
    exp = {}
    for k, v in (cfg.get("store0") or []) if has_store else []:
        exp.setdefault(k, v)
    for i, (r, a) in enumerate(zip(case["reqs"], obs["resps"])):
        if "op" in r:
            op = r["op"]
            if not has_store or op in ("proc", "restart", "evict"):
                continue
            if op == "swap":
                exp = {}
                for k, v in r["store"]:
                    exp.setdefault(k, v)
            elif op == "set":
                exp[r["key"]] = r["msgs"]
            elif op == "append":
                exp[r["key"]] = exp.get(r["key"], []) + r["msgs"]
            elif op == "del":
                exp.pop(r["key"], None)
            elif op == "take" and r["key"] in exp:
                exp[r["key"]] = exp[r["key"]][:r["n"]]
            elif op == "redact" and r["key"] in exp:
                exp[r["key"]] = [dict(m, content="#" * len(m["content"])) if isinstance(m.get("content"), str) else m for m in exp[r["key"]]]
            continue
        body = r["body"]
        if a["r"] == "other":
            return f"unexpected-response: request {i + 1}: {a}"
        ids = body.get("config_ids") if body.get("config_ids") else ([body["config_id"]] if body.get("config_id") else None)
        if ids is None and cfg.get("default"):
            ids = [cfg["default"]]
        if a["r"] not in ("unprocessable", "noConfig") and ids and not cfg.get("single") and any(escapes(root_abs, c) for c in ids) and a["r"] != "couldNotLoad":
            return f"escape-not-rejected: request {i + 1} names {ids} (leaves root {root_abs!r}) but the reply is {a['r']}"
        new = ([{"role": "context", "content": body["context"]}] if body.get("context") else []) + list(body.get("messages") or [])
        tid = body.get("thread_id")
        key = "thread-" + tid if tid else None
        if has_store:
            # the store as read directly around the request must be the store of the statement
            if a.get("others_changed"):
                return f"store-mismatch: request {i + 1} (thread {tid!r}) changed other datastore keys: {a['others_changed']}"
            if key and a.get("stored_before") != exp.get(key):
                return f"store-mismatch: before request {i + 1} the datastore holds {a.get('stored_before')} for {key!r}, the history says {exp.get(key)}"
        if a["r"] in ("ok", "streaming"):
            before = (a.get("stored_before") or []) if key else []
            if a.get("n_generate") != 1:
                return f"thread-history-mismatch: request {i + 1}: generate_async called {a.get('n_generate')} times"
            if a.get("used") != before + new:
                return (f"thread-history-mismatch: request {i + 1} (thread {tid!r}, process {a.get('proc')}): LLM got {a.get('used')}, expected the stored thread "
                        f"{before} followed by the new messages {new}")
            if a["r"] == "ok":
                if a["reply"] != r["reply"] or a["n"] != 1:
                    return f"thread-history-mismatch: request {i + 1}: reply {a['reply']} is not the generated {r['reply']}"
                if key:
                    exp[key] = before + new + [a["reply"]]
        if has_store and key and a.get("stored_after") != exp.get(key):
            return (f"store-mismatch: after request {i + 1} ({a['r']}, thread {tid!r}) the datastore holds {a.get('stored_after')}, "
                    f"the statement says {exp.get(key)}")
    want = sorted([k, v] for k, v in exp.items())
    if not obs["store_json_ok"] or sorted(obs["store"]) != want:
        return f"store-mismatch: datastore finally holds {obs['store']}, the history says {want}"
    return None


def signature(case, obs, msg):
    if not msg:
        return None
    head = msg.split(":", 1)[0]
    if head in ("load-outside-root", "escape-not-rejected", "cache-after-reject", "unexpected-error", "thread-history-mismatch", "store-mismatch", "unexpected-response"):
        return head
    return "corr:" + case["kind"]


def nontrivial(case, obs):
    if case["kind"] == "fn":
        oks = sum(1 for o in obs["ids"] if "ok" in o["res"])
        return 0 < oks < len(obs["ids"])
    per = {}
    for r, a in zip(case["reqs"], obs["resps"]):
        if "op" not in r and a["r"] == "ok" and r["body"].get("thread_id"):
            per[r["body"]["thread_id"]] = per.get(r["body"]["thread_id"], 0) + 1
    return any(v >= 2 for v in per.values()) or any(a["r"] == "couldNotLoad" for a in obs["resps"])


def tags(case, obs):
    t = ["kind:" + case["kind"]]
    if case["kind"] == "fn":
        t.append("root:" + case["root"])
        n_ok = sum(1 for o in obs["ids"] if "ok" in o["res"])
        n_root = sum(1 for o in obs["ids"] if o["res"].get("ok") == [obs["base"]])
        errs = {}
        for o in obs["ids"]:
            if "err" in o["res"]:
                errs[o["res"]["err"]] = errs.get(o["res"]["err"], 0) + 1
        t.append("fn-ids:%d" % (10 ** len(str(len(case["ids"])))))
        if n_ok:
            t.append("fn-has-accepted")
        if n_root:
            t.append("fn-has-root-itself")
        for e in errs:
            t.append("fn-err:" + e)
        if case.get("exhaustive"):
            t.append("fn-exhaustive-small-alphabet")
        return t
    kinds = set(a["r"] for a in obs["resps"])
    t += ["resp:" + k for k in sorted(kinds)]
    t.append("e2e-len:%d" % sum(1 for r in case["reqs"] if "op" not in r))
    for r in case["reqs"]:
        if "op" in r:
            t.append("e2e-op:" + r["op"])
    t = sorted(set(t))
    if len(obs["caches"]) > 1:
        t.append("e2e-processes:%d" % len(obs["caches"]))
    if case["cfg"].get("store0"):
        t.append("e2e-preseeded-store")
    # a completed turn on a thread this process served before and that somebody else changed in between
    last = {}
    for r, a in zip(case["reqs"], obs["resps"]):
        if "op" in r:
            if r["op"] in ("set", "append", "del", "take", "redact") and not a.get("skipped"):
                for k in list(last):
                    if k[1] == r["key"]:
                        last[k] = "changed"
            elif r["op"] == "swap":
                last = {k: "swapped" for k in last}
            continue
        if a["r"] == "ok" and r["body"].get("thread_id"):
            k = (a.get("proc"), "thread-" + r["body"]["thread_id"])
            if last.get(k) == "changed":
                t.append("e2e-turn-after-external-change")
            if last.get(k) == "swapped":
                t.append("e2e-turn-after-store-swap")
            last[k] = "served"
    if any(a["r"] in ("ok", "streaming") and a.get("stored_before") for a in obs["resps"]):
        t.append("e2e-turn-on-nonempty-thread")
    t.append("e2e-threads:%d" % len(obs["store"]))
    if case["cfg"].get("single"):
        t.append("e2e-single-mode")
    if case["cfg"].get("default"):
        t.append("e2e-default-id")
    if any(len(p) > 1 for _, p in obs["cache"]):
        t.append("e2e-combined-config")
    if any(a["r"] == "ok" and not a["calls"] for a in obs["resps"]):
        t.append("e2e-cache-hit")
    return t
